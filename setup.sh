#!/bin/sh
# Build the offline overlay interpreter used by every check:
#   /verif/.venv = python 3.12 of /venv + z3-solver, cvc5, sympy, jsonschema from the wheelhouse,
#   with /venv's site-packages (numpy, tatsu, t4_geom_convert's own deps) appended through a .pth file.
# /repo is NOT taken from /venv's installed copy: the checks put /repo first on sys.path.
set -e
cd "$(dirname "$0")"
export PIP_NO_INDEX=1 PIP_DISABLE_PIP_VERSION_CHECK=1
if [ ! -x .venv/bin/python ] || ! .venv/bin/python -c "import z3, sympy, jsonschema, numpy" 2>/dev/null; then
    rm -rf .venv
    /venv/bin/python -m venv .venv
    .venv/bin/pip install -q --no-index --find-links /opt/veriftools/wheels z3-solver cvc5 sympy jsonschema
    echo "import site; site.addsitedir('/venv/lib/python3.12/site-packages')" \
        > .venv/lib/python3.12/site-packages/repo_deps.pth
fi
.venv/bin/python - <<'PY'
import sys
sys.path.insert(0, '/repo')
import z3, sympy, jsonschema, numpy
import t4_geom_convert, MIP
assert t4_geom_convert.__file__.startswith('/repo/'), t4_geom_convert.__file__
print('setup ok: z3', z3.get_version_string(), 'sympy', sympy.__version__, 'numpy', numpy.__version__)
PY
