import sys, io, contextlib, warnings, pathlib, traceback, tempfile
_D = pathlib.Path(tempfile.mkdtemp(prefix='t4spike_'))
import shim; shim.install()
from t4_geom_convert.main import conversion, parse_args
def conv(text, opts=(), show=True):
    p = _D / '_deck.imcnp'; p.write_text(text)
    out = _D / '_deck.t4'
    if out.exists(): out.unlink()
    buf = io.StringIO()
    try:
        with contextlib.redirect_stdout(buf), warnings.catch_warnings():
            warnings.simplefilter('ignore')
            conversion(parse_args(['-o', str(out), str(p)]+list(opts)))
    except Exception as e:
        print('EXC', type(e).__name__, str(e)[:300]); return None
    t = out.read_text()
    if show: print(t[t.index('HASH_TABLE')+11:])
    return t
