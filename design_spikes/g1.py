import time, sympy as sp
b = sp.symbols('b1:10'); R = sp.Matrix(3,3,b)
v = sp.symbols('v1:4'); w = sp.symbols('w1:4'); o=sp.symbols('o1:4')
hyps = []
I3 = sp.eye(3)
for A in (R*R.T - I3, R.T*R - I3):
    for i in range(3):
        for j in range(i,3):
            hyps.append(sp.expand(A[i,j]))
t=time.time()
G = sp.groebner(hyps, *b, order='grevlex')
print('GB', len(G.exprs), time.time()-t)
M = R.T
V=sp.Matrix(v); W=sp.Matrix(w)
goal = sp.expand(((M*V).T*(M*W))[0,0] - (V.T*W)[0,0])
t=time.time()
# treat v,w as parameters: reduce in ring with all gens
G2 = sp.groebner(hyps, *b, *v, *w, order='grevlex')
print('GB2', len(G2.exprs), time.time()-t)
t=time.time(); q, r = G2.reduce(goal); print('rem', r, time.time()-t)
# quadric transform goal: degree higher
a = sp.symbols('a0:10'); X = sp.symbols('x y z')
def quad(p, pt):
    x,y,z = pt
    return p[0]*x*x+p[1]*y*y+p[2]*z*z+p[3]*x*y+p[4]*y*z+p[5]*z*x+p[6]*x+p[7]*y+p[8]*z+p[9]
