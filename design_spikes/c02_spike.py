import time, z3, math
from mini import *
from MIP.geom import forcad
from t4_geom_convert.Kernel.Surface.SurfaceMCNP import SurfaceMCNP
from t4_geom_convert.Kernel.Surface import ConversionSurfaceMCNPToT4 as CS
from t4_geom_convert.Kernel.Surface.ESurfaceTypeMCNP import ESurfaceTypeMCNP as MS, string_to_enum
from t4_geom_convert.Kernel.Surface.ESurfaceTypeT4 import ESurfaceTypeT4 as T4S
from t4_geom_convert.Kernel.FileHandlers.Parser import ParseMCNPSurface as PS

X, Y, Z = z3.Reals('X Y Z'); PI = math.pi
tanf = z3.Function('tan', z3.RealSort(), z3.RealSort()); atanf = z3.Function('atan', z3.RealSort(), z3.RealSort())
def t4_sense(surf):
    p = [lift(v) for v in surf.param_surface]; t = surf.type_surface
    if t == T4S.PLANEX: return X - p[0]
    if t == T4S.PLANEY: return Y - p[0]
    if t == T4S.PLANEZ: return Z - p[0]
    if t == T4S.PLANE: return p[0]*X + p[1]*Y + p[2]*Z + p[3]
    if t == T4S.SPHERE: return (X-p[0])**2 + (Y-p[1])**2 + (Z-p[2])**2 - p[3]**2
    if t == T4S.CYLX: return (Y-p[0])**2 + (Z-p[1])**2 - p[2]**2
    if t == T4S.CYLY: return (X-p[0])**2 + (Z-p[1])**2 - p[2]**2
    if t == T4S.CYLZ: return (X-p[0])**2 + (Y-p[1])**2 - p[2]**2
    if t in (T4S.CONEX, T4S.CONEY, T4S.CONEZ):
        T = tanf(p[3]*z3.RealVal(repr(PI))/180)
        d = {T4S.CONEX: ((Y-p[1])**2+(Z-p[2])**2, X-p[0]), T4S.CONEY: ((X-p[0])**2+(Z-p[2])**2, Y-p[1]), T4S.CONEZ: ((X-p[0])**2+(Y-p[1])**2, Z-p[2])}[t]
        return d[0] - T*T*d[1]**2
    raise NotImplementedError(t)
def run_card(mn, params):
    def run(it):
        surfs = it.call_py(PS.to_surfaces_mcnp, [1, ('', '', mn, params), {}], {})
        coll = it.call_py(CS.convert_mcnp_surface, [1, surfs], {})
        return coll
    return run
def check(mn, params, pre, spec_neg):   # spec_neg: z3 Bool 'point has negative MCNP sense'
    t0 = time.time(); paths = explore(run_card(mn, params)); n = 0; bad = 0
    for p, (kind, res) in paths:
        base = [pre] + p.pc + p.extra
        s = z3.Solver(); s.set('timeout', 10000); s.add(*base)
        if s.check() != z3.sat: continue
        n += 1
        if kind == 'raise': print('   raise path', res); continue
        # negative MCNP sense == all sub-surfaces on 'negative' side: side*sense<0
        neg = z3.And(*[ (side * t4_sense(sf)) < 0 for sf, side in res.surfs])
        s = z3.Solver(); s.set('timeout', 10000); s.add(*base)
        s.add(z3.ForAll([z3.Real('q')], tanf(atanf(z3.Real('q'))) == z3.Real('q')))
        # avoid boundary: spec strictly neg or strictly pos handled by caller
        s.add(neg != spec_neg)
        r = s.check()
        if r != z3.unsat: bad += 1; print('   FAIL', mn, r, [ (sf.type_surface.name, side) for sf, side in res.surfs], s.model() if r == z3.sat else '')
    print(f'{mn:5s} paths={n} bad={bad} {time.time()-t0:.2f}s')
a, b, c, d, r_ = [Sym(v) for v in z3.Reals('a b c d r')]
A,B,C,D,R = [v.t for v in (a,b,c,d,r_)]
check('px', [a], z3.BoolVal(True), X - A < 0)
check('c/y', [a, b, r_], R > 0, (X-A)**2 + (Z-B)**2 - R**2 < 0)
check('s', [a, b, c, r_], R > 0, (X-A)**2 + (Y-B)**2 + (Z-C)**2 - R**2 < 0)
check('p', [a, b, c, d], A*A+B*B+C*C > 0, A*X+B*Y+C*Z-D < 0)
check('kz', [a, b], B > 0, X**2 + Y**2 - B*(Z-A)**2 < 0)
check('kz', [a, b, 1], B > 0, z3.And(X**2 + Y**2 - B*(Z-A)**2 < 0, Z > A))
check('k/x', [a, b, c, d, -1], D > 0, z3.And((Y-B)**2 + (Z-C)**2 - D*(X-A)**2 < 0, X < A))
