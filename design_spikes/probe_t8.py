from conv import conv  # scratch harness, see conv.py
# X card with first point on the axis (r1 = 0): apex at x=1, second point (3, 2): cone opens toward +x
print('--- X card apex first'); conv("""title
1 0 -1 imp:n=1
2 0 1 imp:n=0

1 x 1 0 3 2

""")
print('--- facet .0'); conv("""title
1 0 -1.0 imp:n=1
2 0 1 imp:n=0

1 rpp -1 1 -2 2 -3 3

""")
