from conv import conv  # scratch harness, see conv.py
deck = """title
1 1 -1.0 -1 imp:n=1
2 like 1 but imp:n=0 trcl=(5 0 0)
3 0 1 imp:n=0

1 so 1

m1 13027 1.
"""
print('--- like but imp=0'); conv(deck)
deck = """title
1 01 -1.0 -1 imp:n=1
3 0 1 imp:n=0

1 so 1

m1 13027 1.
"""
print('--- material 01'); conv(deck)
