from conv import conv  # scratch harness, see conv.py
deck = """title
2 0 -12 11 -14 13 lat=1 fill=3 (0 0 0  0 1 0  -1 0 0  0 0 1) u=2 imp:n=1
31 1 -1.  -21 u=3 imp:n=1
32 2 -2.   21 u=3 imp:n=1
10 0  -1000 IMP:N=1 FILL=2
1000 0 1000 IMP:N=0

11 PX -5
12 PX 5
13 PY -5
14 PY 5
21 S 2 0 0 1
1000 SO 100

m1 13027 1.
m2 13027 1.
"""
conv(deck, ['--lattice','2,0:1,0:0'])
