import time
from z3 import *
set_param('timeout', 30000)
def chk(name, s):
    t=time.time(); r=s.check(); print(name, r, round(time.time()-t,3)); return r
# indices() 2-D: for e in range(lo1, hi1+1): for x in range(lo0, hi0+1): out.append((x, e))
lo0,hi0,lo1,hi1,e,x,n = Ints('lo0 hi0 lo1 hi1 e x n')
s0 = hi0 - lo0 + 1
o0 = Array('o0', IntSort(), IntSort()); o1 = Array('o1', IntSort(), IntSort())   # components of out
i0,i1 = Ints('i0 i1')
def pos(a0,a1): return (a1-lo1)*s0 + (a0-lo0)
def done(a0,a1,e,x):   # pairs already yielded when outer at e, inner at x (x = next to yield)
    return And(lo0<=a0, a0<=hi0, lo1<=a1, Or(a1<e, And(a1==e, a0<x)))
def INV(o0,o1,n,e,x):
    return And(lo1<=e, e<=hi1+1, lo0<=x, x<=hi0+1, n == (e-lo1)*s0 + (x-lo0),
               ForAll([i0,i1], Implies(done(i0,i1,e,x), And(o0[pos(i0,i1)]==i0, o1[pos(i0,i1)]==i1))))
pre = And(lo0<=hi0, lo1<=hi1)
# inner-loop preservation: append (x,e) at index n
o0b = Store(o0, n, x); o1b = Store(o1, n, e)
s = Solver(); s.add(pre, INV(o0,o1,n,e,x), e<=hi1, x<=hi0); s.add(Not(INV(o0b,o1b,n+1,e,x+1))); chk('inner-preserve', s)
# end of inner loop -> outer step: state (e, hi0+1) equals (e+1, lo0)
s = Solver(); s.add(pre, INV(o0,o1,n,e,hi0+1), e<=hi1); s.add(Not(INV(o0,o1,n,e+1,lo0))); chk('outer-step', s)
# init
s = Solver(); s.add(pre); s.add(Not(INV(o0,o1,IntVal(0),lo1,lo0))); chk('init', s)
# post at exit e == hi1+1, x == lo0: total length and all positions
s1 = hi1-lo1+1
post = And(n == s0*s1, ForAll([i0,i1], Implies(And(lo0<=i0,i0<=hi0,lo1<=i1,i1<=hi1), And(o0[pos(i0,i1)]==i0, o1[pos(i0,i1)]==i1))))
s = Solver(); s.add(pre, INV(o0,o1,n,hi1+1,lo0)); s.add(Not(post)); chk('post', s)
