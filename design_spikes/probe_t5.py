from conv import conv  # scratch harness, see conv.py
deck = """title
1 0 1 -3 imp:n=1
2 0 -2 imp:n=1
3 0 3 imp:n=0

1 PX 0
*2 PX 0
3 PX 7

"""
print("--- BC + dedup"); conv(deck)
