import time
from z3 import *
set_param('timeout', 20000)
def chk(name, s):
    t=time.time(); r=s.check(); print(name, r, round(time.time()-t,3)); 
    if r==sat: print('   ', s.model())
# (1) KX card: params (x0, t2[, nappe]); MCNP: sqrt((y)^2+(z)^2) - t (x - x0) = 0 one-sheet, or y^2+z^2 - t2 (x-x0)^2 = 0 two-sheet
x0,t2,x,y,z,pi = Reals('x0 t2 x y z pi')
atan = Function('atan', RealSort(), RealSort()); tan = Function('tan', RealSort(), RealSort())
tq = Real('tq')  # tq = t2**0.5
s = Solver()
s.add(t2 > 0, tq >= 0, tq*tq == t2, pi > 3)
theta_deg = 180*atan(tq)/pi          # convert_cone: theta = 180*compl_param[1]/pi with compl_param[1] = atan(tana)
# T4 CONEX x0 y0 z0 theta : (y-y0)^2 + (z-z0)^2 - tan(theta*pi/180)^2 (x-x0)^2  (spec)
T = tan(theta_deg*pi/180)
s.add(ForAll([tq], tan(atan(tq)) == tq))
t4 = y*y + z*z - T*T*(x-x0)*(x-x0)
mc = y*y + z*z - t2*(x-x0)*(x-x0)
s.add(Not((t4 > 0) == (mc > 0)))
chk('cone-two-sheet', s)
# (3) list induction spike: denAll over Cons-list with append distributivity, proven by explicit induction
L = Datatype('L'); L.declare('nil'); L.declare('cons', ('hd', IntSort()), ('tl', L)); L = L.create()
sig = Array('sig', IntSort(), BoolSort())
denAll = RecFunction('denAll', L, BoolSort())
l = Const('l', L); m = Const('m', L)
RecAddDefinition(denAll, [l], If(L.is_nil(l), True, And(Select(sig, L.hd(l)), denAll(L.tl(l)))))
app = RecFunction('app', L, L, L)
RecAddDefinition(app, [l, m], If(L.is_nil(l), m, L.cons(L.hd(l), app(L.tl(l), m))))
# lemma: denAll(app(l,m)) == denAll(l) and denAll(m); induction on l
s = Solver(); s.add(Not(denAll(app(L.nil, m)) == And(denAll(L.nil), denAll(m)))); chk('app-base', s)
h = Int('h'); t = Const('t', L)
s = Solver(); s.add(denAll(app(t, m)) == And(denAll(t), denAll(m)))
s.add(Not(denAll(app(L.cons(h,t), m)) == And(denAll(L.cons(h,t)), denAll(m)))); chk('app-step', s)
# (4) strings: str_fabs post: if s starts with '-' then result == s[1:] and '-'+result == s
st = String('st'); s = Solver()
res = If(SubString(st,0,1) == StringVal('-'), SubString(st,1,Length(st)-1), st)
s.add(Length(st) > 0)
s.add(Not(Or(And(PrefixOf(StringVal('-'), st), Concat(StringVal('-'), res) == st), And(Not(PrefixOf(StringVal('-'), st)), res == st))))
chk('str_fabs', s)
