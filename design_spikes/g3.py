import time, sympy as sp
def red(goal, hyps, gens, params):
    t=time.time()
    G = sp.groebner(hyps, *gens, order='grevlex', domain=sp.QQ.frac_field(*params) if params else sp.QQ)
    q, rem = sp.reduced(sp.expand(goal), G.exprs, *gens, order='grevlex', domain=sp.QQ.frac_field(*params) if params else sp.QQ)
    return sp.simplify(rem), len(G.exprs), round(time.time()-t,2)
V = lambda n: sp.Matrix(sp.symbols(f'{n}1:4'))
dot = lambda a,b: (a.T*b)[0,0]
# (a) BOX facet 1: |A|^2 * (n.w) == (n.A)(A.w), n = BxC, hyps: A.B=B.C=C.A=0
A,B,C,w = V('a'),V('b'),V('c'),V('w'); n = B.cross(C)
print('box facet', red(dot(A,A)*dot(n,w) - dot(n,A)*dot(A,w), [dot(A,B),dot(B,C),dot(C,A)], list(A)+list(B)+list(C), list(w)))
# (b) latticeReciprocal 3D: rec_i . v_j = delta_ij with norm = 3/(v1.v23+v2.v31+v3.v12); quotient var q*den = 3
v1,v2,v3 = V('u'),V('v'),V('t'); q = sp.symbols('q')
v12, v23, v31 = v1.cross(v2), v2.cross(v3), v3.cross(v1)
den = dot(v1,v23)+dot(v2,v31)+dot(v3,v12)
rec1 = q*v23
print('recip3 r1.v1=1', red(dot(rec1,v1)-1, [q*den-3], [q]+list(v1)+list(v2)+list(v3), []))
print('recip3 r1.v2=0', red(dot(rec1,v2), [q*den-3], [q]+list(v1)+list(v2)+list(v3), []))
# 2D: rec1 = (|v2|^2/den) v1 - (v1.v2/den) v2, den = |v1|^2|v2|^2-(v1.v2)^2 ; q*den = 1
d2 = dot(v1,v1)*dot(v2,v2)-dot(v1,v2)**2
r1 = q*dot(v2,v2)*v1 - q*dot(v1,v2)*v2
print('recip2 r1.v1=1', red(dot(r1,v1)-1, [q*d2-1], [q]+list(v1)+list(v2), []))
print('recip2 r1.v2=0', red(dot(r1,v2), [q*d2-1], [q]+list(v1)+list(v2), []))
# (c) rotation_from_vectors(z, u): R = I + K + K^2/(1+c), axis = z x u, c = z.u = u3 ; hyps |u|=1, q*(1+u3)=1
u = V('u'); z = sp.Matrix([0,0,1]); ax = z.cross(u)
K = sp.Matrix([[0,-ax[2],ax[1]],[ax[2],0,-ax[0]],[-ax[1],ax[0],0]])
R = sp.eye(3) + K + q*K*K
h = [dot(u,u)-1, q*(1+u[2])-1]
print('rod R z = u', [red((R*z - u)[i], h, [q]+list(u), [])[0] for i in range(3)])
E = R.T*R - sp.eye(3)
t=time.time(); print('rod orth', [red(E[i,j], h, [q]+list(u), [])[0] for i in range(3) for j in range(i,3)], round(time.time()-t,2))
