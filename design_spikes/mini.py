"""Throw-away spike: path-sensitive symbolic interpreter over real ASTs (design validation only)."""
import ast, inspect, textwrap, itertools, math, time
import z3

class Sym:
    def __init__(self, t): self.t = t
    def __repr__(self): return f'Sym({self.t})'
def lift(v):
    if isinstance(v, Sym): return v.t
    if isinstance(v, bool): return z3.BoolVal(v)
    if isinstance(v, int): return z3.RealVal(v)
    if isinstance(v, float): return z3.RealVal(repr(v))
    raise TypeError(v)
def is_sym(v): return isinstance(v, Sym)

class Ret(Exception):
    def __init__(s, v): s.v = v
class Raised(Exception):
    def __init__(s, v): s.v = v
class Fork(Exception): pass

class Path:
    def __init__(self, decisions): self.decisions = list(decisions); self.i = 0; self.pc = []; self.extra = []; self.obl = []
    def branch(self, cond):   # cond: z3 Bool
        cond = z3.simplify(cond)
        if z3.is_true(cond): return True
        if z3.is_false(cond): return False
        if self.i < len(self.decisions): d = self.decisions[self.i]
        else: d = True; self.decisions.append(True)
        self.i += 1
        self.pc.append(cond if d else z3.Not(cond)); return d

class Interp:
    def __init__(self, path, contracts=None): self.p = path; self.n = 0
    def fresh(self, name='v'): self.n += 1; return z3.Real(f'{name}!{self.n}')
    def call_py(self, fn, args, kwargs):
        src = textwrap.dedent(inspect.getsource(fn)); node = ast.parse(src).body[0]
        env = dict(fn.__globals__); params = [a.arg for a in node.args.args]
        defaults = node.args.defaults
        for name, d in zip(params[len(params)-len(defaults):], defaults): env[name] = self.ev(d, env)
        for name, v in zip(params, args): env[name] = v
        env.update(kwargs)
        try:
            self.block(node.body, env)
        except Ret as r: return r.v
        return None
    def block(self, stmts, env):
        for s in stmts: self.stmt(s, env)
    def assign(self, tgt, val, env):
        if isinstance(tgt, ast.Name): env[tgt.id] = val
        elif isinstance(tgt, (ast.Tuple, ast.List)):
            vals = list(val); assert len(vals) == len(tgt.elts), 'arity'
            for t, v in zip(tgt.elts, vals): self.assign(t, v, env)
        elif isinstance(tgt, ast.Subscript):
            obj = self.ev(tgt.value, env); idx = self.ev(tgt.slice, env); obj[idx] = val
        elif isinstance(tgt, ast.Attribute):
            setattr(self.ev(tgt.value, env), tgt.attr, val)
        else: raise NotImplementedError(ast.dump(tgt))
    def stmt(self, s, env):
        if isinstance(s, ast.Expr): 
            if isinstance(s.value, ast.Constant): return
            self.ev(s.value, env)
        elif isinstance(s, ast.Assign):
            v = self.ev(s.value, env)
            for t in s.targets: self.assign(t, v, env)
        elif isinstance(s, ast.Return): raise Ret(self.ev(s.value, env) if s.value else None)
        elif isinstance(s, ast.If):
            c = self.truth(self.ev(s.test, env))
            self.block(s.body if c else s.orelse, env)
        elif isinstance(s, ast.Raise): raise Raised(ast.unparse(s.exc)[:60])
        elif isinstance(s, ast.Try): self.block(s.body, env)   # spike: handlers only re-raise
        elif isinstance(s, ast.For):
            for item in self.ev(s.iter, env):
                self.assign(s.target, item, env); self.block(s.body, env)
        elif isinstance(s, ast.AugAssign):
            cur = self.ev(ast.Name(id=s.target.id, ctx=ast.Load()), env); env[s.target.id] = self.binop(s.op, cur, self.ev(s.value, env))
        else: raise NotImplementedError(type(s).__name__)
    def truth(self, v):
        if is_sym(v): return self.p.branch(v.t)
        return bool(v)
    def binop(self, op, a, b):
        if not is_sym(a) and not is_sym(b):
            return {ast.Add: lambda: a+b, ast.Sub: lambda: a-b, ast.Mult: lambda: a*b, ast.Div: lambda: a/b, ast.Pow: lambda: a**b}[type(op)]()
        if isinstance(op, ast.Add) and isinstance(a, (list, tuple)): return a + b
        x = lift(a); 
        if isinstance(op, ast.Pow):
            if b == 2: return Sym(x*x)
            if b == 0.5:
                s = self.fresh('sqrt'); self.p.extra += [s >= 0, s*s == x]; self.p.obl.append(('sqrt-arg>=0', x >= 0)); return Sym(s)
            raise NotImplementedError('pow')
        y = lift(b)
        if isinstance(op, ast.Add): return Sym(x+y)
        if isinstance(op, ast.Sub): return Sym(x-y)
        if isinstance(op, ast.Mult): return Sym(x*y)
        if isinstance(op, ast.Div):
            self.p.obl.append(('div!=0', y != 0)); q = self.fresh('q'); self.p.extra.append(q*y == x); return Sym(q)
        raise NotImplementedError(op)
    def cmp(self, op, a, b):
        if not is_sym(a) and not is_sym(b):
            return {ast.Eq: a==b, ast.NotEq: a!=b, ast.Lt: None, ast.Gt: None}.get(type(op)) if isinstance(op,(ast.Eq,ast.NotEq)) else eval('a %s b' % {ast.Lt:'<',ast.Gt:'>',ast.LtE:'<=',ast.GtE:'>='}[type(op)])
        if (a is None) != (b is None): return isinstance(op, ast.NotEq)
        x, y = lift(a), lift(b)
        return Sym({ast.Eq: x==y, ast.NotEq: x!=y, ast.Lt: x<y, ast.Gt: x>y, ast.LtE: x<=y, ast.GtE: x>=y}[type(op)])
    def ev(self, e, env):
        if isinstance(e, ast.Constant): return e.value
        if isinstance(e, ast.Name): return env[e.id] if e.id in env else __import__("builtins").__dict__[e.id]
        if isinstance(e, (ast.Tuple, ast.List)):
            out = []
            for x in e.elts:
                if isinstance(x, ast.Starred): out.extend(self.ev(x.value, env))
                else: out.append(self.ev(x, env))
            return tuple(out) if isinstance(e, ast.Tuple) else out
        if isinstance(e, ast.BinOp): return self.binop(e.op, self.ev(e.left, env), self.ev(e.right, env))
        if isinstance(e, ast.UnaryOp):
            v = self.ev(e.operand, env)
            if isinstance(e.op, ast.USub): return Sym(-v.t) if is_sym(v) else -v
            if isinstance(e.op, ast.Not): return Sym(z3.Not(v.t)) if is_sym(v) else (not v)
        if isinstance(e, ast.BoolOp):
            res = None
            for x in e.values:
                v = self.ev(x, env); t = self.truth(v)
                if isinstance(e.op, ast.And) and not t: return False
                if isinstance(e.op, ast.Or) and t: return True
            return isinstance(e.op, ast.And)
        if isinstance(e, ast.Compare):
            l = self.ev(e.left, env)
            for op, r in zip(e.ops, e.comparators):
                rv = self.ev(r, env)
                if isinstance(op, ast.In): c = l in rv
                elif isinstance(op, ast.Is): c = l is rv
                elif isinstance(op, ast.IsNot): c = l is not rv
                else: c = self.cmp(op, l, rv)
                if not self.truth(c): return False
                l = rv
            return True
        if isinstance(e, ast.IfExp): return self.ev(e.body if self.truth(self.ev(e.test, env)) else e.orelse, env)
        if isinstance(e, ast.Subscript):
            o = self.ev(e.value, env)
            if isinstance(e.slice, ast.Slice):
                lo = self.ev(e.slice.lower, env) if e.slice.lower else None; hi = self.ev(e.slice.upper, env) if e.slice.upper else None
                return o[lo:hi]
            return o[self.ev(e.slice, env)]
        if isinstance(e, ast.Attribute):
            o = self.ev(e.value, env); return getattr(o, e.attr)
        if isinstance(e, ast.Call):
            f = self.ev(e.func, env); args = []
            for a in e.args:
                if isinstance(a, ast.Starred): args.extend(self.ev(a.value, env))
                else: args.append(self.ev(a, env))
            kw = {k.arg: self.ev(k.value, env) for k in e.keywords}
            return self.call(f, args, kw)
        if isinstance(e, ast.JoinedStr): return '<fstring>'
        if isinstance(e, (ast.ListComp, ast.GeneratorExp)):
            out = []
            def rec(gi, env2):
                if gi == len(e.generators): out.append(self.ev(e.elt, env2)); return
                g = e.generators[gi]
                for item in self.ev(g.iter, env2):
                    env3 = dict(env2); self.assign(g.target, item, env3)
                    if all(self.truth(self.ev(c, env3)) for c in g.ifs): rec(gi+1, env3)
            rec(0, env); return out
        raise NotImplementedError(ast.dump(e)[:80])
    def anysym(self, x):
        if is_sym(x): return True
        if isinstance(x, (list, tuple)): return any(self.anysym(y) for y in x)
        if hasattr(x, '__dict__') and not inspect.isfunction(x) and not inspect.isclass(x) and not inspect.ismodule(x):
            return any(self.anysym(y) for y in vars(x).values())
        return False
    def call(self, f, args, kw):
        if f is math.atan: u = z3.Function('atan', z3.RealSort(), z3.RealSort()); return Sym(u(lift(args[0])))
        if f is math.fabs or f is abs:
            x = lift(args[0]); return Sym(z3.If(x >= 0, x, -x))
        if f is float and is_sym(args[0]): return args[0]
        if f is int and is_sym(args[0]): return args[0]
        if f in (len, tuple, list, isinstance, zip, range, enumerate, str): return f(*args, **kw)
        if not self.anysym(args) and not self.anysym(list(kw.values())): return f(*args, **kw)
        if inspect.isbuiltin(f) and isinstance(getattr(f, '__self__', None), (list, dict, tuple)): return f(*args, **kw)
        if inspect.isclass(f) and f in (tuple, list): return f(*args)
        if isinstance(f, classmethod) or (inspect.ismethod(f) and inspect.isclass(f.__self__)): return self.call_py(f.__func__, [f.__self__]+args, kw)
        if inspect.isclass(f):
            obj = object.__new__(f); self.call_py(f.__init__, [obj]+args, kw); return obj
        if inspect.isfunction(f): return self.call_py(f, args, kw)
        if inspect.ismethod(f): return self.call_py(f.__func__, [f.__self__]+args, kw)
        raise NotImplementedError(f)

def explore(run):
    """run(interp) -> (result, goal_fn) ; enumerates paths by decision prefixes"""
    todo = [[]]; out = []
    while todo:
        dec = todo.pop(); p = Path(dec); it = Interp(p)
        try: res = ('ret', run(it))
        except Raised as r: res = ('raise', r.v)
        out.append((p, res))
        for j in range(len(dec), len(p.decisions)):
            todo.append(p.decisions[:j] + [False])
    return out
