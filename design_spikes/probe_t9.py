from conv import conv  # scratch harness, see conv.py
print('--- SO with 2 params'); conv("""title
1 0 -1 imp:n=1
2 0 1 imp:n=0

1 so 5 7

""")
print('--- starred inline TRCL with m=-1'); conv("""title
1 0 -1 *trcl=(1 0 0 0 90 90 90 0 90 90 90 0 -1) imp:n=1
2 0 #1 imp:n=0

1 so 5

""")
print('--- fill array too long'); conv("""title
1 0 -1 2 lat=1 u=1 fill=0:1 0:0 0:0 2 2 2 imp:n=1
2 0 -3 u=2 imp:n=1
3 0 3 u=2 imp:n=1
4 0 -4 fill=1 imp:n=1
5 0 4 imp:n=0

1 px 1
2 px 0
3 so 0.2
4 so 10

tr2 0.5 0 0
""")
