import time, subprocess, sys
from z3 import *
x,y,z = Reals('x y z')
tr = Reals('o1 o2 o3 b1 b2 b3 b4 b5 b6 b7 b8 b9')
def T(a): return [list(r) for r in zip(*a)]
b=tr[3:]
R=[[b[0],b[1],b[2]],[b[3],b[4],b[5]],[b[6],b[7],b[8]]]
orth=[]
for i in range(3):
    for j2 in range(i,3):
        orth.append(sum(R[i][k]*R[j2][k] for k in range(3)) == (1 if i==j2 else 0))
xp,yp,zp=Reals('xp yp zp')
M=T(R)
fw=[M[i][0]*xp+M[i][1]*yp+M[i][2]*zp+tr[i] for i in range(3)]
xa = [sum(R[i][k]*(fw[k]-tr[k]) for k in range(3)) for i in range(3)]
s=Solver(); s.add(*orth)
s.add(Or(xa[0]!=xp, xa[1]!=yp, xa[2]!=zp))
open('s3.smt2','w').write('(set-logic QF_NRA)\n'+s.to_smt2())
# one-component version
s=Solver(); s.add(*orth); s.add(xa[0]!=xp)
open('s3a.smt2','w').write('(set-logic QF_NRA)\n'+s.to_smt2())
