from conv import conv  # scratch harness, see conv.py
base = """title
1 0 -1 : #2 imp:n=1
2 0 -2 imp:n=1
3 0 1 2 imp:n=0

1 so 1
2 s 5 0 0 1

"""
print('--- colon hash'); conv(base)
print('--- nested'); conv(base.replace('-1 : #2', '#(1 #2)'))
print('--- Y card'); conv("""title
1 0 -1 imp:n=1
2 0 1 imp:n=0

1 y 1 2 3 4

""")
print('--- X card'); conv("""title
1 0 -1 imp:n=1
2 0 1 imp:n=0

1 x 1 2 3 4

""")
