import time
from z3 import *
set_param('timeout', 30000)
def chk(name, s):
    t=time.time(); r=s.check(); print(name, r, round(time.time()-t,3)); return r
# largestPureIntersectionNode(nodes): abstract each node by (kind: 0 surface,1 pure-'*'-node-of-surfaces, 2 other; ln: len(node))
# loop state: largest_index (li, -1 for None), largest_len (ll); invariant over processed prefix [0,k):
#   INV: (li == -1 and ll == 0 and forall j<k: not pure(j)) or (0<=li<k and pure(li) and ll == w(li) and forall j<k: pure(j) => w(j) <= ll ... )
# where w(j) = 1 for surface, len(node) for pure node; pure(j) = kind!=2
kind = Function('kind', IntSort(), IntSort()); ln = Function('ln', IntSort(), IntSort())
def pure(j): return kind(j) != 2
def w(j): return If(kind(j) == 0, 1, ln(j))
k, li, ll, n = Ints('k li ll n'); j = Int('j')
def INV(k, li, ll):
    return And(0 <= k, k <= n,
               Or(And(li == -1, ll == 0, ForAll([j], Implies(And(0 <= j, j < k), Not(pure(j))))),
                  And(0 <= li, li < k, pure(li), ll == w(li), ll >= 1,
                      ForAll([j], Implies(And(0 <= j, j < k, pure(j)), w(j) <= ll)),
                      ForAll([j], Implies(And(0 <= j, j < li, pure(j)), w(j) < ll)))))
axioms = [ForAll([j], Implies(kind(j) == 1, ln(j) >= 3))]   # a '*' node [id,'*',...] has len>=3? (>=2 really) keep >=2
axioms = [ForAll([j], And(kind(j) >= 0, kind(j) <= 2, Implies(kind(j) == 1, ln(j) >= 2)))]
# init
s = Solver(); s.add(*axioms); s.add(n >= 0); s.add(Not(INV(IntVal(0), IntVal(-1), IntVal(0)))); chk('init', s)
# preservation: one iteration at index k
li2, ll2 = Ints('li2 ll2')
body = If(And(kind(k) == 0, ll < 1), And(li2 == k, ll2 == 1),
        If(kind(k) == 0, And(li2 == li, ll2 == ll),
        If(kind(k) == 2, And(li2 == li, ll2 == ll),
        If(ln(k) > ll, And(li2 == k, ll2 == ln(k)), And(li2 == li, ll2 == ll)))))
s = Solver(); s.add(*axioms); s.add(INV(k, li, ll), k < n, body); s.add(Not(INV(k+1, li2, ll2))); chk('preserve', s)
# post: at exit k == n: result None iff no pure node; else pure & maximal & first among maximal
res = li
post = And(Implies(res == -1, ForAll([j], Implies(And(0<=j, j<n), Not(pure(j))))),
           Implies(res != -1, And(0 <= res, res < n, pure(res), ForAll([j], Implies(And(0<=j, j<n, pure(j)), w(j) <= w(res))))))
s = Solver(); s.add(*axioms); s.add(INV(n, li, ll)); s.add(Not(post)); chk('post', s)
