import time, z3, math
from mini import *
from c02_spike import t4_sense, X, Y, Z, T4S, PS, CS, tanf, atanf
import c02_spike
def t4_sense2(surf):
    p = [lift(v) for v in surf.param_surface]; t = surf.type_surface
    if t == T4S.CYL:
        dx, dy, dz = X-p[0], Y-p[1], Z-p[2]; ux, uy, uz = p[4], p[5], p[6]
        return (dx*dx+dy*dy+dz*dz) - (dx*ux+dy*uy+dz*uz)**2 - p[3]**2
    if t == T4S.CONE:
        dx, dy, dz = X-p[0], Y-p[1], Z-p[2]; ux, uy, uz = p[4], p[5], p[6]
        T = tanf(p[3]*z3.RealVal(repr(math.pi))/180); ax = dx*ux+dy*uy+dz*uz
        return (dx*dx+dy*dy+dz*dz) - ax*ax - T*T*ax*ax
    return t4_sense(surf)
o = z3.Reals('o1 o2 o3'); bb = z3.Reals('b1 b2 b3 b4 b5 b6 b7 b8 b9')
tr = [Sym(v) for v in o] + [Sym(v) for v in bb]
xa, ya, za = z3.Reals('xa ya za')
fw = [o[0] + bb[0]*xa + bb[3]*ya + bb[6]*za, o[1] + bb[1]*xa + bb[4]*ya + bb[7]*za, o[2] + bb[2]*xa + bb[5]*ya + bb[8]*za]
R = [[bb[0],bb[1],bb[2]],[bb[3],bb[4],bb[5]],[bb[6],bb[7],bb[8]]]
orth = [sum(R[i][k]*R[j][k] for k in range(3)) == (1 if i==j else 0) for i in range(3) for j in range(i,3)]
orth += [sum(R[k][i]*R[k][j] for k in range(3)) == (1 if i==j else 0) for i in range(3) for j in range(i,3)]
def check_tr(mn, params, pre, spec_neg_aux, extra_pre=()):
    def run(it):
        surfs = it.call_py(PS.to_surfaces_mcnp, [1, ('', '7', mn, params), {7: tr}], {})
        return it.call_py(CS.convert_mcnp_surface, [1, surfs], {})
    t0 = time.time(); paths = explore(run); n = bad = 0
    for p, (kind, res) in paths:
        base = [pre] + orth + list(extra_pre) + p.pc + p.extra + [X == fw[0], Y == fw[1], Z == fw[2]]
        s = z3.Solver(); s.set('timeout', 20000); s.add(*base)
        if s.check() == z3.unsat: continue
        n += 1
        neg = z3.And(*[(side * t4_sense2(sf)) < 0 for sf, side in res.surfs])
        s = z3.Solver(); s.set('timeout', 20000); s.add(*base)
        s.add(z3.ForAll([z3.Real('q')], tanf(atanf(z3.Real('q'))) == z3.Real('q')))
        s.add(neg != spec_neg_aux); r = s.check()
        if r != z3.unsat:
            bad += 1; print('   FAIL', mn, r, [(sf.type_surface.name, side) for sf, side in res.surfs])
            if r == z3.sat:
                m = s.model(); print('      ', {str(d): m[d] for d in m.decls() if str(d)[0] in 'boxyzXYZab'})
    print(f'{mn:5s}+TR paths={n} bad={bad} {time.time()-t0:.2f}s')
a, b, r_ = [Sym(v) for v in z3.Reals('a b r')]; A, B, Rr = a.t, b.t, r_.t
check_tr('px', [a], z3.BoolVal(True), xa - A < 0)
check_tr('so', [r_], Rr > 0, xa*xa+ya*ya+za*za - Rr*Rr < 0)
check_tr('kz', [a, b, 1], B > 0, z3.And(xa*xa + ya*ya - B*(za-A)**2 < 0, za > A))
check_tr('c/z', [a, b, r_], Rr > 0, (xa-A)**2 + (ya-B)**2 - Rr*Rr < 0)
