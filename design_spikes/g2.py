import time, sympy as sp
b = sp.symbols('b1:10'); o = sp.symbols('o1:4'); xa = sp.symbols('xa ya za'); A,B,r,t2 = sp.symbols('A B r t2')
R = sp.Matrix(3,3,b); M = R.T
I3 = sp.eye(3); hyps = []
for E in (R*R.T - I3, R.T*R - I3):
    for i in range(3):
        for j in range(i,3): hyps.append(sp.expand(E[i,j]))
t=time.time(); G = sp.groebner(hyps, *b, order='grevlex'); print('GB orth', len(G.exprs), round(time.time()-t,2))
O = sp.Matrix(o); XA = sp.Matrix(xa)
P = M*XA + O
def red(goal, extra=()):
    t=time.time()
    if extra:
        Gx = sp.groebner(hyps + list(extra), *b, order='grevlex')
    else: Gx = G
    allsyms = list(b)
    poly = sp.Poly(sp.expand(goal), *b, domain=sp.QQ[o + xa + (A,B,r,t2)])
    q, rem = sp.reduced(poly.as_expr(), Gx.exprs, *b, order='grevlex', domain=sp.QQ.frac_field(*(o + xa + (A,B,r,t2))))
    return sp.simplify(rem), round(time.time()-t,2)
# cylinder c/z A B r under TR, general CYL
p0 = M*sp.Matrix([A,B,0]) + O; u = M*sp.Matrix([0,0,1]); d = P - p0
fT4 = (d.T*d)[0,0] - ((d.T*u)[0,0])**2 - r**2
fsp = (xa[0]-A)**2 + (xa[1]-B)**2 - r**2
print('cyl general', red(fT4 - fsp))
# re-classified CYLZ path: u_x == 0, u_y == 0 => b7=b8=0; T4 CYLZ x y r
fT4z = (P[0]-p0[0])**2 + (P[1]-p0[1])**2 - r**2
print('cyl CYLZ path', red(fT4z - fsp, extra=[b[6], b[7]]))
# cone kz A t2 (+1) general path: cone poly & plane
ap = M*sp.Matrix([0,0,A]) + O; dd = P - ap; ax = (dd.T*u)[0,0]
fcone = (dd.T*dd)[0,0] - ax**2 - t2*ax**2
fsc = xa[0]**2 + xa[1]**2 - t2*(xa[2]-A)**2
print('cone general', red(fcone - fsc))
# aux plane: PLANE u . (P - ap)  vs  (za - A)
print('aux plane general', red(ax - (xa[2]-A)))
# PLANEZ path (b7=b8=0): T4 plane poly Z - z0 with z0 = ap_z ; vs u_z*(za-A) -> identity Z - ap_z == b9*(za - A)
print('aux plane PLANEZ path', red((P[2]-ap[2]) - b[8]*(xa[2]-A), extra=[b[6], b[7]]))
