import time
from z3 import *
set_param('timeout', 30000)
def chk(name, s):
    t=time.time(); r=s.check(); print(name, r, round(time.time()-t,3))
    return r
Tree = Datatype('Tree'); TL = Datatype('TL')
Tree.declare('surf', ('s', IntSort()))            # signed id, != 0
Tree.declare('cref', ('c', IntSort()))
Tree.declare('node', ('nid', IntSort()), ('op', IntSort()), ('args', TL))   # op 0='*', 1=':'
TL.declare('nil'); TL.declare('cons', ('hd', Tree), ('tl', TL))
Tree, TL = CreateDatatypes(Tree, TL)
sig = Array('sig', IntSort(), BoolSort())
cden = Function('cden', IntSort(), BoolSort())   # denotation of referenced cells (opaque)
den = RecFunction('den', Tree, BoolSort()); denAll = RecFunction('denAll', TL, BoolSort()); denAny = RecFunction('denAny', TL, BoolSort())
t = Const('t', Tree); l = Const('l', TL); m = Const('m', TL)
RecAddDefinition(den, [t], If(Tree.is_surf(t), If(Tree.s(t) > 0, sig[Tree.s(t)], Not(sig[-Tree.s(t)])),
                           If(Tree.is_cref(t), cden(Tree.c(t)),
                              If(Tree.op(t) == 0, denAll(Tree.args(t)), denAny(Tree.args(t))))))
RecAddDefinition(denAll, [l], If(TL.is_nil(l), True, And(den(TL.hd(l)), denAll(TL.tl(l)))))
RecAddDefinition(denAny, [l], If(TL.is_nil(l), False, Or(den(TL.hd(l)), denAny(TL.tl(l)))))
app = RecFunction('app', TL, TL, TL)
RecAddDefinition(app, [l, m], If(TL.is_nil(l), m, TL.cons(TL.hd(l), app(TL.tl(l), m))))
# lemma L1 (proved by induction elsewhere): denAll(app(l,m)) == denAll(l) & denAll(m)
L1 = ForAll([l, m], denAll(app(l, m)) == And(denAll(l), denAll(m)), patterns=[denAll(app(l, m))])
# member predicate & lemma L2: mem(x,l) & denAll(l) => den(x)
mem = RecFunction('mem', Tree, TL, BoolSort())
RecAddDefinition(mem, [t, l], If(TL.is_nil(l), False, Or(TL.hd(l) == t, mem(t, TL.tl(l)))))
L2 = ForAll([t, l], Implies(And(mem(t, l), denAll(l)), den(t)), patterns=[MultiPattern(mem(t, l), denAll(l))])
# prove L2 by induction
h = Const('h', Tree); tl_ = Const('tl_', TL); x = Const('x', Tree)
s = Solver(); s.add(Not(Implies(And(mem(x, TL.nil), denAll(TL.nil)), den(x)))); chk('L2-base', s)
s = Solver(); s.add(Implies(And(mem(x, tl_), denAll(tl_)), den(x)))
s.add(Not(Implies(And(mem(x, TL.cons(h, tl_)), denAll(TL.cons(h, tl_))), den(x)))); chk('L2-step', s)

# VC: pot_optimise on node(id,'*',[c1,c2]); recursive results r1,r2 : Option Tree (isnone flags)
c1, c2, r1, r2 = Consts('c1 c2 r1 r2', Tree); n1, n2 = Bools('n1 n2'); pid = Int('pid')
IH = [Implies(n1, Not(den(c1))), Implies(Not(n1), den(r1) == den(c1)),
      Implies(n2, Not(den(c2))), Implies(Not(n2), den(r2) == den(c2))]
inp = Tree.node(pid, 0, TL.cons(c1, TL.cons(c2, TL.nil)))
# path A: some None -> return None ; goal not den(inp)
s = Solver(); s.add(*IH); s.add(Or(n1, n2)); s.add(den(inp)); chk('optimise/star/none-propagates', s)
# path B: none None; pieces
def piece(r): return If(And(Tree.is_node(r), Tree.op(r) == 0), Tree.args(r), TL.cons(r, TL.nil))
newargs = app(piece(r1), app(piece(r2), TL.nil))
out = Tree.node(pid, 0, newargs)
s = Solver(); s.add(L1); s.add(*IH); s.add(Not(n1), Not(n2)); s.add(den(out) != den(inp)); chk('optimise/star/flatten-den', s)
# path C: pluses & minuses nonempty -> return None; goal not den(inp)
a, b = Consts('a b', Tree)
s = Solver(); s.add(L1, L2); s.add(*IH); s.add(Not(n1), Not(n2))
s.add(mem(a, newargs), mem(b, newargs), Tree.is_surf(a), Tree.is_surf(b), Tree.s(a) > 0, Tree.s(b) == -Tree.s(a))
s.add(den(inp)); chk('optimise/star/contradiction-none', s)
# union case path: op ':' children, None filtered
inpU = Tree.node(pid, 1, TL.cons(c1, TL.cons(c2, TL.nil)))
def pieceU(r, n): return If(n, TL.nil, If(And(Tree.is_node(r), Tree.op(r) == 1), Tree.args(r), TL.cons(r, TL.nil)))
LU = ForAll([l, m], denAny(app(l, m)) == Or(denAny(l), denAny(m)), patterns=[denAny(app(l, m))])
outU = Tree.node(pid, 1, app(pieceU(r1, n1), app(pieceU(r2, n2), TL.nil)))
s = Solver(); s.add(LU); s.add(*IH); s.add(den(outU) != den(inpU)); chk('optimise/union/flatten-den', s)
# canary: wrong claim must be sat
s = Solver(); s.add(L1); s.add(*IH); s.add(Not(n1), Not(n2)); s.add(den(out) != Not(den(inp))); chk('canary (expect sat)', s)
