import time
from z3 import *
# VC sample 1: convert_cone axis z, nappe: claim: for u=(0,0,uz), uz != 0: sign of PLANEZ(z0=-pos/uz) at point == sign of u.(x-p)  [expected to FAIL for uz<0]
px,py,pz,ux,uy,uz,x,y,z = Reals('px py pz ux uy uz x y z')
pos = -(ux*px+uy*py+uz*pz)
s = Solver(); s.set("timeout",20000)
s.add(ux==0, uy==0, uz*uz==1)
z0 = -pos/uz
s.add(Not((z - z0 > 0) == (ux*(x-px)+uy*(y-py)+uz*(z-pz) > 0)))
t=time.time(); print(s.check(), time.time()-t); print(s.model())
# VC sample 2: transformation_quad identity: Q'(X) == Q(R (X - o)), pure polynomial identity
A = Reals('a b c d e f g h j k')
tr = Reals('o1 o2 o3 b1 b2 b3 b4 b5 b6 b7 b8 b9')
def quad(p, pt):
    X,Y,Z = pt
    return p[0]*X*X+p[1]*Y*Y+p[2]*Z*Z+p[3]*X*Y+p[4]*Y*Z+p[5]*Z*X+p[6]*X+p[7]*Y+p[8]*Z+p[9]
def matmul(a,b): return [[sum(a[i][k]*b[k][j] for k in range(len(b))) for j in range(len(b[0]))] for i in range(len(a))]
def T(a): return [list(r) for r in zip(*a)]
p=A
a_mat=[[p[0],p[3]*0.5,p[5]*0.5,p[6]*0.5],[p[3]*0.5,p[1],p[4]*0.5,p[7]*0.5],[p[5]*0.5,p[4]*0.5,p[2],p[8]*0.5],[p[6]*0.5,p[7]*0.5,p[8]*0.5,p[9]]]
r_mat=[[tr[3],tr[4],tr[5],0],[tr[6],tr[7],tr[8],0],[tr[9],tr[10],tr[11],0],[0,0,0,1]]
q_mat=[[1,0,0,-tr[0]],[0,1,0,-tr[1]],[0,0,1,-tr[2]],[0,0,0,1]]
m=matmul(r_mat,q_mat)
at=matmul(T(m),matmul(a_mat,m))
newp=[at[0][0],at[1][1],at[2][2],at[0][1]*2,at[1][2]*2,at[0][2]*2,at[0][3]*2,at[1][3]*2,at[2][3]*2,at[3][3]]
xa = [tr[3]*(x-tr[0])+tr[4]*(y-tr[1])+tr[5]*(z-tr[2]), tr[6]*(x-tr[0])+tr[7]*(y-tr[1])+tr[8]*(z-tr[2]), tr[9]*(x-tr[0])+tr[10]*(y-tr[1])+tr[11]*(z-tr[2])]
s=Solver(); s.set("timeout",20000); s.add(quad(newp,(x,y,z)) != quad(A, xa))
t=time.time(); print(s.check(), time.time()-t)
# VC sample 3: with orthonormality: inverse relation: x = M x' + o  <=> x' = R (x - o), M = R^T, R R^T = I
b=tr[3:]
R=[[b[0],b[1],b[2]],[b[3],b[4],b[5]],[b[6],b[7],b[8]]]
orth=[]
for i in range(3):
    for j2 in range(3):
        orth.append(sum(R[i][k]*R[j2][k] for k in range(3)) == (1 if i==j2 else 0))
xp,yp,zp=Reals('xp yp zp')
M=T(R)
fw=[M[i][0]*xp+M[i][1]*yp+M[i][2]*zp+tr[i] for i in range(3)]
s=Solver(); s.set("timeout",20000); s.add(*orth); s.add(x==fw[0],y==fw[1],z==fw[2])
s.add(Or(xa[0]!=xp, xa[1]!=yp, xa[2]!=zp))
t=time.time(); print(s.check(), time.time()-t)
