import time
from z3 import *
set_param('timeout', 30000)
k, s_, r, n = Ints('k s r n')
sol = Solver(); sol.add(s_ > 0, 0 <= r, r < s_, k >= 0, n == k*s_ + r, Or(n / s_ != k, n % s_ != r))
t=time.time(); print('divmod lemma', sol.check(), round(time.time()-t,3))
# 3-D: n = (k2*s1 + k1)*s0 + k0
k0,k1,k2,s0,s1,s2 = Ints('k0 k1 k2 s0 s1 s2')
sol = Solver(); sol.add(s0>0,s1>0,s2>0, 0<=k0,k0<s0, 0<=k1,k1<s1, 0<=k2,k2<s2, n == (k2*s1+k1)*s0+k0)
sol.add(Or(n % s0 != k0, (n / s0) % s1 != k1, (n / s0) / s1 != k2))
t=time.time(); print('3d', sol.check(), round(time.time()-t,3))
