from conv import conv  # scratch harness, see conv.py
# one-nappe cone kz upper nappe (+1), cell flipped by TRCL mapping z -> -z (rotation about x by 180deg)
deck = """title
1 0 -1 -2 trcl=(0 0 0  1 0 0  0 -1 0  0 0 -1) imp:n=1
2 0 #1 imp:n=0

1 kz 0 1 1
2 so 10

"""
print('--- cone flipped by trcl'); conv(deck)
deck2 = """title
1 0 -1 -2 imp:n=1
2 0 #1 imp:n=0

1 1 kz 0 1 1
2 so 10

tr1 0 0 0  1 0 0  0 -1 0  0 0 -1
"""
print('--- cone flipped by TR on surface'); conv(deck2)
