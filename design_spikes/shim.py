"""scratch: tiny stand-in for the TatSu-compiled geom.ebnf parser (experiments only)"""
import re
from MIP.geom import parsegeom

class _A(dict):
    __getattr__ = dict.get

class P:
    def parse(self, text, semantics=None):
        self.t = text; self.i = 0; self.s = semantics
        r = self.union()
        if self.i != len(self.t):
            raise SyntaxError(f'trailing input at {self.i}: {self.t!r}')
        return r
    def union(self):
        l = self.s.union(_A(o=self.isect()))
        while self.i < len(self.t) and self.t[self.i] == ':':
            self.i += 1
            r = self.isect()
            l = self.s.union(_A(l=l, o=':', r=r))
        return l
    def isect(self):
        l = self.s.isect(_A(o=self.operand()))
        while self.i < len(self.t) and self.t[self.i] == '*':
            self.i += 1
            r = self.operand()
            l = self.s.isect(_A(l=l, o='*', r=r))
        return l
    def operand(self):
        t = self.t
        m = re.compile(r'_\d+').match(t, self.i)
        if m:
            self.i = m.end(); return self.s.operand(_A(o=self.s.cell(m.group())))
        m = re.compile(r'[-+]{0,1}\d+(?:\.\d)?').match(t, self.i)
        if m:
            self.i = m.end(); return self.s.operand(_A(o=self.s.surface(m.group())))
        for lit in ('_(', '(', '^('):
            if t.startswith(lit, self.i):
                self.i += len(lit)
                if lit == '^(':
                    m = re.compile(r'\d+').match(t, self.i)
                    if not m: raise SyntaxError('complcell')
                    self.i = m.end(); o = self.s.complcell(m.group())
                else:
                    o = self.union()
                if not t.startswith(')', self.i): raise SyntaxError(f'expected ) at {self.i} in {t!r}')
                self.i += 1
                return self.s.operand(_A(l=lit, o=o, r=')'))
        raise SyntaxError(f'operand at {self.i} in {t!r}')

def install():
    parsegeom.parser = P()
