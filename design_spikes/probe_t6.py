from conv import conv  # scratch harness, see conv.py
import pathlib
deck = pathlib.Path('/repo/t4_geom_convert/IntegrationTests/data/empty_subcell.imcnp').read_text()
print('--- default'); conv(deck)
print('--- no inline'); conv(deck, ['--max-inline-score','0'])
deck = """title
1 0 -1 imp:n=1
2 0 1 imp:n=0

1 1 sq 1 2 3 0 0 0 -1 1 0 0

tr1 5 0 0
"""
print('--- SQ with TR'); conv(deck)
