from conv import conv  # scratch harness, see conv.py
deck = """title
1 0 1 -2 imp:n=1
2 0 -1:2 imp:n=0

1 PX 0
*2 PX 0

"""
print("--- BC + dedup"); conv(deck)
deck = """title
1 0 1 -3 imp:n=1
2 0 -1:3 imp:n=0

1 PX 0
*2 PX 5
3 PX 7

"""
print("--- BC unused surf"); conv(deck)
deck = """title
1 0 (1 -2):-3 imp:n=1
2 0 #1 imp:n=0

1 PX 0
2 PX 0
3 SO 4
4 PX 1

"""
print("--- empty-with-union + PX 1 dedup"); conv(deck)
print("--- same, skip dedup"); conv(deck, ['--skip-deduplication'])
