"""C16 -- reflecting and white surfaces become boundary conditions on the right surfaces."""
import itertools
from collections import OrderedDict

from MIP.geom import surfaces as MS_
from t4_geom_convert.Kernel.BoundaryCondition.CConversionBoundaryCondition import CConversionBoundaryCondition
from t4_geom_convert.Kernel.Surface.SurfaceMCNP import SurfaceMCNP
from t4_geom_convert.Kernel.Surface.ESurfaceTypeMCNP import ESurfaceTypeMCNP as MST

from t4_geom_convert.Kernel.FileHandlers.Writer import WriteT4BoundCond as WBC
from pyvc.contract import contract


def _dic(flags):
    """dic_surf_mcnp as parseMCNPSurface builds it: key -> list of (SurfaceMCNP, side)."""
    d = OrderedDict()
    for k, (flag, nparts) in enumerate(flags, start=3):
        d[k * 2] = [(SurfaceMCNP(flag, MST.P, ((0., 0., float(i)), (0., 0., 1.)), ()), 1) for i in range(nparts)]
    return d


@contract(CConversionBoundaryCondition.conversionBoundCond, props=['C16'], name='CConversionBoundaryCondition.conversionBoundCond',
          status='B')
class _Conv:
    """One entry per flagged surface and none for unflagged ones; '*' -> REFLECTION, '+' -> COSINUS; a flag on a
    surface made of several sub-surfaces (macrobody) -> NotImplementedError; keys in deck order."""
    scope = 'all dictionaries of 0..3 surfaces with flag in {"", "*", "+"} and 1 or 3 sub-surfaces'

    def bounded(tier):
        opts = [(f, n) for f in ('', '*', '+') for n in (1, 3)]
        for n in range(0, 4):
            for combo in itertools.product(opts, repeat=n):
                yield {'flags': list(combo)}

    def call(flags):
        res = CConversionBoundaryCondition(_dic(flags)).conversionBoundCond()
        return [(k, v.typeOfBound) for k, v in res.items()]

    raises = {NotImplementedError: lambda flags: any(f != '' and n > 1 for f, n in flags)}

    def ensures(result, flags):
        want = [(k * 2, {'*': 'REFLECTION', '+': 'COSINUS'}[f]) for k, (f, n) in enumerate(flags, start=3) if f]
        yield 'exactly-the-flagged-surfaces-with-their-kind', result == want


@contract(MS_.re_name.match, props=['C16'], name='surfaces.re_name', status='B')
class _ReName:
    """The leading * or + of the surface number is the flag, the rest the number."""
    scope = 'names {"", "*", "+"} x numbers {1, 17, 305, 99999}'

    def bounded(tier):
        for flag in ('', '*', '+'):
            for num in ('1', '17', '305', '99999'):
                yield {'name': flag + num, 'flag': flag, 'num': num}

    def call(name, flag, num):
        return MS_.re_name.match(name).groups()

    def ensures(result, name, flag, num):
        yield 'split', result == (flag, num)


@contract(WBC.writeT4BoundCond, props=['C16', 'C08'], name='WriteT4BoundCond.writeT4BoundCond', status='B')
class _WriteBC:
    """The BOUNDARY_CONDITION block: nothing at all without a flagged surface; otherwise the declared count equals the
    number of entries, one `ALL_COMPLETE <kind> <number>` line per flagged surface, in deck order, closed by
    END_BOUNDARY_CONDITION."""
    scope = 'all dictionaries of 0..3 single-facet surfaces with flag in {"", "*", "+"}'

    def bounded(tier):
        for n in range(0, 4):
            for combo in itertools.product(('', '*', '+'), repeat=n):
                yield {'flags': [(f, 1) for f in combo]}

    def call(flags):
        import io
        buf = io.StringIO()
        WBC.writeT4BoundCond(_dic(flags), buf)
        return buf.getvalue()

    def ensures(result, flags):
        want = [(k * 2, {'*': 'REFLECTION', '+': 'COSINUS'}[f]) for k, (f, n) in enumerate(flags, start=3) if f]
        if not want:
            yield 'no-block-without-a-flag', result == ''
            return
        lines = [l for l in result.split('\n') if l.strip()]
        yield 'block-delimiters', lines[0] == 'BOUNDARY_CONDITION' and lines[-1] == 'END_BOUNDARY_CONDITION'
        yield 'declared-count-is-the-number-of-entries', lines[1].strip() == str(len(want)) and len(lines) == len(want) + 3
        yield 'one-entry-per-flagged-surface-in-order', lines[2:-1] == [f'ALL_COMPLETE {kind} {k}' for k, kind in want]


def _sweep_c16(tier, seed):
    from harness.sweeps import deck_sweep
    return deck_sweep('C16', tier, seed, families=('level0',), n_quick=64, n_thorough=600)


BOUNDED = {'C16': [_sweep_c16]}
LEVEL = {'C16': 'other'}
EXPLANATION = {'C16': (
    'Bounded, exhaustive within the stated scope, on the real functions: conversionBoundCond / '
    'recuperateBoundaryCondition (one entry per flagged surface, kind, rejection of flagged multi-facet macrobodies), '
    're_name. Deck sweep: the BOUNDARY_CONDITION block of the written file against the flagged surfaces of the deck '
    '(kind, one entry each, the designated number is a SURF of the same file with the flagged locus). SurfaceT4 '
    'equality (what de-duplication may merge) is proved in C13. No function of this property is under a discharged '
    'unbounded contract: the dictionaries involved are finite maps for which the installed solvers add nothing over '
    'exhaustive enumeration.')}
ASSUMPTIONS = {'C16': [
    'a flag on a single-facet macrobody (SPH, ELL) is accepted by the converter and treated as a flag on that facet',
]}
