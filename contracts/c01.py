"""C01 -- cell regions: Boolean rewriting of the cell trees (also carries parts of C03, C08, C11, C13).

Structural induction: sub-trees are opaque values (specs.boolean.Opaque) that carry the induction hypothesis; a
recursive call of the function under contract on an opaque sub-tree returns what the function's own contract
promises.  The denotation `den` is evaluated under one fixed, universally quantified assignment of senses
(uninterpreted sigma / tau / kappa), so every obligation holds for all assignments and trees of every depth.
"""
import z3
from collections import OrderedDict
from MIP.geom.semantics import Surface, Cell, GeomExpression
from MIP.geom import main as MIPMAIN
from t4_geom_convert.Kernel.Volume import CellConversion as CCmod
from t4_geom_convert.Kernel.Volume.CellConversion import CellConversion
from t4_geom_convert.Kernel.Volume.CellMCNP import CellMCNP, CellRef
from t4_geom_convert.Kernel.Volume import TreeFunctions as TF
from t4_geom_convert.Kernel.Volume import CellInlining as CI
from t4_geom_convert.Kernel.Volume.VolumeT4 import VolumeT4
from t4_geom_convert.Kernel.Volume.CellConversionError import CellConversionError

from pyvc.contract import contract
from pyvc.interp import havoc
from pyvc.sym import And, Or, Not, implies, iff, is_sym, Sym
from specs.boolean import (den, SymSem, Opaque, OpaqueExpr, has_complement, is_binary, mk_surface, lit, t4lit,
                           subtree, random_tree)
from contracts.c11 import _sem


def new_conv(cells=None, surf_t4=None, surf_mcnp=None, vols=None, cell_key=100, surf_key=200):
    """A CellConversion object exactly as construct_volume_t4 builds it (real constructor)."""
    return CellConversion(cell_key, surf_key, vols if vols is not None else {}, surf_t4 if surf_t4 is not None else {},
                          surf_mcnp if surf_mcnp is not None else {}, cells if cells is not None else {})


def mk_cell(geometry, lattice=None, universe=0, fillid=None):
    return CellMCNP('1', '-1.0', geometry, 1.0, universe, fillid, (), lattice, [])


# ------------------------------------------------------------------ pot_complement

def _ih_pot_complement(it, f, args, kw):
    """Induction hypothesis: on an opaque sub-tree the result is complement-free, binary, same denotation."""
    tree = args[1]
    if isinstance(tree, Opaque):
        return OpaqueExpr(den=tree.den, binary=True, has_complement=False)
    return NotImplemented


def _child_kinds(S, sem):
    yield 'surface', lambda n: mk_surface(S.int(n))
    yield 'subtree', lambda n: subtree(S, n, complements=True)
    yield 'cellcomplement', lambda n: GeomExpression(('^', Cell('7')))


@contract(CellConversion.pot_complement, props=['C01', 'C11'], name='CellConversion.pot_complement')
class _PotComplement:
    """#n is replaced by the De Morgan inverse of cell n: the result has no '^' node, is binary, and denotes the same
    Boolean function, where `#n` denotes not kappa(n) and kappa(n) is the denotation of cell n's own geometry
    (so the statement composes through chains of complements; termination = acyclic # references, assumed).
    A complemented *lattice* cell is turned into a patently empty intersection (documented choice of the code)."""
    hooks = {CellConversion.pot_complement: _ih_pot_complement,
             CCmod.extract_surfaces_list: havoc('extract_surfaces_list',
                                                lambda fresh, ast: [mk_surface(fresh('s0', 'int')),
                                                                    mk_surface(fresh('s1', 'int'))],
                                                assume=lambda r, ast: [x.surface != 0 for x in r]),
             }

    def cases(S):
        sem = _sem(S)
        # geometry of cell 7: an arbitrary tree whose denotation is, by definition, kappa(7)
        if S.mode == 'sym':
            g7 = lambda: OpaqueExpr(den=sem.cell(7), binary=True, has_complement=True)
        else:
            _g = random_tree(S.rng, 2, False)
            sem.fix_cell(7, den(_g, sem))
            g7 = lambda: _g
        yield 'leaf', {'tree': mk_surface(S.int('s')), 'lattice': None, 'geom7': g7()}
        yield 'complement-of-cell', {'tree': GeomExpression(('^', Cell('7'))), 'lattice': None, 'geom7': g7()}
        yield 'complement-of-lattice-cell', {'tree': GeomExpression(('^', Cell('7'))), 'lattice': 1, 'geom7': g7()}
        for op in ('*', ':'):
            for ln, lmk in _child_kinds(S, sem):
                for rn, rmk in _child_kinds(S, sem):
                    yield f'{op}:{ln},{rn}', {'tree': GeomExpression((op, lmk('l'), rmk('r'))), 'lattice': None,
                                              'geom7': g7()}

    def ghost(S):
        return {'sem': _sem(S)}

    def call(tree, lattice, geom7):
        conv = new_conv(cells={7: mk_cell(geom7, lattice=lattice)})
        return conv.pot_complement(tree)

    def requires(tree, lattice, geom7, sem):
        return And(*[x.surface != 0 for x in (tree if isinstance(tree, tuple) else [tree]) if isinstance(x, Surface)])

    def ensures(result, tree, lattice, geom7, sem):
        if lattice is not None:
            yield 'lattice-complement-is-empty', iff(den(result, sem), False)
            return
        yield 'complement-free', not has_complement(result)
        yield 'binary', is_binary(result)
        yield 'denotation-preserved', iff(den(result, sem), den(tree, sem))




@contract(CellConversion.pot_complement, props=['C11', 'C01', 'C18'], name='CellConversion.pot_complement[second-conversion]',
          status='B')
class _PotComplementTwice:
    """Nothing of one conversion reaches the next one made in the same process: `#7` is expanded with the geometry that
    cell 7 has in the deck being converted, also when an earlier CellConversion object expanded a cell 7 of its own."""
    scope = '6 geometries of cell 7 x 6 geometries of the second cell 7 x 3 trees, every sign assignment of 3 surfaces'

    def bounded(tier):
        import itertools as _it
        geoms = ['s1', 's-1', 's2', ('*', 1, 2), (':', -1, 3), ('*', -2, (':', 1, 3))]
        trees = [('^',), ('*', ('^',), 3), (':', -3, ('^',))]
        for g1, g2 in _it.product(range(len(geoms)), repeat=2):
            for t in range(len(trees)):
                yield {'g1': g1, 'g2': g2, 't': t}

    def call(g1, g2, t):
        geoms = ['s1', 's-1', 's2', ('*', 1, 2), (':', -1, 3), ('*', -2, (':', 1, 3))]
        trees = [('^',), ('*', ('^',), 3), (':', -3, ('^',))]

        def build(x):
            if isinstance(x, str):
                return mk_surface(int(x[1:]))
            if isinstance(x, int):
                return mk_surface(x)
            if x == ('^',):
                return GeomExpression(('^', Cell('7')))
            return GeomExpression((x[0],) + tuple(build(y) for y in x[1:]))
        out = []
        for g in (g1, g2):
            conv = new_conv(cells={7: mk_cell(build(geoms[g]))})
            out.append((conv.pot_complement(build(trees[t])), build(geoms[g]), build(trees[t])))
        return out

    def ensures(result, g1, g2, t):
        import itertools as _it
        from specs.boolean import DictSem
        for k, (res, geom7, tree) in enumerate(result):
            ok = True
            for signs in _it.product((False, True), repeat=3):
                surf = {(i + 1, 0): signs[i] for i in range(3)}
                sem0 = DictSem(surfaces=surf)
                sem = DictSem(surfaces=surf, cells={7: den(geom7, sem0)})
                ok = ok and (den(res, sem) == den(tree, sem))
            yield f'conversion{k + 1}:denotation-preserved', ok and not has_complement(res)


# ------------------------------------------------------------------ inline_cells_worker (C13: every `to_inline` set)

class OpaqueNode(Opaque):
    """Opaque operator node of the converter layer (not a leaf for isLeaf / isSurface / isCellRef): asked whether it
    is a tuple / list / GeomExpression the answer is yes, asked for only one of them the code leaves the subset."""
    node_kind = ('tuple', 'list', 'GeomExpression')


def _node(S, name):
    if S.mode == 'sym':
        return OpaqueNode(den=S.bool('den_' + name))
    t = random_tree(S.rng, 2, False)
    while not isinstance(t, tuple):
        t = random_tree(S.rng, 2, False)
    return _plain(t)


def _plain(t):
    """GeomExpression -> nested lists with CellRef leaves sprinkled in (concrete mode)."""
    if isinstance(t, tuple):
        return [t[0]] + [_plain(x) for x in t[1:]]
    return t


def _ih_inline(it, f, args, kw):
    if isinstance(args[0], Opaque):
        return OpaqueNode(den=args[0].den)
    return NotImplemented


def _inline_children(S):
    yield 'surface', lambda n: mk_surface(S.int(n))
    yield 'cellref7', lambda n: CellRef(7)
    yield 'cellref8', lambda n: CellRef(8)
    yield 'subtree', lambda n: _node(S, n)


@contract(CI.inline_cells_worker, props=['C13', 'C01', 'C05'], name='CellInlining.inline_cells_worker')
class _Inline:
    """For EVERY set `to_inline` (case split on the membership of the referenced cells), replacing a CellRef by the
    geometry of the cell it names preserves the denotation, where a CellRef denotes kappa(c) and kappa(c) is by
    definition the denotation of cell c's geometry.  Hence no inline score can change the geometry."""
    hooks = {CI.inline_cells_worker: _ih_inline}

    def cases(S):
        sem = _sem(S)

        def geom(c):
            if S.mode == 'sym':
                return OpaqueNode(den=sem.cell(c))
            g = _plain(random_tree(S.rng, 2, False))
            sem.fix_cell(c, den(g, sem))
            return g
        for to_inline in (set(), {7}, {8}, {7, 8}):
            dic = lambda: {7: mk_cell(geom(7)), 8: mk_cell(geom(8))}
            tag = 'inline' + ''.join(str(c) for c in sorted(to_inline)) if to_inline else 'inline-none'
            yield f'leaf-cellref/{tag}', {'geometry': CellRef(7), 'dic': dic(), 'to_inline': to_inline}
            yield f'leaf-surface/{tag}', {'geometry': mk_surface(S.int('s')), 'dic': dic(), 'to_inline': to_inline}
            for op in ('*', ':'):
                for ln, lmk in _inline_children(S):
                    for rn, rmk in _inline_children(S):
                        yield f'{op}:{ln},{rn}/{tag}', {'geometry': [op, lmk('l'), rmk('r')], 'dic': dic(),
                                                        'to_inline': to_inline}

    def ghost(S):
        return {'sem': _sem(S)}

    def requires(geometry, dic, to_inline, sem):
        xs = geometry[1:] if isinstance(geometry, list) else [geometry]
        return And(*[x.surface != 0 for x in xs if isinstance(x, Surface)])

    def ensures(result, geometry, dic, to_inline, sem):
        yield 'denotation-preserved', iff(den(result, sem), den(geometry, sem))
        if isinstance(geometry, list):
            yield 'operator-kept', result[0] == geometry[0] and len(result) == len(geometry)
            yield 'uninlined-references-kept', all(
                (r is g) for r, g in zip(result[1:], geometry[1:])
                if isinstance(g, CellRef) and g.cell not in to_inline)


# ------------------------------------------------------------------ pot_flag

class OpaqueFlagged(Opaque):
    pass


def _ih_flag(it, f, args, kw):
    conv, tree = args[0], args[1]
    if isinstance(tree, Opaque):
        k = Sym(z3.Int(f'flagged!{tree.name}'))
        it.p.extra.append((k >= 1).t)
        conv.new_cell_key = conv.new_cell_key + k
        return OpaqueFlagged(den=tree.den, top_id=conv.new_cell_key)
    return NotImplemented


@contract(CellConversion.pot_flag, props=['C01'], name='CellConversion.pot_flag')
class _PotFlag:
    """Numbering of the operator nodes: same operators, same operands (denotation preserved), every node gets a
    fresh id larger than the ids of its descendants and larger than the counter on entry."""
    hooks = {CellConversion.pot_flag: _ih_flag}

    def cases(S):
        yield 'leaf-surface', {'p_tree': mk_surface(S.int('s')), 'key0': S.int('k0')}
        yield 'leaf-cellref', {'p_tree': CellRef(7), 'key0': S.int('k0')}
        for op in ('*', ':'):
            for ln, lmk in _inline_children(S):
                for rn, rmk in _inline_children(S):
                    if 'cellref8' in (ln, rn):
                        continue
                    yield f'{op}:{ln},{rn}', {'p_tree': [op, lmk('l'), rmk('r')], 'key0': S.int('k0')}

    def ghost(S):
        return {'sem': _sem(S)}

    def call(p_tree, key0):
        conv = new_conv(cell_key=key0)
        res = conv.pot_flag(p_tree)
        return res, conv.new_cell_key

    def requires(p_tree, key0, sem):
        xs = p_tree[1:] if isinstance(p_tree, list) else [p_tree]
        return And(*[x.surface != 0 for x in xs if isinstance(x, Surface)])

    def ensures(result, p_tree, key0, sem):
        res, key1 = result
        yield 'denotation-preserved', iff(den(_unflag(res), sem), den(p_tree, sem))
        if not isinstance(p_tree, list):
            yield 'leaf-unchanged', res is p_tree and key1 is key0
            return
        yield 'shape', res[1] == p_tree[0] and len(res) == len(p_tree) + 1
        yield 'fresh-id', And(res[0] > key0, res[0] == key1)
        yield 'id-above-children', And(*[res[0] > c.facts['top_id'] for c in res[2:] if isinstance(c, Opaque)])


def _unflag(t):
    return t


# ------------------------------------------------------------------ pot_expand_surfs

def _ih_expand(it, f, args, kw):
    tree = args[1]
    if isinstance(tree, Opaque):
        return OpaqueFlagged(den=tree.facts['t4den'])
    return NotImplemented


class MatchSem:
    """MCNP-side assignment *defined from* the matching table (DESIGN C01): surface s with signed T4 list
    [t1..tn] is positive iff some t_i holds (T4 side), negative iff all -t_i hold; facet k is positive iff t_k."""
    def __init__(self, matching, tsem):
        self.m, self.t = matching, tsem

    def surface(self, sid, sub):
        ids = self.m[sid]
        if sub is None or sub == 0:
            return Or(*[t4lit(self.t, t) for t in ids])
        return t4lit(self.t, ids[sub - 1])

    def cell(self, n):
        return self.t.cell(n)

    def t4(self, i):
        return self.t.t4(i)


@contract(CellConversion.pot_expand_surfs, props=['C01', 'C03', 'C02'], name='CellConversion.pot_expand_surfs')
class _PotExpand:
    """-b -> intersection of the negated sub-surfaces, +b -> union, b.k -> k-th entry with its sign; facet index
    beyond the list -> CellConversionError.  The T4-side denotation of the result equals the MCNP-side denotation of
    the tree when "surface s positive" is read through matching[s] (MatchSem)."""
    hooks = {CellConversion.pot_expand_surfs: _ih_expand}

    def cases(S):
        for n in (1, 2, 3):
            ids = S.ints([f't{i}' for i in range(n)])
            for sign in (1, -1):
                yield f'leaf{sign:+d}/{n}ids', {'p_tree': Surface(5 * sign), 'matching': {5: list(ids)}}
                for sub in range(1, n + 2):
                    yield f'leaf{sign:+d}.{sub}/{n}ids', {'p_tree': Surface(5 * sign, sub), 'matching': {5: list(ids)}}
        yield 'cellref', {'p_tree': CellRef(7), 'matching': {5: S.ints('t0')}}
        for op in ('*', ':'):
            for kind in ('surface', 'subtree'):
                m = {5: S.ints('t0 t1')}
                left = Surface(-5) if kind == 'surface' else _t4node(S, 'l')
                yield f'node{op}:{kind},subtree', {'p_tree': [S.int('id'), op, left, _t4node(S, 'r')], 'matching': m}

    def ghost(S):
        return {'sem': _sem(S)}

    def call(p_tree, matching):
        conv = new_conv()
        k0 = conv.new_cell_key
        return conv.pot_expand_surfs(p_tree, matching), k0, conv.new_cell_key

    def requires(p_tree, matching, sem):
        return And(*[t != 0 for t in matching[5]])

    raises = {CellConversionError: lambda p_tree, matching, sem: (
        isinstance(p_tree, Surface) and p_tree.sub is not None and p_tree.sub > len(matching[5]))}

    def ensures(result, p_tree, matching, sem):
        res, k0, k1 = result
        msem = MatchSem(matching, sem)
        if isinstance(p_tree, list):
            want = (And if p_tree[1] == '*' else Or)(*[_mden(c, msem, sem) for c in p_tree[2:]])
            yield 'node-shape', res[0] is p_tree[0] and res[1] == p_tree[1] and len(res) == len(p_tree)
            yield 'denotation-through-matching', iff(den(res, sem), want)
            return
        yield 'denotation-through-matching', iff(den(res, sem), den(p_tree, msem))
        if isinstance(res, (list, tuple)):
            yield 'new-node-gets-a-fresh-id', res[0] == k1 and k1 == k0 + 1


def _t4node(S, name):
    """A flagged sub-tree (still in MCNP numbering) whose T4-side denotation after expansion is the IH."""
    if S.mode == 'sym':
        d = S.bool('den_' + name)
        return OpaqueFlagged(den=d, t4den=d)
    return [9, '*', Surface(5), Surface(-5, 1)]


def _mden(c, msem, sem):
    if isinstance(c, Opaque):
        return c.den
    return den(c, msem)


# ------------------------------------------------------------------ conv_equa / largestPureIntersectionNode (bounded width)

MAXW = 4      # proved for every list of up to MAXW entries (unbounded depth is irrelevant here: flat lists)


@contract(CellConversion.conv_equa, props=['C01', 'C08'], name='CellConversion.conv_equa', status='P')
class _ConvEqua:
    """EQUA part: the conjunction of the literals equals (AND plus) and (AND not minus); no id is listed twice on
    a side; every listed id comes from the list.  Proved for all lists of length <= 4 of arbitrary non-zero ids
    (width-bounded, labelled as such in the evidence)."""
    def cases(S):
        for n in range(0, MAXW + 1):
            yield f'{n}literals', {'list_surface': S.ints([f'e{i}' for i in range(n)])}

    def ghost(S):
        return {'sem': _sem(S)}

    def requires(list_surface, sem):
        return And(*[e != 0 for e in list_surface])

    def ensures(result, list_surface, sem):
        plus, minus = result
        want = And(*[t4lit(sem, e) for e in list_surface]) if list_surface else True
        got = And(*([sem.t4(p) for p in plus] + [Not(sem.t4(m)) for m in minus])) if (plus or minus) else True
        yield 'same-conjunction', iff(got, want)
        yield 'ids-positive', And(*[p > 0 for p in plus] + [m > 0 for m in minus])
        yield 'no-duplicates', And(*[a != b for L in (plus, minus) for i, a in enumerate(L) for b in L[i + 1:]])


def _lp_nodes(S):
    """Node kinds seen by largestPureIntersectionNode."""
    return {
        'S': lambda n: S.int(n),
        'I2': lambda n: [S.int(n + 'id'), '*', S.int(n + 'a'), S.int(n + 'b')],
        'I3': lambda n: [S.int(n + 'id'), '*', S.int(n + 'a'), S.int(n + 'b'), S.int(n + 'c')],
        'U2': lambda n: [S.int(n + 'id'), ':', S.int(n + 'a'), S.int(n + 'b')],
        'Ic': lambda n: [S.int(n + 'id'), '*', CellRef(4), S.int(n + 'b'), S.int(n + 'c')],
        # an intersection that holds a nested union (or a nested intersection) is NOT pure: its operator part would be lost
        'Iu': lambda n: [S.int(n + 'id'), '*', S.int(n + 'a'), S.int(n + 'b'), [S.int(n + 'uid'), ':', S.int(n + 'c'), S.int(n + 'd')]],
        'Ii': lambda n: [S.int(n + 'id'), '*', S.int(n + 'a'), [S.int(n + 'iid'), '*', S.int(n + 'c'), S.int(n + 'd')]],
        'C': lambda n: CellRef(3),
    }


def _pure_len(node):
    """Spec: size key of a pure-intersection candidate (None if the node is not a candidate)."""
    if isinstance(node, CellRef):
        return None
    if not isinstance(node, list):
        return 1
    if node[1] != '*' or not all(TF.isSurface(x) or is_sym(x) for x in node[2:]):
        return None
    return len(node)


@contract(TF.largestPureIntersectionNode, props=['C01', 'C08', 'C11'], name='TreeFunctions.largestPureIntersectionNode')
class _Largest:
    """Returns None iff no operand is a surface or an intersection of surfaces only; otherwise the index of such an
    operand of maximal size (first one among equals).  Exhaustive over the operand kinds for up to 3 operands."""
    def cases(S):
        import itertools
        kinds = _lp_nodes(S)
        for n in (1, 2, 3):
            for combo in itertools.product(kinds, repeat=n):
                yield '+'.join(combo), {'nodes': [kinds[k](f'n{i}') for i, k in enumerate(combo)]}

    def ensures(result, nodes):
        lens = [_pure_len(x) for x in nodes]
        cands = [i for i, l in enumerate(lens) if l is not None]
        if not cands:
            yield 'none-when-no-candidate', result is None
            return
        best = max(lens[i] for i in cands)
        yield 'index-of-a-largest-candidate', result == min(i for i in cands if lens[i] == best)


# ------------------------------------------------------------------ VolumeT4



# ------------------------------------------------------------------ bounded stand-ins (deck level)

def _sweep_c01(tier, seed):
    from harness.sweeps import deck_sweep
    return deck_sweep('C01', tier, seed)


BOUNDED = {'C01': [_sweep_c01]}
LEVEL = {'C01': 'other', 'C13': 'other'}
EXPLANATION = {'C01': (
    'Contract-based deductive verification of the Boolean rewriting of cell trees, by structural induction with '
    'opaque sub-trees (depth unbounded): GeomExpression.inverse / Surface.inverse, pot_complement, pot_flag, '
    'pot_expand_surfs (-b, +b, b.k through the matching table), inline_cells_worker (every to_inline set), '
    'conv_equa (lists of up to 4 literals: width-bounded), largestPureIntersectionNode (up to 3 operands of every '
    'kind: width-bounded). Not proved: pot_optimise, pot_to_t4_cell / convert_surface / convert_cellref (heap '
    'builders), remove_empty_volumes, remove_unused_volumes, construct_volume_t4 -- these are covered only by the '
    'bounded deck sweep (real conversion of generated decks whose cells partition space by construction, written file '
    'read back by an independent reader and compared with the deck oracle at probe points).')}
ASSUMPTIONS = {'C01': [
    'trees are binary until pot_flag (shape produced by the parser and preserved by pot_transform, pot_complement, '
    'pot_fill: each is an obligation of the respective contract)',
    'complement of a lattice cell is converted to the empty set (documented choice in pot_complement)',
    'termination of pot_complement (acyclic # references) is assumed',
    'deck sweep: the TatSu parser is replaced by harness/shim.py (same grammar, real GeomSemantics)',
]}


# ------------------------------------------------------------------ union helper planes (construct_volume_t4 + conv_union_helpers)

from t4_geom_convert.Kernel.Volume import ConstructVolumeT4 as CV
from specs.surfaces import t4_view

TINY_DECKS = {
    'one-cell': 'tiny\n1 0 -1 IMP:N=1\n2 0 1 IMP:N=1\n\n1 SO 1.0\n\nmode n\n',
    'union-of-complements': ('tiny\n10 0 -1 IMP:N=1\n20 0 1 -2 IMP:N=1\n30 0 (2 #10) : (-7 #20) IMP:N=1\n\n'
                             '1 SO 1.0\n2 SO 2.0\n7 PX 0.5\n\nmode n\n'),
}


def _construct(deck_text):
    """Run the real surface construction and construct_volume_t4 on a tiny deck (concrete execution)."""
    import os
    import tempfile
    from MIP import mip
    from harness import shim
    from t4_geom_convert.Kernel.Surface.ConstructSurfaceT4 import construct_surface_t4
    import contextlib
    import io
    shim.install()
    fd, path = tempfile.mkstemp(suffix='.imcnp', dir=os.environ.get('TMPDIR'))
    with os.fdopen(fd, 'w') as f:
        f.write(deck_text)
    try:
        with contextlib.redirect_stdout(io.StringIO()):
            parser = mip.MIP(path, encoding='utf-8')
            dic_t4, dic_mcnp = construct_surface_t4(parser)
            return CV.construct_volume_t4(parser, {}, None, dic_t4, dic_mcnp, False, False, 1.0)
    finally:
        os.unlink(path)


@contract(CV.construct_volume_t4, props=['C01'], name='ConstructVolumeT4.union_helper_planes')
class _UnionHelpers:
    """A pure union is written as  EQUA PLUS u0 MINUS u1 UNION ...  (conv_union_helpers); the EQUA part must denote
    the empty set: for the helper surfaces actually entered in the surface numbering returned by
    construct_volume_t4, no point has f_u0 > 0 and f_u1 < 0.  (The planes are constants of the code; the deck only
    determines their numbers, so two tiny decks are run concretely and the emptiness is proved for all points.)"""
    def cases(S):
        for name, text in TINY_DECKS.items():
            yield name, {'deck_text': text}

    def ghost(S):
        return {'pt': S.reals('X Y Z')}

    def call(deck_text):
        return _construct(deck_text)

    def ensures(result, deck_text, pt):
        dic_vol, mcnp_dict, numbering, skipped, union_ids = result
        yield 'helper-surfaces-are-numbered', all(u in numbering for u in union_ids)
        yield 'helper-ids-distinct-and-fresh', union_ids[0] != union_ids[1]
        plus, minus, ops = CellConversion.conv_union_helpers(5, 6, union_ids=union_ids)
        lits = [t4_view(numbering[p], pt) > 0 for p in plus] + [t4_view(numbering[m], pt) < 0 for m in minus]
        yield 'equa-part-of-a-pure-union-is-empty', Not(And(*lits))
        yield 'operator-is-union-of-all-operands', ops == ('UNION', (5, 6))


# ------------------------------------------------------------------ construct_volume_t4: the order and the filters of the phases

class _StubCollection:
    """dic_surface_t4 stand-in: number_items() by contract (an id -> surface numbering and a matching)."""
    def __init__(self):
        self.numbering = {5: 'T4 surface 5', 9: 'T4 surface 9'}
        self.matching = {'matching': True}

    def number_items(self):
        return self.numbering, self.matching

    def __iter__(self):
        return iter(self.numbering)


_PHASE_STATE = {}


def _phase_hooks():
    def rec(it, name, args, result=None):
        it.p.calls.append({'callee': name, 'args': list(args), 'kw': {}, 'result': result})

    def parse_cells(it, f, args, kw):
        class _P:
            def parse(self_inner):
                return _PHASE_STATE['cells'], _PHASE_STATE['skipped']
        return _P()

    def apply_trcl(it, f, args, kw):
        conv, trcl, geom = args[0], args[1], args[2]
        # by contract (apply_trcl: pot_transform for each TRCL in order; nothing for an empty list)
        res = OpaqueNode(stage='trcl', of=geom, by=tuple(map(tuple, trcl))) if trcl else geom
        rec(it, 'apply_trcl', [trcl, geom], res)
        return res

    def pot_complement(it, f, args, kw):
        res = OpaqueNode(stage='complement', of=args[1])
        rec(it, 'pot_complement', [args[1]], res)
        return res

    def develop_lattice(it, f, args, kw):
        conv, key = args[0], args[1]
        cell = conv.dic_cell_mcnp[key]
        rec(it, 'develop_lattice', [key, cell.geometry])
        # by contract: the lattice cell is replaced by element cells (here one, filled with universe 3)
        conv.new_cell_key += 1
        conv.dic_cell_mcnp[conv.new_cell_key] = CellMCNP(cell.materialID, cell.density, OpaqueNode(stage='element', of=cell.geometry),
                                                         cell.importance, cell.universe, 3, (), None, [], [])
        del conv.dic_cell_mcnp[key]

    def pot_fill(it, f, args, kw):
        conv, key = args[0], args[1]
        rec(it, 'pot_fill', [key, args[2], args[3] if len(args) > 3 else kw.get('inline_filled'),
                             args[4] if len(args) > 4 else kw.get('inline_filling'), dict(conv.dic_cell_mcnp)])
        cell = conv.dic_cell_mcnp[key]
        conv.new_cell_key += 1
        conv.dic_cell_mcnp[conv.new_cell_key] = CellMCNP('7', '-7.0', OpaqueNode(stage='filled', of=cell.geometry),
                                                         cell.importance, 0, None, (), None, [], [(31, key)])
        return [conv.new_cell_key]

    def inline_cells(it, f, args, kw):
        rec(it, 'inline_cells', [dict(args[0]), args[1]])

    def pot_convert(it, f, args, kw):
        conv, cell, matching, union_ids = args[0], args[1], args[2], args[3]
        if cell.geometry.facts.get('patently_empty'):
            rec(it, 'pot_convert', [cell, matching, union_ids], None)
            return None
        conv.new_cell_key += 1
        j = conv.new_cell_key
        conv.dic_vol_t4[j] = VolumeT4(pluses=[j], minuses=[], idorigin=list(cell.idorigin), fictive=True)
        rec(it, 'pot_convert', [cell, matching, union_ids], j)
        return j
    def no_implicit(it, f, args, kw):
        return set()                  # by contract (c04: extract_tr_surf_ids): these cells reference no implicit surface
    no_implicit.callee_name = 'extract_tr_surf_ids'
    hooks = {CV.extract_tr_surf_ids: no_implicit, CV.ParseMCNPCell: parse_cells, CellConversion.apply_trcl: apply_trcl, CellConversion.pot_complement: pot_complement,
             CellConversion.develop_lattice: develop_lattice, CellConversion.pot_fill: pot_fill, CV.inline_cells: inline_cells,
             CellConversion.pot_convert: pot_convert}
    for h, n in ((parse_cells, 'ParseMCNPCell'), (apply_trcl, 'apply_trcl'), (pot_complement, 'pot_complement'),
                 (develop_lattice, 'develop_lattice'), (pot_fill, 'pot_fill'), (inline_cells, 'inline_cells'),
                 (pot_convert, 'pot_convert')):
        h.callee_name = n
    return hooks


@contract(CV.construct_volume_t4, props=['C01', 'C05', 'C12', 'C04', 'C06', 'C08'], name='ConstructVolumeT4.construct_volume_t4[phases]')
class _Phases:
    """The orchestration of the volume conversion, every phase replaced by its contract: every TRCL is applied
    first, to the geometry of the cell that carries it; then complements are eliminated in every cell, on
    the geometry the TRCL phase left; then every lattice cell is developed; then every level-0 cell with a FILL is
    developed (all four inlining flags handed on), on the dictionary the lattice phase left; then inlining; then exactly the
    level-0, unfilled cells of non-zero importance are converted -- in particular the pieces pot_fill made of a filled
    cell, with that cell's importance -- and each gets a non-virtual volume under its own number that is a copy of the
    volume pot_convert built (none for a patently empty cell); the two helper planes get fresh numbers."""
    native = False
    hooks = _phase_hooks()

    def cases(S):
        yield 'mixed-deck', {'inline': (False, True)}
        yield 'mixed-deck,other-flags', {'inline': (True, False)}

    def call(inline):
        T = (1.0, 0.0, 0.0, 1.0, 0.0, 0.0, 0.0, 1.0, 0.0, 0.0, 0.0, 1.0)
        g = {k: OpaqueNode(tag=f'g{k}', patently_empty=(k == 6)) for k in (1, 2, 3, 4, 5, 6, 20, 30, 99, 8)}
        T2 = (0.0, 2.0, 0.0, 0.0, 1.0, 0.0, -1.0, 0.0, 0.0, 0.0, 0.0, 1.0)
        cells = {
            1: CellMCNP('1', '-1.0', g[1], 1.0, 0, None, (), None, [], []),                  # plain
            2: CellMCNP('1', '-1.0', g[2], 1.0, 0, None, (), None, [T], []),                 # with TRCL
            3: CellMCNP('0', None, g[3], 1.0, 0, 2, (), None, [], []),                       # filled, importance 1
            4: CellMCNP('0', None, g[4], 0.0, 0, 2, (), None, [], []),                       # filled, importance 0
            5: CellMCNP('1', '-1.0', g[5], 0.0, 0, None, (), None, [], []),                  # importance 0
            6: CellMCNP('1', '-1.0', g[6], 1.0, 0, None, (), None, [], []),                  # patently empty
            20: CellMCNP('2', '-2.0', g[20], 1.0, 2, None, (), None, [], []),                # in universe 2
            30: CellMCNP('3', '-3.0', g[30], 1.0, 2, LatticeSpecStub(), (), 1, [], []),      # lattice cell in universe 2
            99: CellMCNP('0', None, g[99], 0.0, 0, None, (), None, [], []),                  # outside world, highest number
            8: CellMCNP('0', None, g[8], 1.0, 0, 2, T2, None, [T], []),                      # TRCL and FILL with a transformation
        }
        _PHASE_STATE['cells'] = cells
        _PHASE_STATE['skipped'] = [4, 5, 99]
        coll = _StubCollection()
        res = CV.construct_volume_t4(None, {}, None, coll, CollectionDictStub(), inline[0], inline[1], 1.0)
        return res, g, coll

    def ensures(result, inline, calls):
        (dic_vol, mcnp_dict, numbering, skipped, union_ids), g, coll = result
        c = calls.calls
        names = [x['callee'] for x in c]
        first = {n: names.index(n) for n in set(names)}
        last = {n: len(names) - 1 - names[::-1].index(n) for n in set(names)}
        yield 'phases-in-order', (last.get('apply_trcl', -1) < first['pot_complement'] and
                                  last['pot_complement'] < first['develop_lattice'] and
                                  last['develop_lattice'] < first['pot_fill'] and last['pot_fill'] < first['inline_cells']
                                  and last['inline_cells'] < first['pot_convert'])
        trcl = [x for x in c if x['callee'] == 'apply_trcl']
        # (cell 8 has a TRCL *and* a FILL with its own transformation: the latter only replaces the TRCL for what
        # fills the cell -- pot_fill -- the cell's own surfaces are still moved by the TRCL)
        yield 'every-trcl-applied-to-the-geometry-of-its-own-cell', (
            all(any(x['args'][1] is g[k] and len(x['args'][0]) == 1 for x in trcl) for k in (2, 8)) and
            all((len(x['args'][0]) == 1) == (x['args'][1] is g[2] or x['args'][1] is g[8]) for x in trcl) and
            sum(1 for x in trcl if x['args'][0]) == 2)
        compl = [x['args'][0] for x in c if x['callee'] == 'pot_complement']
        yield 'complements-eliminated-in-every-cell', len(compl) == 10 and all(
            any((a is g[k]) or (isinstance(a, Opaque) and a.facts.get('of') is g[k]) for a in compl) for k in g)
        yield 'complements-see-the-moved-geometry', any(isinstance(a, Opaque) and a.facts.get('stage') == 'trcl' and
                                                        a.facts.get('of') is g[2] for a in compl)
        lat = [x['args'][0] for x in c if x['callee'] == 'develop_lattice']
        yield 'every-lattice-cell-developed', lat == [30]
        fills = [x for x in c if x['callee'] == 'pot_fill']
        # (developing the zero-importance filled cell 4 as well is allowed: its pieces are never converted, see below)
        yield 'live-level-0-filled-cells-developed', (3 in [x['args'][0] for x in fills] and
                                                      8 in [x['args'][0] for x in fills] and
                                                      set(x['args'][0] for x in fills) <= {3, 4, 8})
        yield 'fill-sees-the-developed-lattice', all(30 not in x['args'][4] and any(
            isinstance(v.geometry, Opaque) and v.geometry.facts.get('stage') == 'element' for v in x['args'][4].values())
            for x in fills)
        yield 'inlining-flags-handed-on', all((x['args'][2], x['args'][3]) == tuple(inline) for x in fills)
        conv = [x for x in c if x['callee'] == 'pot_convert']
        conv_cells = [x['args'][0] for x in conv]
        # expected: cells 1, 2, 6 and the piece made of cell 3 (importance 1); not 4, 5, their pieces, universe cells
        def origin(cell):
            geo = cell.geometry
            while isinstance(geo, Opaque) and 'of' in geo.facts:
                geo = geo.facts['of']
            return geo
        origins = [origin(x) for x in conv_cells]
        yield 'exactly-the-live-level-0-unfilled-cells-converted', (
            len(conv_cells) == 5 and all(any(o is g[k] for o in origins) for k in (1, 2, 6, 3, 8)) and
            all(x.importance != 0 and x.universe == 0 and x.fillid is None for x in conv_cells))
        yield 'same-matching-and-helper-planes-for-every-cell', all(x['args'][1] is coll.matching and x['args'][2] == union_ids
                                                                      for x in conv)
        keys = [k for k in mcnp_dict if any(mcnp_dict[k] is x for x in conv_cells)]
        made = {k: next(x['result'] for x in conv if x['args'][0] is mcnp_dict[k]) for k in keys}
        yield 'one-real-volume-per-converted-cell', all(
            (made[k] is None and k not in dic_vol) or
            (made[k] is not None and k in dic_vol and dic_vol[k].fictive is False and dic_vol[k].pluses == dic_vol[made[k]].pluses)
            for k in keys)
        yield 'no-volume-for-anything-else', all(k in keys or k in made.values() for k in dic_vol)
        yield 'helper-planes-fresh-and-numbered', (union_ids[0] != union_ids[1] and all(u not in (5, 9) and u in numbering
                                                                                        for u in union_ids))
        yield 'skipped-cells-reported', list(skipped) == [4, 5, 99]
        # numbers generated for pieces and auxiliary volumes never collide with a cell number of the deck, converted or
        # not (writeT4Geometry leaves out every volume that carries the number of a zero-importance cell)
        original = {1, 2, 3, 4, 5, 6, 8, 20, 30, 99}
        generated = (set(mcnp_dict) | set(dic_vol)) - original
        yield 'generated-numbers-exceed-every-cell-number', bool(generated) and min(generated) > 99


class LatticeSpecStub:
    """fillid of the lattice cell before development (never inspected by the orchestrator itself)."""


class CollectionDictStub(dict):
    """dic_surface_mcnp: only its keys are read by the orchestrator (free surface key, implicit surfaces)."""
    def __init__(self):
        super().__init__({5: [], 9: []})


# ------------------------------------------------------------------ pot_to_t4_cell (depth unbounded, width bounded)

import itertools
import os


class VolSem:
    """Denotation of the volume dictionary: vol_den(k) = EQUA part, combined with the operator's operands
    (INTE: intersection with every operand, UNION: union with every operand).  Volumes created by hooked recursive
    calls / convert_cellref carry their denotation as a symbolic Boolean (the induction hypothesis)."""
    def __init__(self, sem):
        self.sem = sem
        self.given = {}

    def den(self, dic, k):
        if k in self.given:
            return self.given[k]
        v = dic[k]
        equa = And(*([self.sem.t4(p) for p in sorted(v.pluses, key=repr)] +
                     [Not(self.sem.t4(m)) for m in sorted(v.minuses, key=repr)])) if (v.pluses or v.minuses) else True
        if v.ops is None:
            return equa
        args = [self.den(dic, a) for a in v.ops[1]]
        if v.ops[0] == 'INTE':
            return And(equa, *args)
        return Or(equa, *args)


def _t4_children(S):
    """Kinds of operand of a flagged, expanded, optimised node."""
    return {
        'surf': lambda n: S.int(n),
        'cellref': lambda n: CellRef(40 + int(n[1:])),
        'empty-cellref': lambda n: CellRef(60),
        'node': lambda n: OpaqueFlagged(den=S.bool('den_' + n), tag=n),
        'pure2': lambda n: [2000 + int(n[1:]), '*', S.int(n + 'a'), S.int(n + 'b')],
    }


@contract(CellConversion.pot_to_t4_cell, props=['C01', 'C08', 'C13', 'C05'], name='CellConversion.pot_to_t4_cell')
class _PotToT4:
    """The volume returned for a tree denotes the tree: vol_den(dic, result) == den(tree), where sub-nodes are opaque
    (the recursive call returns a fresh volume that denotes the sub-node: induction hypothesis) and a CellRef is
    converted by convert_cellref (hooked: a volume that denotes kappa(cell), or None for an empty cell).  Result None
    means the tree denotes the empty set.  Every id stored is the node's own id; ids referenced by the operator are
    volumes of the dictionary.  Proved for every node with up to 3 operands of every kind (width-bounded, any depth)."""
    native = False

    def cases(S):
        kinds = _t4_children(S)
        for op in ('*', ':'):
            for n in (1, 2, 3):
                for combo in itertools.product(kinds, repeat=n):
                    if combo.count('pure2') > 1 or combo.count('empty-cellref') > 1:
                        continue
                    yield f'{op}:' + '+'.join(combo), {'p_tree': [1001, op] + [kinds[k](f'c{i}') for i, k in
                                                                             enumerate(combo)]}
        yield 'leaf-surface', {'p_tree': S.int('s')}
        yield 'leaf-cellref', {'p_tree': CellRef(41)}

    def ghost(S):
        return {'sem': _sem(S)}

    def requires(p_tree, sem):
        lits = [x for x in (p_tree[2:] if isinstance(p_tree, list) else [p_tree]) if is_sym(x)]
        for x in (p_tree[2:] if isinstance(p_tree, list) else []):
            if isinstance(x, list):
                lits += [y for y in x[2:] if is_sym(y)]
        conds = [l != 0 for l in lits]
        return And(*conds) if conds else True

    def ensures(result, p_tree, sem, calls):
        res, conv, vs = result
        dic = conv.dic_vol_t4
        want = den(_tree_den_view(p_tree, sem), sem) if False else _den_t4tree(p_tree, sem)
        if res is None:
            yield 'none-means-empty', iff(want, False)
            return
        yield 'volume-denotes-the-tree', iff(vs.den(dic, res), want)
        if isinstance(p_tree, list):
            yield 'stored-under-the-node-id', res is p_tree[0]
            v = dic[res]
            yield 'operands-are-volumes', v.ops is None or all((a in dic) or (a in vs.given) for a in v.ops[1])
            yield 'no-none-operand', v.ops is None or all(a is not None for a in v.ops[1])


def _den_t4tree(t, sem):
    if isinstance(t, Opaque):
        return t.den
    if isinstance(t, CellRef):
        return False if t.cell == 60 else sem.cell(t.cell)
    if isinstance(t, list):
        vals = [_den_t4tree(c, sem) for c in t[2:]]
        return And(*vals) if t[1] == '*' else Or(*vals)
    return t4lit(sem, t)


def _tree_den_view(t, sem):
    return t


def _install_pot_to_t4():
    state = {}

    def ih(it, f, args, kw):
        conv, tree = args[0], args[1]
        if isinstance(tree, Opaque):
            conv.new_cell_key += 1
            k = conv.new_cell_key
            state['vs'].given[k] = tree.den
            return k
        return NotImplemented

    def cellref_hook(it, f, args, kw):
        conv, cell = args[0], args[1]
        if cell == 60:
            return None                       # an empty cell: pot_convert returns None
        k = 7000 + cell
        state['vs'].given[k] = state['sem'].cell(cell)
        return k

    def surface_hook(it, f, args, kw):
        # convert_surface replaced by its contract (CellConversion.convert_surface below): a volume whose EQUA part is
        # exactly the literal
        conv, surf, idorigin = args[0], args[1], args[2]
        conv.new_cell_key += 1
        k = conv.new_cell_key
        pluses, minuses = it.call(conv.conv_equa, [[surf]], {})
        conv.dic_vol_t4[k] = VolumeT4(pluses=pluses, minuses=minuses, idorigin=idorigin)
        return k

    def run_call(p_tree):
        sem = state['sem']
        vs = VolSem(sem)
        state['vs'] = vs
        conv = new_conv(vols={}, cell_key=500)
        res = conv.pot_to_t4_cell(p_tree, [(1, 2)], {}, (901, 902))
        return res, conv, vs
    _PotToT4.hooks = {CellConversion.pot_to_t4_cell: ih, CellConversion.convert_cellref: cellref_hook,
                      CellConversion.convert_surface: surface_hook}
    _PotToT4.call = staticmethod(run_call)
    orig_ghost = _PotToT4.ghost

    def ghost(S):
        g = orig_ghost(S)
        state['sem'] = g['sem']
        # the two helper planes of pure unions denote the empty set together (proved: union_helper_planes)
        return g
    _PotToT4.ghost = staticmethod(ghost)
    orig_req = _PotToT4.requires

    def requires(p_tree, sem, calls=None):
        # helper planes: PLUS 901 MINUS 902 is empty (contract ConstructVolumeT4.union_helper_planes)
        return And(orig_req(p_tree, sem), Not(And(sem.t4(901), Not(sem.t4(902)))))
    _PotToT4.requires = staticmethod(requires)


_install_pot_to_t4()


# ------------------------------------------------------------------ pot_convert / convert_cellref (glue, callees by contract)

def _convert_hooks(state):
    def stage(name, empty_possible=False):
        def hook(it, f, args, kw):
            tree = args[1]
            it.p.calls.append({'callee': name, 'args': list(args[1:]), 'kw': dict(kw), 'result': None})
            if empty_possible and state.get('empty'):
                return None
            res = OpaqueNode(den=tree.den, stage=name, of=tree)
            it.p.calls[-1]['result'] = res
            return res
        hook.callee_name = name
        return hook

    def to_t4(it, f, args, kw):
        conv, tree = args[0], args[1]
        conv.new_cell_key += 1
        k = conv.new_cell_key
        state['den_of_volume'][k] = tree.den
        it.p.calls.append({'callee': 'pot_to_t4_cell', 'args': list(args[1:]), 'kw': dict(kw), 'result': k})
        return k
    to_t4.callee_name = 'pot_to_t4_cell'
    return {CellConversion.pot_flag: stage('pot_flag'), CellConversion.pot_expand_surfs: stage('pot_expand_surfs'),
            CellConversion.pot_optimise: stage('pot_optimise', True), CellConversion.pot_to_t4_cell: to_t4}


_CONVERT_STATE = {'den_of_volume': {}}


@contract(CellConversion.pot_convert, props=['C01', 'C08', 'C05'], name='CellConversion.pot_convert')
class _PotConvert:
    """A cell's tree goes through numbering, macrobody expansion, optimisation and volume construction, in that
    order, each stage fed with the result of the one before (matching / idorigin / union_ids handed on unchanged).
    Each stage preserves the denotation (their own contracts), so the volume returned denotes the cell; when the
    optimiser returns None (the tree is patently empty: its contract) no volume is built and None is returned."""
    native = False
    hooks = _convert_hooks(_CONVERT_STATE)

    def cases(S):
        yield 'cell', {'empty': False, 'd': S.bool('den_cell')}
        yield 'patently-empty-cell', {'empty': True, 'd': S.bool('den_cell')}

    def call(empty, d):
        _CONVERT_STATE['empty'] = empty
        _CONVERT_STATE['den_of_volume'] = {}
        g = OpaqueNode(den=d, tag='geometry')
        cell = CellMCNP('1', '-1.0', g, 1.0, 0, None, (), None, [], [(7, 3)])
        conv = new_conv(cells={20: cell}, cell_key=500)
        matching, union_ids = {'m': 1}, (901, 902)
        return conv.pot_convert(cell, matching, union_ids), g, matching, union_ids, dict(_CONVERT_STATE['den_of_volume'])

    def ensures(result, empty, d, calls):
        res, g, matching, union_ids, dens = result
        order = [c['callee'] for c in calls.calls]
        if empty:
            yield 'empty-cell-yields-no-volume', res is None and order == ['pot_flag', 'pot_expand_surfs', 'pot_optimise']
            return
        yield 'stages-in-order', order == ['pot_flag', 'pot_expand_surfs', 'pot_optimise', 'pot_to_t4_cell']
        if order != ['pot_flag', 'pot_expand_surfs', 'pot_optimise', 'pot_to_t4_cell']:
            return
        c = calls.calls
        yield 'numbering-of-the-cell-geometry', c[0]['args'][0] is g
        yield 'expansion-of-the-numbered-tree-with-the-matching', c[1]['args'][0] is c[0]['result'] and c[1]['args'][1] is matching
        yield 'optimisation-of-the-expanded-tree', c[2]['args'][0] is c[1]['result']
        yield 'volumes-of-the-optimised-tree', (c[3]['args'][0] is c[2]['result'] and c[3]['args'][1] == [(7, 3)]
                                                and c[3]['args'][2] is matching and c[3]['args'][3] == union_ids)
        yield 'returns-the-volume', res == c[3]['result']
        yield 'volume-denotes-the-cell', res in dens and iff(dens[res], d)


@contract(CellConversion.convert_cellref, props=['C01', 'C08', 'C05', 'C13'], name='CellConversion.convert_cellref')
class _ConvertCellref:
    """The volume of a referenced cell is built once: a second reference to the same cell returns the same volume
    without converting again, a reference to another cell converts that cell; an empty cell (None) stays None."""
    native = False

    def cases(S):
        for label, seq in (('same-cell-twice', (31, 31)), ('two-cells', (31, 32)), ('empty-cell-twice', (33, 33)),
                           ('cell-empty-cell-cell', (31, 33, 31))):
            yield label, {'seq': seq}

    def call(seq):
        cells = {k: CellMCNP('1', '-1.0', OpaqueNode(tag=f'g{k}'), 1.0, 2, None, (), None, [], []) for k in (31, 32, 33)}
        conv = new_conv(cells=cells, cell_key=500)
        return [conv.convert_cellref(k, {}, (901, 902)) for k in seq], cells

    def ensures(result, seq, calls):
        res, cells = result
        converted = [c['args'][0] for c in calls.calls if c['callee'] == 'pot_convert']
        yield 'results', all((r is None) == (k == 33) for r, k in zip(res, seq))
        yield 'same-cell-same-volume', all(res[i] == res[j] for i in range(len(seq)) for j in range(i) if seq[i] == seq[j])
        yield 'different-cells-different-volumes', all(res[i] != res[j] for i in range(len(seq)) for j in range(i)
                                                       if seq[i] != seq[j] and res[i] is not None and res[j] is not None)
        yield 'each-non-empty-cell-converted-once', all(sum(1 for c in converted if c is cells[k]) == 1
                                                        for k in set(seq) if k != 33)
        yield 'converted-cells-are-the-referenced-ones', all(any(c is cells[k] for k in seq) for c in converted)


def _install_cellref_hook():
    def pot_convert(it, f, args, kw):
        conv, cell = args[0], args[1]
        it.p.calls.append({'callee': 'pot_convert', 'args': list(args[1:]), 'kw': dict(kw), 'result': None})
        if cell.geometry.facts.get('tag') == 'g33':
            return None
        conv.new_cell_key += 1
        it.p.calls[-1]['result'] = conv.new_cell_key
        return conv.new_cell_key
    pot_convert.callee_name = 'pot_convert'
    _ConvertCellref.hooks = {CellConversion.pot_convert: pot_convert}


_install_cellref_hook()


@contract(CellConversion.convert_surface, props=['C01', 'C08'], name='CellConversion.convert_surface', status='B')
class _ConvSurface:
    """A leaf literal becomes a volume whose EQUA part is exactly that literal; the same literal is converted once
    (cache), different literals get different volumes; nothing else is written."""
    scope = 'sequences of 1..3 literals from {5, -5, 9}'

    def bounded(tier):
        for n in (1, 2, 3):
            for seq in itertools.product((5, -5, 9), repeat=n):
                yield {'seq': seq}

    def call(seq):
        conv = new_conv(vols={}, cell_key=300)
        ids = [conv.convert_surface(s_, [(1, 2)]) for s_ in seq]
        return ids, {k: (sorted(v.pluses), sorted(v.minuses), v.ops, v.fictive) for k, v in conv.dic_vol_t4.items()}

    def ensures(result, seq):
        ids, vols = result
        yield 'same-literal-same-volume', all((ids[i] == ids[j]) == (seq[i] == seq[j]) for i in range(len(seq))
                                              for j in range(len(seq)))
        yield 'volume-is-the-literal', all(vols[k] == (([s_] if s_ > 0 else []), ([-s_] if s_ < 0 else []), None, True)
                                           for k, s_ in zip(ids, seq))
        yield 'nothing-else-written', set(vols) == set(ids)


# ------------------------------------------------------------------ pot_optimise (depth unbounded, width bounded)

def _ih_results(S, name):
    """Possible results of the recursive call on an opaque sub-node: None (the sub-node is empty) or an already
    optimised node (flattened, no opposite literals) of width 2..3."""
    a, b, c = S.int(name + 'a'), S.int(name + 'b'), S.int(name + 'c')
    inner = OpaqueFlagged(den=S.bool('den_' + name + 'n'), tag=name + 'n')
    return {
        'none': None,
        'I2': [3000, '*', a, b],
        'I3': [3000, '*', a, b, c],
        'U2': [3000, ':', a, b],
        'U3': [3000, ':', a, b, CellRef(45)],
        'Inode': [3000, '*', a, [3100, ':', b, c]],
        'Unode': [3000, ':', a, [3100, '*', b, c]],
    }


def _opt_den(t, sem):
    if t is None:
        return False
    if isinstance(t, Opaque):
        return t.den
    if isinstance(t, CellRef):
        return sem.cell(t.cell)
    if isinstance(t, list):
        vals = [_opt_den(c, sem) for c in t[2:]]
        return And(*vals) if t[1] == '*' else Or(*vals)
    return t4lit(sem, t)


def _flattened(t):
    if not isinstance(t, list):
        return True
    return all(not (isinstance(c, list) and c[1] == t[1]) and _flattened(c) for c in t[2:])


@contract(CellConversion.pot_optimise, props=['C01', 'C08'], name='CellConversion.pot_optimise')
class _PotOptimise:
    max_paths = 30000
    """Flattening and pruning: the result is None only if the tree denotes the empty set, otherwise it denotes the
    same set, nested nodes with the same operator are flattened, and an intersection never lists a surface with both
    signs (which TRIPOLI-4 rejects).  Induction over the tree: a sub-node is opaque and the recursive call returns
    one of the admissible already-optimised shapes with the sub-node's denotation.  Proved for nodes with up to 3
    operands whose optimised sub-nodes have up to 3 operands (width-bounded, any depth)."""
    native = False

    def cases(S):
        kinds = ['surf', 'cellref'] + ['sub:' + k for k in _ih_results(S, 'x')]
        for op in ('*', ':'):
            for n in (1, 2, 3):
                for combo in itertools.product(kinds, repeat=n):
                    if sum(1 for k in combo if k.startswith('sub:')) > 2:
                        continue
                    if n == 3 and sum(1 for k in combo if k.startswith('sub:')) > 1 and 'sub:I3' in combo:
                        continue
                    # number of literals that end up in one flattened intersection (each forks on its sign)
                    nlit = sum({'surf': 1, 'sub:I2': 2, 'sub:I3': 3, 'sub:Inode': 1}.get(k, 0) for k in combo)
                    if op == '*' and nlit >= 5 and os.environ.get('VERIF_TIER', 'quick') != 'thorough':
                        continue          # 3^5 sign patterns: thorough tier only
                    yield f'{op}:' + '+'.join(combo), {'op': op, 'combo': combo, 'S_': S}
        yield 'leaf', {'op': None, 'combo': ('surf',), 'S_': S}
        yield 'none', {'op': None, 'combo': (), 'S_': S}

    def ghost(S):
        return {'sem': _sem(S)}

    def call(op, combo, S_):
        raise NotImplementedError

    def requires(op, combo, S_, sem, calls):
        return True

    def ensures(result, op, combo, S_, sem, calls):
        res, tree, subs = result
        want = _opt_den(tree, sem) if tree is not None else False
        if tree is None:
            yield 'none-stays-none', res is None
            return
        if res is None:
            yield 'none-means-empty', iff(want, False)
            return
        yield 'denotation-preserved', iff(_opt_den(res, sem), want)
        if isinstance(tree, list):
            yield 'node-id-and-operator-kept', res[0] == tree[0] and res[1] == tree[1]
            yield 'flattened', _flattened(res)
            if res[1] == '*':
                lits = [x for x in res[2:] if is_sym(x)]
                yield 'no-surface-with-both-signs', And(*[a != -b for i, a in enumerate(lits) for b in lits[i + 1:]])


def _install_pot_optimise():
    state = {}

    def ih(it, f, args, kw):
        tree = args[1]
        if isinstance(tree, Opaque) and 'ih_result' in tree.facts:
            return tree.facts['ih_result']
        return NotImplemented

    def run_call(op, combo, S_):
        sem = _sem(S_)
        subs = []
        if op is None:
            tree = S_.int('s') if combo else None
        else:
            children = []
            for i, k in enumerate(combo):
                if k == 'surf':
                    children.append(S_.int(f'c{i}'))
                elif k == 'cellref':
                    children.append(CellRef(40 + i))
                else:
                    r = _ih_results(S_, f'r{i}')[k[4:]]
                    if isinstance(r, list):
                        r = list(r)
                        r[0] = 3000 + 10 * i
                    o = OpaqueFlagged(den=_opt_den(r, sem), ih_result=r, tag=f'c{i}')
                    subs.append((o, r))
                    children.append(o)
            tree = [1001, op] + children
        conv = new_conv()
        return conv.pot_optimise(tree), tree, subs

    def requires(op, combo, S_, sem, calls=None):
        # induction hypothesis on the shapes returned for sub-nodes: non-zero literals, no opposite literals in an
        # intersection (the recursive call's own postcondition)
        conds = []
        for i, k in enumerate(combo):
            if k == 'surf':
                conds.append(S_.int(f'c{i}') != 0)
            if k.startswith('sub:') and k != 'sub:none':
                a, b, c = (S_.int(f'r{i}{x}') for x in 'abc')
                conds += [a != 0, b != 0, c != 0]
                if k in ('sub:I2', 'sub:Inode'):
                    conds.append(a != -b) if k == 'sub:I2' else None
                if k == 'sub:I3':
                    conds += [a != -b, a != -c, b != -c]
                if k == 'sub:Unode':
                    conds.append(b != -c)
        if op is None and combo:
            conds.append(S_.int('s') != 0)
        conds = [c for c in conds if c is not None]
        return And(*conds) if conds else True
    _PotOptimise.hooks = {CellConversion.pot_optimise: ih}
    _PotOptimise.call = staticmethod(run_call)
    _PotOptimise.requires = staticmethod(requires)


_install_pot_optimise()
