"""C11 -- cell expressions denote the Boolean function MCNP assigns to them.

Proved (structural induction: sub-expressions are opaque values carrying the induction hypothesis):
  Surface.inverse, GeomExpression.inverse    den(result) == not den(self), for every assignment of senses
  CellConversion.pot_complement              (module c01)
Bounded (exhaustive up to a stated size, as the property's own quantifier text allows):
  normalize() + grammar + GeomSemantics      all expression strings up to a size bound, every spacing variant
"""
from MIP.geom import semantics as SEM
from MIP.geom.semantics import Surface, Cell, GeomExpression

from pyvc.contract import contract
from pyvc.sym import And, Or, Not, implies, iff, is_sym
from specs.boolean import den, SymSem, DictSem, OpaqueExpr, has_complement, is_binary, mk_surface, subtree


class _AnySem:
    """Concrete mode: every surface / facet gets a pseudo-random but fixed sense."""
    def __init__(self, salt):
        self.salt = salt

    def surface(self, sid, sub):
        return hash((self.salt, sid, sub)) % 2 == 0

    def cell(self, n):
        if int(n) in getattr(self, 'fixed', {}):
            return self.fixed[int(n)]
        return hash((self.salt, 'c', int(n))) % 3 == 0

    def fix_cell(self, n, value):
        self.__dict__.setdefault('fixed', {})[int(n)] = value

    def t4(self, i):
        return hash((self.salt, 't', i)) % 2 == 0


def _sem(S):
    return SymSem() if S.mode == 'sym' else _AnySem(S.int('salt'))


@contract(Surface.inverse, props=['C11', 'C01', 'C03'], name='semantics.Surface.inverse')
class _SurfInv:
    def cases(S):
        yield 'plain', {'self': mk_surface(S.int('s'))}
        yield 'facet', {'self': mk_surface(S.int('s'), 3)}
        # other references to the same body inverted earlier in the same run must not influence the result
        yield 'facet-after-another-facet', {'self': Surface(10, 2), 'before': (Surface(10, 1), Surface(-10, 2))}
        yield 'facet-after-the-whole-body', {'self': Surface(-10, 1), 'before': (Surface(-10),)}
        yield 'whole-body-after-a-facet', {'self': Surface(10), 'before': (Surface(10, 3),)}

    def ghost(S):
        return {'sem': _sem(S)}

    def call(self, before=()):
        for b in before:
            b.inverse()
        return self.inverse()

    def requires(self, sem, before=()):
        return self.surface != 0

    def ensures(result, self, sem, before=()):
        yield 'is-a-surface', isinstance(result, Surface)
        yield 'facet-kept', result.sub == self.sub
        yield 'denotation-negated', iff(den(result, sem), Not(den(self, sem)))


def _operand_cases(S):
    """The kinds of operand a GeomExpression can hold below a '*' or ':' node."""
    yield 'surface', lambda n: mk_surface(S.int(n))
    yield 'subtree', lambda n: subtree(S, n)


@contract(GeomExpression.inverse, props=['C11', 'C01', 'C03'], name='semantics.GeomExpression.inverse')
class _GeomInv:
    """De Morgan.  Induction over the expression: the operands are either surfaces (base case, contract above) or
    opaque sub-expressions whose `inverse()` returns the induction hypothesis.
    Precondition (derived from the code, which reads only self[1] and self[2] and calls self[0].inverse() on
    anything else): every node is binary and no '^' (cell complement) node occurs."""
    def cases(S):
        for op in ('*', ':'):
            for ln, lmk in _operand_cases(S):
                for rn, rmk in _operand_cases(S):
                    yield f'{op}:{ln},{rn}', {'self': GeomExpression((op, lmk('l'), rmk('r')))}

    def ghost(S):
        return {'sem': _sem(S)}

    def requires(self, sem):
        return And(*[x.surface != 0 for x in self[1:] if isinstance(x, Surface)])

    def ensures(result, self, sem):
        yield 'is-an-expression', isinstance(result, GeomExpression)
        yield 'binary', is_binary(result)
        yield 'complement-free', not has_complement(result)
        yield 'operator-dualised', result[0] == {'*': ':', ':': '*'}[self[0]]
        yield 'denotation-negated', iff(den(result, sem), Not(den(self, sem)))


LEVEL = {'C11': 'other'}


# ------------------------------------------------------------------ parsing (bounded, exhaustive up to a size)

import itertools
from MIP.geom import parsegeom as PG


def _exprs(n_ops, leaves):
    """All expression trees with exactly n_ops binary operators over the given leaves, plus complement wrappers."""
    if n_ops == 0:
        for l in leaves:
            yield l
        return
    for k in range(n_ops):
        for a in _exprs(k, leaves):
            for b in _exprs(n_ops - 1 - k, leaves):
                for op in ('*', ':'):
                    yield (op, a, b)


def _nested(tier):
    """Nested complements over wider intersections / unions (what De Morgan has to push through)."""
    a, b, c, d = ('s', 1), ('s', -2), ('s', 3), ('f', -4, 2)
    for op1 in ('*', ':'):
        for op2 in ('*', ':'):
            inner = (op1, (op1, a, b), c)
            yield ('~', (op2, ('~', inner), d))
            yield ('~', (op2, d, ('~', inner)))
            yield (op2, ('~', ('~', inner)), d)
            yield ('~', (op2, ('~', (op1, a, (op1, b, c))), ('#', 7))) if False else ('~', ('~', ('~', inner)))


def _with_complements(e, depth=0):
    yield e
    if depth < 1 and e[0] in ('*', ':'):
        yield ('~', e)
        a, b = e[1], e[2]
        for a2 in (a, ('~', a)) if a[0] in ('*', ':') else (a,):
            for b2 in (b, ('~', b)) if b[0] in ('*', ':') else (b,):
                if (a2, b2) != (a, b):
                    yield (e[0], a2, b2)


def _render(e, style):
    """MCNP text of an expression tree in one of several spacing styles."""
    sp, un, hs, po, pc = style
    k = e[0]
    if k == 's':
        return str(e[1])
    if k == 'f':
        return f'{e[1]}.{e[2]}'
    if k == '#':
        return f'#{hs}{e[1]}'
    if k == '~':
        return f'#{hs}({po}{_render(e[1], style)}{pc})'
    if k == '*':
        parts = []
        for a in e[1:]:
            t = _render(a, style)
            parts.append(f'({po}{t}{pc})' if a[0] == ':' else t)
        if sp == 'tight':
            # no blank where a parenthesis already separates the operands: (1:2)-3, 3(1:2), (1:2)(3:4), (1:2)#4
            out = parts[0]
            for t in parts[1:]:
                out += ('' if out.endswith(')') or t.startswith('(') else ' ') + t
            return out
        return sp.join(parts)
    return un.join(_render(a, style) for a in e[1:])


STYLES = [(' ', ':', '', '', ''), ('  ', ' : ', ' ', ' ', ' '), (' ', ': ', '', '', ' '), (' ', ' :', ' ', ' ', ''),
          ('   ', ':', '  ', '', ''), ('tight', ':', '', '', '')]


def _eval_spec(e, sense, cells):
    k = e[0]
    if k == 's':
        return sense[abs(e[1]), 0] == (e[1] > 0)
    if k == 'f':
        return sense[abs(e[1]), e[2]] == (e[1] > 0)
    if k == '#':
        return not cells[e[1]]
    if k == '~':
        return not _eval_spec(e[1], sense, cells)
    vals = [_eval_spec(a, sense, cells) for a in e[1:]]
    return all(vals) if k == '*' else any(vals)


def _eval_ast(t, sense, cells):
    """Denotation of what get_ast returns (Surface / Cell / GeomExpression with '^' nodes)."""
    if isinstance(t, Surface):
        v = sense[abs(t.surface), t.sub or 0]
        return v == (t.surface > 0)
    if t[0] == '^':
        return not cells[int(t[1])]
    vals = [_eval_ast(a, sense, cells) for a in t[1:]]
    return all(vals) if t[0] == '*' else any(vals)


LEAVES = [('s', 1), ('s', -2), ('s', 3), ('f', -4, 2), ('#', 7)]


@contract(PG.get_ast, props=['C11'], name='parsegeom.get_ast', status='B')
class _GetAst:
    """normalize() + grammar (stand-in parser, same grammar) + the real GeomSemantics on every well-formed expression
    of the scope, in six spacing styles (one of them without blanks next to parentheses), against a reference evaluation written from the property statement (blank =
    intersection binds tighter than ':', parentheses, signed surfaces and facets, #n and #( ... )), for every
    assignment of senses to the surfaces and cells used."""
    scope = ('all expressions with <= 2 binary operators (thorough: 3) over 5 leaves (three signed surfaces, a signed '
             'facet, a cell complement), with #( ) wrapped around the whole expression or around either operand, in 5 '
             'spacing styles, plus doubly and triply nested complements over three-operand intersections / unions; all '
             'assignments of senses')

    def bounded(tier):
        n_max = 2 if tier == 'quick' else 3
        seen = set()
        for n in range(0, n_max + 1):
            for e in _exprs(n, LEAVES):
                for e2 in _with_complements(e):
                    for style in STYLES:
                        txt = _render(e2, style)
                        if txt in seen:
                            continue
                        seen.add(txt)
                        yield {'geom': txt, 'tree': e2}
        for e2 in _nested(tier):
            for style in STYLES:
                txt = _render(e2, style)
                if txt not in seen:
                    seen.add(txt)
                    yield {'geom': txt, 'tree': e2}
        # several facets of one macrobody (and the whole body) under one complement, same and opposite signs
        f1, f2, f3, body = ('f', 4, 1), ('f', 4, 2), ('f', -4, 3), ('s', 4)
        for inner in ((':', f1, f2), ('*', f1, f2), ('*', body, f2), (':', f2, body), (':', f1, f3), ('*', ('s', -4), f1)):
            for e2 in (('~', inner), ('*', ('~', inner), ('s', 1)), (':', ('~', inner), ('~', ('*', f2, f1)))):
                for style in STYLES[:3]:
                    txt = _render(e2, style)
                    if txt not in seen:
                        seen.add(txt)
                        yield {'geom': txt, 'tree': e2}

    def call(geom, tree):
        from harness import shim
        shim.install()
        return PG.get_ast(geom)

    def ensures(result, geom, tree):
        ok = True
        keys = [(1, 0), (2, 0), (3, 0), (4, 2)]
        if any(k in geom for k in ('4.1', '4.3', ' 4 ', ':4', '4:')) or geom.strip().endswith('4') or '(4' in geom or '-4' in geom:
            keys = keys + [(4, 1), (4, 3), (4, 0)]
        for bits in itertools.product((False, True), repeat=len(keys) + 1):
            sense = dict(zip(keys, bits[:-1]))
            for k in ((4, 1), (4, 3), (4, 0)):
                sense.setdefault(k, False)
            cells = {7: bits[-1]}
            if _eval_ast(result, sense, cells) != _eval_spec(tree, sense, cells):
                ok = False
                break
        yield 'same-boolean-function', ok
        # shape invariant the tree contracts rely on (inverse reads exactly two operands)
        yield 'every-operator-node-is-binary', is_binary(result)


EXPLANATION = {'C11': (
    'Proved by structural induction on the real code (all trees, all assignments): Surface.inverse, '
    'GeomExpression.inverse (De Morgan; precondition: binary, no cell-complement node), pot_complement (module c01: '
    '#n replaced by the inverse of cell n, complement-free binary result, same denotation). Bounded, exhaustive '
    'within the stated scope: normalize() + grammar + GeomSemantics against a reference evaluator in six spacing '
    'styles. The TatSu-generated parser itself cannot run in this sandbox and is replaced by harness/shim.py '
    '(recursive descent for the same grammar, driving the real GeomSemantics).')}
ASSUMPTIONS = {'C11': [
    'TatSu parser replaced by a stand-in for exactly the grammar of geom.ebnf (left-associative union / isect)',
    'cellcard.split (regular expressions): bounded contract only (geometry text handed over unchanged); also exercised by the deck sweeps',
]}


# ------------------------------------------------------------------ extract_surfaces_list: the surfaces of a cell in card order

from MIP.geom import main as _MIPMAIN

_ORDER_TEXTS = [('-1 2 -3 4', [-1, 2, -3, 4]), ('(-2 1) (3 -4)', [-2, 1, 3, -4]), ('-1 (2 : -3) 4', [-1, 2, -3, 4]),
                ('(-1 2) (-3 4) (-5 6)', [-1, 2, -3, 4, -5, 6]), ('-1 : (2 3) : -4', [-1, 2, 3, -4]),
                ('((-1 2) -3) 4', [-1, 2, -3, 4]), ('-1 (2 (-3 4))', [-1, 2, -3, 4]), ('-10.2 (3 : 7.1) #9 -4', [-10, 3, 7, -4]),
                ('-7', [-7]), ('-301 302 305 -303 -304 306', [-301, 302, 305, -303, -304, 306]),
                ('(-301 302) (305 -303) (-304 306) -7 8', [-301, 302, 305, -303, -304, 306, -7, 8])]


@contract(_MIPMAIN.extract_surfaces_list, props=['C06', 'C07', 'C04', 'C11'], name='main.extract_surfaces_list', status='B')
class _SurfOrder:
    """The surfaces of a cell expression are listed in the order of the card, left to right, whatever the grouping
    by parentheses (the order decides the index directions of a lattice); `#n` contributes nothing."""
    scope = '11 expressions (flat, grouped pairs, nested either way, unions, facets, complements of cells)'

    def bounded(tier):
        for text, want in _ORDER_TEXTS:
            yield {'text': text, 'want': want}

    def call(text, want):
        from harness import shim
        shim.install()
        return [int(x) for x in _MIPMAIN.extract_surfaces_list(PG.get_ast(text))]

    def ensures(result, text, want):
        yield 'card-order', result == want
