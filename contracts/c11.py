"""C11 -- cell expressions denote the Boolean function MCNP assigns to them.

Proved (structural induction: sub-expressions are opaque values carrying the induction hypothesis):
  Surface.inverse, GeomExpression.inverse    den(result) == not den(self), for every assignment of senses
  CellConversion.pot_complement              (module c01)
Bounded (exhaustive up to a stated size, as the property's own quantifier text allows):
  normalize() + grammar + GeomSemantics      all expression strings up to a size bound, every spacing variant
"""
from MIP.geom import semantics as SEM
from MIP.geom.semantics import Surface, Cell, GeomExpression

from pyvc.contract import contract
from pyvc.sym import And, Or, Not, implies, iff, is_sym
from specs.boolean import den, SymSem, DictSem, OpaqueExpr, has_complement, is_binary, mk_surface, subtree


class _AnySem:
    """Concrete mode: every surface / facet gets a pseudo-random but fixed sense."""
    def __init__(self, salt):
        self.salt = salt

    def surface(self, sid, sub):
        return hash((self.salt, sid, sub)) % 2 == 0

    def cell(self, n):
        if int(n) in getattr(self, 'fixed', {}):
            return self.fixed[int(n)]
        return hash((self.salt, 'c', int(n))) % 3 == 0

    def fix_cell(self, n, value):
        self.__dict__.setdefault('fixed', {})[int(n)] = value

    def t4(self, i):
        return hash((self.salt, 't', i)) % 2 == 0


def _sem(S):
    return SymSem() if S.mode == 'sym' else _AnySem(S.int('salt'))


@contract(Surface.inverse, props=['C11', 'C01'], name='semantics.Surface.inverse')
class _SurfInv:
    def cases(S):
        yield 'plain', {'self': mk_surface(S.int('s'))}
        yield 'facet', {'self': mk_surface(S.int('s'), 3)}

    def ghost(S):
        return {'sem': _sem(S)}

    def requires(self, sem):
        return self.surface != 0

    def ensures(result, self, sem):
        yield 'is-a-surface', isinstance(result, Surface)
        yield 'facet-kept', result.sub == self.sub
        yield 'denotation-negated', iff(den(result, sem), Not(den(self, sem)))


def _operand_cases(S):
    """The kinds of operand a GeomExpression can hold below a '*' or ':' node."""
    yield 'surface', lambda n: mk_surface(S.int(n))
    yield 'subtree', lambda n: subtree(S, n)


@contract(GeomExpression.inverse, props=['C11', 'C01'], name='semantics.GeomExpression.inverse')
class _GeomInv:
    """De Morgan.  Induction over the expression: the operands are either surfaces (base case, contract above) or
    opaque sub-expressions whose `inverse()` returns the induction hypothesis.
    Precondition (derived from the code, which reads only self[1] and self[2] and calls self[0].inverse() on
    anything else): every node is binary and no '^' (cell complement) node occurs."""
    def cases(S):
        for op in ('*', ':'):
            for ln, lmk in _operand_cases(S):
                for rn, rmk in _operand_cases(S):
                    yield f'{op}:{ln},{rn}', {'self': GeomExpression((op, lmk('l'), rmk('r')))}

    def ghost(S):
        return {'sem': _sem(S)}

    def requires(self, sem):
        return And(*[x.surface != 0 for x in self[1:] if isinstance(x, Surface)])

    def ensures(result, self, sem):
        yield 'is-an-expression', isinstance(result, GeomExpression)
        yield 'binary', is_binary(result)
        yield 'complement-free', not has_complement(result)
        yield 'operator-dualised', result[0] == {'*': ':', ':': '*'}[self[0]]
        yield 'denotation-negated', iff(den(result, sem), Not(den(self, sem)))


LEVEL = {'C11': 'other'}
