"""C06 -- rectangular lattices: element position, index order and fill array."""
import itertools

from t4_geom_convert.Kernel.Volume import Lattice as LT
from t4_geom_convert.Kernel.FileHandlers.Parser.ParseMCNPCell import ParseMCNPCell, MissingLatticeOptError
from t4_geom_convert import main as MAIN

from pyvc.contract import contract
from pyvc.sym import And, Or, Not, implies, iff, is_sym, ident, ite
from specs.common import dot, sub, add, scale, cross, close


def _vecs(S, n, prefix='v'):
    return [tuple(S.reals([f'{prefix}{k}{c}' for c in 'xyz'])) for k in range(n)]


@contract(LT.latticeVector, props=['C06', 'C07'], name='Lattice.latticeVector')
class _LatVec:
    """element (i, j, k) is translated by i a1 + j a2 + k a3"""
    def cases(S):
        for n in (1, 2, 3):
            yield f'{n}D', {'base_vecs': _vecs(S, n), 'index': tuple(S.ints([f'i{k}' for k in range(n)]))}

    def ensures(result, base_vecs, index):
        want = (0, 0, 0)
        for i, v in zip(index, base_vecs):
            want = add(want, scale(i, v))
        yield 'three-components', len(result) == 3
        yield 'is-the-integer-combination', And(*[close(a, b) for a, b in zip(result, want)])


@contract(LT.latticeReciprocal, props=['C06'], name='Lattice.latticeReciprocal')
class _LatRec:
    """rec_i . v_j == delta_ij, and the reciprocal vectors lie in the span of the given ones (1, 2 and 3 dimensions)."""
    def cases(S):
        for n in (1, 2, 3):
            yield f'{n}D', {'base_vecs': _vecs(S, n)}

    def requires(base_vecs):
        n = len(base_vecs)
        if n == 1:
            return dot(base_vecs[0], base_vecs[0]) > 0
        if n == 2:
            a, b = base_vecs
            return dot(a, a) * dot(b, b) - dot(a, b) * dot(a, b) > 0
        a, b, c = base_vecs
        return dot(a, cross(b, c)) != 0

    def ensures(result, base_vecs):
        n = len(base_vecs)
        yield 'as-many-vectors', len(result) == n
        for i in range(n):
            for j in range(n):
                yield f'biorthogonal[{i}{j}]', ident(dot(result[i], base_vecs[j]), 1 if i == j else 0)
        if n == 2:
            nrm = cross(base_vecs[0], base_vecs[1])
            for i in range(2):
                yield f'in-plane[{i}]', ident(dot(result[i], nrm), 0)
        if n == 1:
            yield 'parallel', And(*[ident(x, 0) for x in cross(result[0], base_vecs[0])])


def _pairs(S, n):
    """n pairs of parallel planes as extract_surfaces yields them: ((point, normal), side)."""
    out = []
    for k in range(n):
        nrm = tuple(S.reals([f'n{k}{c}' for c in 'xyz']))
        p1 = tuple(S.reals([f'p{k}{c}' for c in 'xyz']))
        p2 = tuple(S.reals([f'q{k}{c}' for c in 'xyz']))
        out.append((nrm, p1, p2))
    return out


def _surfaces_of(pairs, sides, flips=None):
    """flips[k] = -1: the second plane of pair k is written with the opposite (antiparallel, rescaled) normal, as
    when one plane is a PX card and the other a general P card: the side flag follows the normal."""
    surfs = []
    flips = flips or [1] * len(pairs)
    for (nrm, p1, p2), (s1, s2), fl in zip(pairs, sides, flips):
        surfs.append(((p1, nrm), s1))
        n2 = nrm if fl == 1 else tuple(-2 * x for x in nrm)
        surfs.append(((p2, n2), s2 * fl))
    return surfs


@contract(LT.squareLatticeBaseVectors, props=['C06'], name='Lattice.squareLatticeBaseVectors')
class _SquareBase:
    """For 1, 2 or 3 pairs of parallel planes (pairs with independent normals) and every listing sense of the first
    plane: base vector a_k carries the second-listed plane of pair k onto the first-listed one, is parallel to the
    planes of the other pairs, and points across the first-listed surface out of the unit cell (positive index
    direction)."""
    def cases(S):
        for n in (1, 2, 3):
            for sides in itertools.product((1, -1), repeat=n):
                for flips in itertools.product((1, -1), repeat=n):
                    if n == 3 and flips not in ((1, 1, 1), (-1, -1, -1), (1, -1, 1)):
                        continue
                    yield (f'{n}pairs,first-sides={sides},second-normals={flips}',
                           {'pairs': _pairs(S, n), 'sides': [(s, -s) for s in sides], 'flips': flips})

    def call(pairs, sides, flips):
        return LT.squareLatticeBaseVectors(_surfaces_of(pairs, sides, flips))

    def requires(pairs, sides, flips):
        conds = []
        for nrm, p1, p2 in pairs:
            conds += [dot(nrm, nrm) > 0, dot(sub(p1, p2), nrm) != 0]
        ns = [p[0] for p in pairs]
        if len(ns) == 2:
            c = cross(ns[0], ns[1])
            conds.append(dot(c, c) > 0)
        if len(ns) == 3:
            conds.append(dot(ns[0], cross(ns[1], ns[2])) != 0)
        return And(*conds)

    def ensures(result, pairs, sides, flips):
        n = len(pairs)
        yield 'as-many-vectors', len(result) == n
        for k, ((nrm, p1, p2), (s1, _)) in enumerate(zip(pairs, sides)):
            a = result[k]
            yield f'a{k + 1}:maps-second-plane-onto-first', ident(dot(sub(add(p2, a), p1), nrm), 0)
            for j, (nj, _, _) in enumerate(pairs):
                if j != k:
                    yield f'a{k + 1}:parallel-to-pair-{j + 1}', ident(dot(a, nj), 0)
            outward = scale(-s1, nrm)          # the cell lies on side s1 of the first plane
            if n == 1:
                yield f'a{k + 1}:along-the-normal', And(*[ident(x, 0) for x in cross(a, nrm)])
            if n == 2:
                yield f'a{k + 1}:in-the-plane-of-the-normals', ident(dot(a, cross(pairs[0][0], pairs[1][0])), 0)
        # a_k . outward_k equals the (signed) distance from the second-listed to the first-listed plane measured
        # along the outward normal of the first-listed one (|n| = 1 not assumed): positive exactly when the second
        # plane lies behind the first one, i.e. the index grows across the first-listed surface
        for k, ((nrm, p1, p2), (s1, _)) in enumerate(zip(pairs, sides)):
            outward = scale(-s1, nrm)
            yield f'a{k + 1}:positive-direction-across-first-listed-surface', ident(
                dot(result[k], outward), dot(sub(p1, p2), outward))


@contract(LT.squareLatticeReciprocalVecs, props=['C06', 'C17'], name='Lattice.squareLatticeReciprocalVecs[count]')
class _SquareCount:
    def cases(S):
        for n in (0, 1, 3, 5, 7, 8):
            yield f'{n}surfaces', {'surfaces': [(((0., 0., float(i)), (0., 0., 1.)), 1) for i in range(n)]}

    raises = {LT.LatticeError: lambda surfaces: True}

    def ensures(result, surfaces):
        return []


# ------------------------------------------------------------------ index enumeration (bounded, exhaustive in scope)

def _all_bounds(maxdim, lo, hi):
    ranges = [(a, b) for a in range(lo, hi + 1) for b in range(a, hi + 1)]
    for n in range(1, maxdim + 1):
        for combo in itertools.product(ranges, repeat=n):
            yield list(combo)


@contract(LT.LatticeBounds.indices, props=['C06', 'C07'], name='Lattice.LatticeBounds.indices', status='B')
class _Indices:
    """Exactly the index tuples inside the ranges, once each, first index varying fastest (MCNP FILL-array order):
    index (i0, i1, i2) is at position ((i2-lo2) n1 + (i1-lo1)) n0 + (i0-lo0).  Also size(), dims(), __len__."""
    scope = 'all range lists of 1..3 dimensions with bounds in [-2, 2] (lo <= hi): 3615 lists'

    def bounded(tier):
        for b in _all_bounds(3, -2, 2):
            yield {'bounds': b}

    def call(bounds):
        lb = LT.LatticeBounds(bounds)
        return list(lb.indices()), lb.size(), lb.dims(), len(lb)

    def ensures(result, bounds):
        idx, size, dims, n = result
        sizes = [hi - lo + 1 for lo, hi in bounds]
        total = 1
        for s_ in sizes:
            total *= s_
        yield 'size', size == total and len(idx) == total
        yield 'dims', dims == sum(1 for lo, hi in bounds if lo != hi) and n == len(bounds)
        ok = True
        for pos, t in enumerate(idx):
            want = 0
            for d in reversed(range(len(bounds))):
                want = want * sizes[d] + (t[d] - bounds[d][0])
            ok = ok and want == pos and isinstance(t, tuple) and len(t) == len(bounds) and all(
                lo <= x <= hi for x, (lo, hi) in zip(t, bounds))
        yield 'first-index-fastest-and-in-range', ok
        yield 'each-once', len(set(idx)) == len(idx)


@contract(LT.LatticeBounds.size, props=['C06', 'C07'], name='Lattice.LatticeBounds.size[any-bounds]')
class _SizeP:
    """size() is the product of the range lengths, dims() counts the ranges with lo != hi, len() the ranges: for all
    integer bounds lo <= hi (symbolic), 1..3 dimensions; LatticeSpec accepts a FILL array iff its length is that product."""
    def cases(S):
        for n in (1, 2, 3):
            yield f'{n}-dimensions', {'bounds': [(S.int(f'lo{d}'), S.int(f'hi{d}')) for d in range(n)]}

    def requires(bounds):
        return And(*[lo <= hi for lo, hi in bounds])      # MCNP ranges lo:hi are never empty

    def call(bounds):
        lb = LT.LatticeBounds(bounds)
        return lb.size(), lb.dims(), len(lb), lb.copy().size()

    def ensures(result, bounds):
        size, dims, n, size_of_copy = result
        total = 1
        for lo, hi in bounds:
            total = total * (hi - lo + 1)
        yield 'size', size == total
        yield 'size-of-copy', size_of_copy == total
        count = 0
        for lo, hi in bounds:
            count = count + ite(lo != hi, 1, 0)
        yield 'dims', dims == count
        yield 'len', n == len(bounds)


@contract(LT.LatticeSpec.__init__, props=['C06', 'C07', 'C17'], name='Lattice.LatticeSpec.__init__[any-bounds]')
class _SpecInitP:
    """A FILL array is accepted iff it has exactly prod(hi - lo + 1) entries (symbolic bounds, arrays of 0..5 opaque
    entries); the accepted object keeps the array and equal bounds."""
    def cases(S):
        for n in (1, 2, 3):
            for length in (0, 1, 2, 4, 5):
                yield f'{n}-dimensions/array-of-{length}', {
                    'bounds': [(S.int(f'lo{d}'), S.int(f'hi{d}')) for d in range(n)],
                    'spec': [object() for _ in range(length)]}

    def requires(bounds, spec):
        return And(*[lo <= hi for lo, hi in bounds])

    def call(bounds, spec):
        ls = LT.LatticeSpec(LT.LatticeBounds(bounds), spec)
        return ls.spec, ls.bounds.bounds

    def _total(bounds):
        total = 1
        for lo, hi in bounds:
            total = total * (hi - lo + 1)
        return total

    raises = {ValueError: lambda bounds, spec: _SpecInitP._total(bounds) != len(spec)}

    def ensures(result, bounds, spec):
        kept, kept_bounds = result
        yield 'array-kept', kept is spec
        yield 'bounds-kept', len(kept_bounds) == len(bounds)
        for d, (lo, hi) in enumerate(bounds):
            yield f'bounds-kept[{d}]', And(kept_bounds[d][0] == lo, kept_bounds[d][1] == hi)


@contract(LT.LatticeSpec.items, props=['C06', 'C07'], name='Lattice.LatticeSpec.items', status='B')
class _SpecItems:
    """items() pairs the k-th index of indices() with the k-th universe of the FILL array; a FILL array of the wrong
    length is rejected by the constructor (ValueError)."""
    scope = 'all range lists of 1..3 dimensions with bounds in [-1, 1], arrays of length size-1, size, size+1'

    def bounded(tier):
        for b in _all_bounds(3, -1, 1):
            size = 1
            for lo, hi in b:
                size *= hi - lo + 1
            for n in (size - 1, size, size + 1):
                if n >= 0:
                    yield {'bounds': b, 'spec': list(range(100, 100 + n))}

    def call(bounds, spec):
        return list(LT.LatticeSpec(LT.LatticeBounds(bounds), spec).items())

    raises = {ValueError: lambda bounds, spec: len(spec) != _size(bounds)}

    def ensures(result, bounds, spec):
        idx = list(LT.LatticeBounds(bounds).indices())
        yield 'pairs-in-array-order', result == list(zip(idx, spec))


def _size(bounds):
    s_ = 1
    for lo, hi in bounds:
        s_ *= hi - lo + 1
    return s_


@contract(ParseMCNPCell.to_fillid, props=['C06', 'C17'], name='ParseMCNPCell.to_fillid', status='B')
class _ToFillId:
    """FILL=n on a lattice cell: homogeneous array over the --lattice ranges, error without the option; FILL array:
    used as is; no FILL: None; FILL=n without LAT: the universe number."""
    scope = 'keyword combinations x lattice options of 1..2 dimensions with bounds in [-1, 1]'

    def bounded(tier):
        opts = [None] + [LT.LatticeBounds(b) for b in _all_bounds(2, -1, 1)]
        for lat_opt in opts:
            yield {'kws': {'f_bounds': None, 'f_univs': None, 'lattice': None}, 'lat_opt': lat_opt}
            yield {'kws': {'f_bounds': None, 'f_univs': 7, 'lattice': None}, 'lat_opt': lat_opt}
            for lat in (1, 2):
                yield {'kws': {'f_bounds': None, 'f_univs': 7, 'lattice': lat}, 'lat_opt': lat_opt}
                b = LT.LatticeBounds([(0, 1), (-1, 0)])
                yield {'kws': {'f_bounds': b, 'f_univs': [1, 2, 3, 4], 'lattice': lat}, 'lat_opt': lat_opt}

    raises = {MissingLatticeOptError: lambda kws, lat_opt: bool(kws['lattice']) and isinstance(kws['f_univs'], int)
              and lat_opt is None}

    def ensures(result, kws, lat_opt):
        # NB: kws is mutated by the call; the contract reads the original through the enumeration order
        if result is None:
            yield 'none-only-without-fill', True
            return
        if isinstance(result, LT.LatticeSpec):
            yield 'covers-the-ranges', len(list(result.items())) == result.bounds.size()
            yield 'homogeneous-or-given', len(set(result.spec)) == 1 or list(result.spec) == [1, 2, 3, 4]
        else:
            yield 'plain-universe', result == 7


@contract(MAIN.parse_lattice, props=['C06', 'C17'], name='main.parse_lattice', status='B')
class _ParseLattice:
    """--lattice cell,i0:i1[,j0:j1[,k0:k1]] -> {cell: ranges}; malformed arguments are rejected with ValueError."""
    scope = ('well-formed options for 1..3 ranges with bounds in [-2, 2] plus a list of malformed spellings '
             '(missing ranges, too many ranges, non-integer cell / bound, missing colon, empty bound)')

    def bounded(tier):
        for b in _all_bounds(3, -2, 2):
            if len(b) == 3 and (b[0][0] != -2 and tier == 'quick'):
                continue
            yield {'lattice_list': ['12,' + ','.join(f'{lo}:{hi}' for lo, hi in b)], 'want': {12: b}}
        for bad in ('12', '12,', 'x,0:1', '12,0:1,0:1,0:1,0:1', '12,0-1', '12,0:1:2', '12,:1', '12,0:', '12,a:1',
                    '12,0:1.5', '1.5,0:1', '12,0:1,', ',0:1', '12 0:1'):
            yield {'lattice_list': [bad], 'want': None}
        yield {'lattice_list': ['3,0:1', '4,-1:1,0:0'], 'want': {3: [(0, 1)], 4: [(-1, 1), (0, 0)]}}
        yield {'lattice_list': [], 'want': {}}

    def call(lattice_list, want):
        return MAIN.parse_lattice(lattice_list)

    raises = {ValueError: lambda lattice_list, want: want is None}

    def ensures(result, lattice_list, want):
        yield 'parsed-ranges', {k: list(v) for k, v in result.items()} == want


# ------------------------------------------------------------------ develop_lattice (modular: callees by contract)

from t4_geom_convert.Kernel.Volume.CellConversion import CellConversion as _CC
from t4_geom_convert.Kernel.Volume import CellConversion as _CCMOD
from t4_geom_convert.Kernel.Volume.CellMCNP import CellMCNP as _CellMCNP
from t4_geom_convert.Kernel.Transformation import Transformation as _TRMOD
from pyvc.interp import havoc as _havoc
from contracts.c01 import new_conv as _new_conv, OpaqueNode as _OpaqueNode
from contracts.c04 import image as _image, spec_compose as _spec_compose, compose_pre as _compose_pre

_T_F = (1.0, 2.0, 3.0, 0.0, 1.0, 0.0, -1.0, 0.0, 0.0, 0.0, 0.0, 1.0)        # a fill transformation (not symmetric)
_T_C = (0.5, 0.0, 0.25, 0.6, 0.8, 0.0, -0.8, 0.6, 0.0, 0.0, 0.0, 1.0)      # a TRCL (not symmetric)
_T_C2 = (0.0, 0.0, 4.0, 0.0, 0.0, 1.0, 1.0, 0.0, 0.0, 0.0, 1.0, 0.0)


def _lat_transform_hook():
    """cell_transform by contract: a fresh key whose cell is a copy of the cell with its geometry moved."""
    def hook(it, f, args, kw):
        conv, cell_key, transform = args[0], args[1], args[2]
        cache = args[3] if len(args) > 3 else kw.get('cache', True)
        conv.new_cell_key += 1
        new_key = conv.new_cell_key
        src = conv.dic_cell_mcnp[cell_key]
        conv.dic_cell_mcnp[new_key] = _CellMCNP(src.materialID, src.density,
                                                _OpaqueNode(moved_from=cell_key, by=tuple(transform)), src.importance,
                                                src.universe, src.fillid, src.filltr, src.lattice, list(src.trcl),
                                                list(src.idorigin))
        it.p.calls.append({'callee': 'cell_transform', 'args': [cell_key, tuple(transform), cache], 'kw': {},
                           'result': new_key})
        return new_key
    hook.callee_name = 'cell_transform'
    return hook


_LAT_SHAPES = [
    # (label, number of base vectors, bounds, universes first index fastest)   own universe = 9
    ('1D', 1, [(-1, 1)], [2, 9, 0]),
    ('2D', 2, [(0, 1), (-1, 0)], [2, 0, 9, 3]),
    ('3D', 3, [(0, 1), (0, 0), (-1, 0)], [2, 3, 0, 9]),
    ('2D+trivial-third-range', 2, [(0, 1), (0, 1), (0, 0)], [3, 2, 9, 0]),
]


@contract(_CC.develop_lattice, props=['C06', 'C07', 'C05'], name='CellConversion.develop_lattice')
class _Develop:
    """For every element (i, j, k) of the declared ranges whose universe is not 0 there is exactly one new cell, in
    the order of the FILL array: the lattice cell moved by the translation i a1 + j a2 + k a3 (a_m = the base vectors
    returned by squareLatticeBaseVectors / hexLatticeBaseVectors, here arbitrary), filled with the universe of that
    element (or, for the cell's own universe, not filled and of the cell's material); its fill transformation is, as a
    map on points, `fill transformation of the cell, then the element translation` or, without a fill transformation,
    `TRCL of the cell, then the element translation` (the base vectors are those of the already moved planes); LAT is
    cleared; the lattice cell itself is removed.  A cell carries at most one TRCL (the only producer,
    parse_one_cell_worker, builds `[]` or `[trcl]`).
    Universe 0 yields no cell.  Callees are replaced by their contracts (base vectors: C06 / C07, cell_transform: C05,
    compose_transform: C04 -- its precondition is an obligation here); latticeVector and LatticeSpec.items run as
    written."""
    native = False
    hooks = {}

    def cases(S):
        for label, nvec, bounds, univs in _LAT_SHAPES:
            for lat in (1, 2):
                if lat == 2 and nvec == 1:
                    continue
                for tr_label, filltr, trcl in (('plain', (), []), ('fill-transformation', _T_F, []),
                                               ('trcl', (), [_T_C]),
                                               ('fill-transformation+trcl', _T_F, [_T_C])):
                    yield f'{label}/LAT={lat}/{tr_label}', {
                        'nvec': nvec, 'bounds': bounds, 'univs': univs, 'lat': lat, 'filltr': filltr, 'trcl': trcl,
                        'vecs': [S.reals([f'a{m}{c}' for c in 'xyz']) for m in range(nvec)]}

    def ghost(S):
        return {'r': S.reals('X Y Z')}

    def call(nvec, bounds, univs, lat, filltr, trcl, vecs):
        spec = LT.LatticeSpec(LT.LatticeBounds(list(bounds)), list(univs))
        g = _OpaqueNode(tag='lattice-cell')
        cells = {50: _CellMCNP('4', '-1.0', g, 1.0, 9, spec, tuple(filltr), lat, [tuple(t) for t in trcl], []),
                 7: _CellMCNP('1', '-2.0', _OpaqueNode(tag='other'), 1.0, 0, None, (), None, [], [])}
        conv = _new_conv(cells=cells, cell_key=100)
        _DEV_STATE['vecs'] = vecs
        conv.develop_lattice(50)
        return conv, g

    def ensures(result, nvec, bounds, univs, lat, filltr, trcl, vecs, r, calls):
        conv, g = result
        dic = conv.dic_cell_mcnp
        yield 'lattice-cell-removed', 50 not in dic
        yield 'other-cells-untouched', 7 in dic and dic[7].lattice is None
        which = [c['callee'] for c in calls.calls if c['callee'] in ('squareLatticeBaseVectors', 'hexLatticeBaseVectors')]
        yield 'base-vectors-of-the-right-kind', which == (['squareLatticeBaseVectors'] if lat == 1 else ['hexLatticeBaseVectors'])
        # independent enumeration of the elements: first index fastest
        ranges = [range(lo, hi + 1) for lo, hi in bounds]
        idxs = [tuple(reversed(t)) for t in itertools.product(*reversed(ranges))]
        expected = [(idx, u) for idx, u in zip(idxs, univs) if u != 0]
        new_keys = sorted(k for k in dic if k > 100)
        yield 'one-cell-per-element-with-a-universe', len(new_keys) == len(expected)
        if len(new_keys) != len(expected):
            return
        for k, (idx, u) in zip(new_keys, expected):
            c = dic[k]
            tag = 'element' + ''.join(f'[{i}]' for i in idx)
            geo = c.geometry
            moved_ok = isinstance(geo, _OpaqueNode) and geo.facts.get('moved_from') == 50
            yield f'{tag}:is-the-lattice-cell-moved', moved_ok
            if not moved_ok:
                continue
            by = geo.facts['by']
            transl = [sum(idx[m] * vecs[m][c_] for m in range(nvec)) for c_ in range(3)]
            yield f'{tag}:moved-by-the-element-translation', And(*[close(a, b) for a, b in zip(by[0:3], transl)])
            yield f'{tag}:moved-without-rotation', list(by[3:12]) == [1., 0., 0., 0., 1., 0., 0., 0., 1.]
            yield f'{tag}:lattice-flag-cleared', c.lattice is None
            if u == 9:
                yield f'{tag}:own-universe-is-not-filled', c.fillid is None and c.materialID == '4'
            else:
                yield f'{tag}:filled-with-the-universe-of-the-element', c.fillid == u
            # the fill transformation as a map on points
            t_el = list(transl) + [1., 0., 0., 0., 1., 0., 0., 0., 1.]
            if filltr:
                want = _image(t_el, _image(list(filltr), r))
            else:
                # the TRCL of the cell has already been applied to its geometry when the lattice is developed
                # (construct_volume_t4 applies every TRCL first), so the base vectors are main-frame vectors: what
                # fills the element is moved by the TRCL first and by the element translation afterwards
                want = r
                for t in trcl:
                    want = _image(list(t), want)
                want = _image(t_el, want)
            got = _image(list(c.filltr), r)
            yield f'{tag}:fill-transformation-as-a-map', And(*[close(a, b) for a, b in zip(got, want)])


_DEV_STATE = {}


def _install_develop_hooks():
    def base_vectors(name):
        def hook(it, f, args, kw):
            vecs = _DEV_STATE['vecs']
            it.p.calls.append({'callee': name, 'args': list(args), 'kw': {}, 'result': vecs})
            return [tuple(v) for v in vecs]
        hook.callee_name = name
        return hook

    def compose(it, f, args, kw):
        t1, t2 = list(args[0]), list(args[1])
        from pyvc.interp import _b
        it.p.oblige('callee-precondition:compose_transform', _b(_compose_pre(t1, t2)))
        res = _spec_compose(t1, t2)
        it.p.calls.append({'callee': 'compose_transform', 'args': [t1, t2], 'kw': {}, 'result': res})
        return res
    compose.callee_name = 'compose_transform'
    _Develop.hooks = {
        _CC.extract_surfaces: lambda it, f, args, kw: 'SURFACES',
        _CCMOD.squareLatticeBaseVectors: base_vectors('squareLatticeBaseVectors'),
        _CCMOD.hexLatticeBaseVectors: base_vectors('hexLatticeBaseVectors'),
        _CC.cell_transform: _lat_transform_hook(),
        _TRMOD.compose_transform: compose,
    }


_install_develop_hooks()


LEVEL = {'C06': 'other'}


def _sweep_c06(tier, seed):
    from harness.sweeps import deck_sweep
    return deck_sweep('C06', tier, seed, families=('lattice',), n_quick=64, n_thorough=800)


BOUNDED = {'C06': [_sweep_c06]}
EXPLANATION = {'C06': (
    'Proved for all inputs on the real code: latticeVector (1-3 D), latticeReciprocal (biorthogonality, 1-3 D), '
    'squareLatticeBaseVectors for 1, 2 and 3 pairs of parallel planes in every listing sense (a_k carries the '
    'second-listed plane onto the first-listed one, is parallel to the other pairs, a_k.outward = signed distance: '
    'index grows across the first-listed surface), wrong surface counts -> LatticeError. Bounded, exhaustive within '
    'the stated scope: LatticeBounds.indices/size/dims (first index fastest), LatticeSpec.items and length check, '
    'to_fillid, parse_lattice. Bounded (deck sweep, family lattice): develop_lattice placement, universe 0 / own '
    'universe / filler universes, ranges, FILL=n with --lattice incl. rotated FILL transformation.')}
ASSUMPTIONS = {'C06': [
    'MCNP lattice convention (specs / deck oracle): element (i,j,k) = unit cell + i a1 + j a2 + k a3, a_m maps the '
    'second-listed plane of pair m onto the first-listed one; FILL array first index fastest',
    'develop_lattice: discharged modular contract on concrete FILL arrays (4 shapes x LAT 1/2 x 4 transformation settings) with symbolic base vectors; callees by contract (cell_transform, compose_transform with its precondition, base vectors); a cell carries at most one TRCL',
    'LatticeSpec.__getitem__ with a tuple is dead code in the converter and is not under contract',
]}
