"""C15 -- LIKE n BUT equals the explicit cell card it abbreviates."""
import itertools
from collections import OrderedDict

from t4_geom_convert.Kernel.FileHandlers.Parser.ParseMCNPCell import ParseMCNPCell, ParseMCNPCellError

from MIP.mip import cellcard

from pyvc.contract import contract
from pyvc.sym import And
from contracts.c12 import _bare_parser

BASE_OPTS = [
    OrderedDict(),
    OrderedDict([('imp:n', '1')]),
    OrderedDict([('imp:n', '1'), ('u', '2')]),
    OrderedDict([('imp:n', '2'), ('fill', '3')]),
    OrderedDict([('imp:n', '1'), ('trcl', '(1 0 0)'), ('u', '4')]),
    OrderedDict([('u', '2'), ('fill', '5 (0 0 1)'), ('imp:n', '1')]),
    # a lattice cell filled with one universe: the ranges come from the --lattice option given for the cell ITSELF
    OrderedDict([('imp:n', '1'), ('lat', '1'), ('fill', '7'), ('u', '4')]),
]
BUT_OPTS = {
    'mat': ['7'], 'rho': ['-3.50', '2.0-2'], 'u': ['9'], 'fill': ['6', '6 (2 0 0)'], 'trcl': ['(0 3 0)', '4'],
    'imp:n': ['0', '3'],
}


def _but_sets(maxn):
    keys = list(BUT_OPTS)
    for n in range(0, maxn + 1):
        for ks in itertools.combinations(keys, n):
            for vals in itertools.product(*[BUT_OPTS[k] for k in ks]):
                yield OrderedDict(zip(ks, vals))


def _opts_text(d):
    return ' '.join(f'{k.upper()}={v}' for k, v in d.items())


def _fill_view(f):
    if hasattr(f, 'bounds') and hasattr(f, 'spec'):
        return ('array', [tuple(b) for b in f.bounds.bounds], list(f.spec))
    return repr(f)


def _fields(c):
    return (c.materialID, c.density, repr(c.geometry), c.importance, c.universe, _fill_view(c.fillid), tuple(c.filltr or ()),
            c.lattice, [tuple(t) for t in c.trcl])


@contract(ParseMCNPCell.parse_one_cell, props=['C15', 'C05', 'C09', 'C12', 'C04', 'C06'], name='ParseMCNPCell.parse_one_cell[LIKE-BUT]', status='B')
class _LikeBut:
    """parse(LIKE n BUT changes) == parse(card n with the listed parameters overridden), field by field (material,
    density, geometry, importance, universe, fill, fill transformation, TRCL), including a chain LIKE m BUT .. ->
    LIKE n BUT .. -> n."""
    scope = ('6 base cards x every set of <= 2 overridden parameters among mat, rho, u, fill, trcl, imp (1-2 values '
             'each) x direct and chained LIKE, plus the same parameter overridden at both levels of a chain')

    def bounded(tier):
        for bi, base in enumerate(BASE_OPTS):
            for but in _but_sets(2 if tier == 'quick' else 3):
                yield {'bi': bi, 'but': but, 'chain': False}
                if len(but) == 2:
                    yield {'bi': bi, 'but': but, 'chain': True}
                # the abbreviated cell is void: a material can only come together with its density
                if ('mat' in but) == ('rho' in but):
                    yield {'bi': bi, 'but': but, 'chain': False, 'void': True}
                    if len(but) == 2:
                        yield {'bi': bi, 'but': but, 'chain': True, 'void': True}
            # the same parameter overridden at two levels of a chain: the innermost LIKE card wins
            for k, vals in BUT_OPTS.items():
                if len(vals) == 2:
                    yield {'bi': bi, 'but': OrderedDict([(k, vals[1])]), 'chain': (k, vals[0])}
                    yield {'bi': bi, 'but': OrderedDict([(k, vals[0])]), 'chain': (k, vals[1])}
                    # ... and at two intermediate levels of a chain of three LIKE cards (the last card changes
                    # nothing, or another parameter): the later of the two intermediate cards wins
                    yield {'bi': bi, 'but': OrderedDict([(k, vals[1])]), 'chain': ('3links', k, vals[0], None)}
                    other = 'u' if k != 'u' else 'imp:n'
                    yield {'bi': bi, 'but': OrderedDict([(k, vals[0]), (other, BUT_OPTS[other][0])]),
                           'chain': ('3links', k, vals[1], other)}
            yield {'bi': bi, 'but': OrderedDict([('mat', '7'), ('rho', '2.0-2')]), 'chain': ('3links-matrho', '5', '-3.50')}

    def call(bi, but, chain, void=False):
        from harness import shim
        shim.install()
        base = BASE_OPTS[bi]
        p = _bare_parser(importances=[1.0, 1.0, 1.0])
        p.transforms = OrderedDict([(4, [5.0, 0.0, 0.0, 1.0, 0.0, 0.0, 0.0, 1.0, 0.0, 0.0, 0.0, 1.0])])
        lat_opt = None
        if 'lat' in base:
            from t4_geom_convert.Kernel.Volume.Lattice import LatticeBounds
            lat_opt = LatticeBounds([(0, 3), (10, 10)])                      # option given for the LIKE cell
            p.lattice_params = {10: LatticeBounds([(0, 1), (0, 0)]), 20: LatticeBounds([(-1, 0)])}   # ... for the others
        cards = OrderedDict()
        cards[10] = ('0' if void else '2 -1.5', '-1 2', _opts_text(base))
        if isinstance(chain, tuple) and chain[0] == '3links':
            _, k, v_first, other = chain
            cards[20] = ('', 'like 10 but', _opts_text({k: v_first}))
            cards[30] = ('', 'like 20 but', _opts_text({k: but[k]}))
            cards[40] = ('', 'like 30 but', _opts_text({other: but[other]}) if other else '')
            like = p.parse_one_cell(cards, 2, lat_opt, cards[40])
        elif isinstance(chain, tuple) and chain[0] == '3links-matrho':
            cards[20] = ('', 'like 10 but', _opts_text({'mat': chain[1], 'rho': chain[2]}))
            cards[30] = ('', 'like 20 but', _opts_text({'mat': but['mat'], 'rho': but['rho']}))
            cards[40] = ('', 'like 30 but', 'U=9')
            but = OrderedDict(list(but.items()) + [('u', '9')])
            like = p.parse_one_cell(cards, 2, lat_opt, cards[40])
        elif isinstance(chain, tuple):
            (k2, v2), = but.items()
            cards[20] = ('', 'like 10 but', _opts_text({chain[0]: chain[1]}))
            cards[30] = ('', 'like 20 but', _opts_text({k2: v2}))
            like = p.parse_one_cell(cards, 2, lat_opt, cards[30])
        elif chain:
            (k1, v1), (k2, v2) = but.items()
            cards[20] = ('', 'like 10 but', _opts_text({k1: v1}))
            cards[30] = ('', 'like 20 but', _opts_text({k2: v2}))
            like = p.parse_one_cell(cards, 2, lat_opt, cards[30])
        else:
            cards[20] = ('', 'like 10 but', _opts_text(but))
            like = p.parse_one_cell(cards, 1, lat_opt, cards[20])
        # the explicit card: copy of card 10 with the listed parameters overridden
        mat = but.get('mat', '0' if void else '2')
        rho = but.get('rho', '' if void else '-1.5')
        merged = OrderedDict(base)
        for k, v in but.items():
            if k not in ('mat', 'rho'):
                merged[k] = v
        explicit = p.parse_one_cell_worker(1, lat_opt, (f'{mat} {rho}'.strip(), '-1 2', _opts_text(merged)))
        return _fields(like), _fields(explicit)

    def ensures(result, bi, but, chain, void=False):
        like, explicit = result
        names = ('material', 'density', 'geometry', 'importance', 'universe', 'fill', 'fill-transformation', 'lattice',
                 'trcl')
        for n, a, b in zip(names, like, explicit):
            yield f'same-{n}', a == b


_SPLIT_OPTS = ['', 'IMP:N=1', '*TRCL=(0 0 0 30 60 90 120 30 90 90 90 0)', 'U=2 *FILL=3 (1 0 0)', '*FILL=3 (1 0 0 0 90 90 90 0 90 90 90 0) U=2',
               'trcl=4', 'MAT=7 RHO=-2.5', 'imp:n=0 u=3', 'FILL=6 (2 0 0) *TRCL=(1 1 1)', 'RHO=2.0-2', 'VOL=1.5 TMP=2.53e-8']
_SPLIT_GEOMS = ['-1 2', '(1:2) -3', '#(1 2)', '-1.1 2', '#5 (3:-4)', '(1:2)']


@contract(cellcard.split, props=['C15', 'C11'], name='cellcard.split', status='B')
class _Split:
    """The MIP card splitter hands over name, material, geometry and the option text unchanged: nothing is dropped or
    added, in particular not the star of a starred keyword that comes first (LIKE n BUT *TRCL=..) and not a keyword."""
    scope = ('LIKE cards (3 spellings of LIKE n BUT) and explicit cards (void / non-void, 6 geometries) x 11 option '
             'texts incl. starred keywords first, lower case, Fortran exponents')

    def bounded(tier):
        for opts in _SPLIT_OPTS:
            for like in ('like 3 but', 'LIKE 12 BUT', 'Like  3   But'):
                yield {'kind': 'like', 'head': like, 'geom': '', 'opts': opts}
            for geom in _SPLIT_GEOMS:
                yield {'kind': 'void', 'head': '0', 'geom': geom, 'opts': opts}
                yield {'kind': 'mat', 'head': '2 -1.5', 'geom': geom, 'opts': opts}
                yield {'kind': 'mat', 'head': '11 6.0-2', 'geom': geom, 'opts': opts}

    def call(kind, head, geom, opts):
        txt = ' '.join(x for x in ('20', head, geom, opts) if x)
        return cellcard.split(txt)

    def ensures(result, kind, head, geom, opts):
        name, mat, g, o = result
        yield 'name', name.strip() == '20'
        yield 'options-verbatim', o.strip() == opts
        if kind == 'like':
            yield 'like-part', g.split() == head.split() and mat == ''
        else:
            yield 'material', mat.split() == head.split()
            yield 'geometry', g.strip() == geom


_LIKE_DECKS = [
    # (label, cell block with LIKE cards, the same block written out)
    ('lower-importance', '10 1 -2.0 -1 imp:n=1\n20 like 10 but imp:n=0 u=2\n30 0 1 imp:n=0',
     '10 1 -2.0 -1 imp:n=1\n20 1 -2.0 -1 imp:n=0 u=2\n30 0 1 imp:n=0'),
    ('raise-importance', '10 1 -2.0 -1 imp:n=0\n20 like 10 but imp:n=2 u=2\n30 0 1 imp:n=0',
     '10 1 -2.0 -1 imp:n=0\n20 1 -2.0 -1 imp:n=2 u=2\n30 0 1 imp:n=0'),
    ('chain-lowering', '10 1 -2.0 -1 imp:n=2\n20 like 10 but u=2\n25 like 20 but imp:n=0 mat=2 rho=-1.0\n30 0 1 imp:n=0',
     '10 1 -2.0 -1 imp:n=2\n20 1 -2.0 -1 imp:n=2 u=2\n25 2 -1.0 -1 imp:n=0 u=2\n30 0 1 imp:n=0'),
    ('forward-reference', '20 like 40 but trcl=(1 0 0) u=3\n40 1 -2.0 -1 imp:n=1\n30 0 1 imp:n=0',
     '20 1 -2.0 -1 imp:n=1 trcl=(1 0 0) u=3\n40 1 -2.0 -1 imp:n=1\n30 0 1 imp:n=0'),
    ('void-base', '10 0 -1 imp:n=1\n20 like 10 but mat=1 rho=-2.0 u=2\n30 0 1 imp:n=0',
     '10 0 -1 imp:n=1\n20 1 -2.0 -1 imp:n=1 u=2\n30 0 1 imp:n=0'),
    ('two-particle-importances', '10 1 -2.0 -1 imp:n=1 imp:p=3\n20 like 10 but imp:p=0 imp:n=0 u=2\n30 0 1 imp:n=0',
     '10 1 -2.0 -1 imp:n=1 imp:p=3\n20 1 -2.0 -1 imp:p=0 imp:n=0 u=2\n30 0 1 imp:n=0'),
]


@contract(ParseMCNPCell.parse, props=['C15', 'C12'], name='ParseMCNPCell.parse[LIKE decks]', status='B')
class _LikeDecks:
    """From the text of the deck to the parsed cells (MIP card reader, get_cells, parse_all_cells, LIKE resolution):
    a deck with LIKE n BUT cards and the same deck written out give the same cells, field by field, and the same list
    of zero-importance cells -- including a BUT that lowers the importance, chains, a reference to a cell defined
    further down, a void cell given a material."""
    scope = '6 small decks (one per LIKE feature)'

    def bounded(tier):
        for label, like, explicit in _LIKE_DECKS:
            yield {'label': label, 'like': like, 'explicit': explicit}

    def call(label, like, explicit):
        from harness import shim
        from contracts.c02 import _mip_of
        shim.install()
        out = []
        for cells in (like, explicit):
            text = f'like test {label}\n{cells}\n\n1 so 1.0\n\nm1 13027 1.0\nm2 1001 2.0 8016 1.0\nmode n p\n'
            import contextlib
            import io
            with contextlib.redirect_stdout(io.StringIO()):
                parsed, skipped = ParseMCNPCell(_mip_of(text), None, {}).parse()
            out.append(({k: _fields(v) for k, v in parsed.items()}, sorted(skipped)))
        return out

    def ensures(result, label, like, explicit):
        (cells_like, skipped_like), (cells_exp, skipped_exp) = result
        yield 'same-cells', cells_like == cells_exp
        yield 'same-zero-importance-cells', skipped_like == skipped_exp


def _sweep_c15(tier, seed):
    from harness.sweeps import deck_sweep
    return deck_sweep('C15', tier, seed, families=('fill',), n_quick=64, n_thorough=600,
                      kw={'retag': ('C01', 'C05', 'C09')}, name='deck-sweep[fill, decks with LIKE cells]')


# ------------------------------------------------------------------ parse_keywords: every value, every short sequence

_KW_ITEMS = ('imp:n', 'imp:p', 'u', 'rho', 'mat', 'fill', '*fill', 'lat', 'trcl', '*trcl', '|')
_KW_IMP = ('imp:n', 'imp:p', '|', 'u')


def _kw_sequences(tier, which):
    n_all, n_imp = (3, 5) if tier != 'thorough' else (4, 6)
    alphabet, n = (_KW_ITEMS, n_all) if which == 'all' else (_KW_IMP, n_imp)
    for k in range(0, n + 1):
        for seq in itertools.product(alphabet, repeat=k):
            if which == 'all' and k and set(seq) <= set(_KW_IMP):
                continue                        # left to the contract with a native replay below
            yield seq


def _kw_spec(res, seq, imps):
    """The reading of an option list that the property states (later keyword wins; importance: see _Keywords)."""
    last = {}
    for i, item in enumerate(seq):
        last[item.lstrip('*')] = i
    yield 'universe:last-occurrence', res.get('u') == ((100 + last['u']) if 'u' in last else None)
    yield 'density:last-occurrence', res.get('density') == (f'rho{last["rho"]}' if 'rho' in last else None)
    yield 'material:last-occurrence', res.get('material') == (f'mat{last["mat"]}' if 'mat' in last else None)
    yield 'lattice:last-occurrence', res.get('lattice') == (('lat', f'lat{last["lat"]}') if 'lat' in last else None)
    if 'trcl' in last:
        i = last['trcl']
        yield 'trcl:last-occurrence', res.get('trcl') == ('trcl', seq[i], f'trcl{i}')
    else:
        yield 'trcl:last-occurrence', res.get('trcl') is None
    if 'fill' in last:
        i = last['fill']
        yield 'fill:last-occurrence', (res.get('f_bounds'), res.get('f_univs'), res.get('f_params')) == \
            (('fb', seq[i], f'fill{i}'), ('fu', seq[i], f'fill{i}'), ('fp', seq[i], f'fill{i}'))
    else:
        yield 'fill:last-occurrence', (res.get('f_bounds'), res.get('f_univs'), res.get('f_params')) == (None, None, None)
    # importance: card levels are separated by the marker; the last level with an importance decides
    levels = [[]]
    for i, item in enumerate(seq):
        if item == '|':
            levels.append([])
        elif item.startswith('imp'):
            levels[-1].append(imps[i])
    levels = [l for l in levels if l]
    if not levels:
        yield 'importance:none-given', res.get('importance') is None
    else:
        from contracts.c12 import _max
        yield 'importance:maximum-over-particle-types-of-the-last-level', res.get('importance') == _max(levels[-1])


@contract(ParseMCNPCell.parse_keywords, props=['C15', 'C12', 'C09', 'C05'], name='ParseMCNPCell.parse_keywords[sequences]')
class _Keywords:
    """The option list of a cell card -- after apply_but has appended the BUT options of every LIKE level behind a
    marker -- read as the property states it: for material, density, universe, fill, lattice and TRCL the LAST
    occurrence wins (an overriding BUT option comes later); the importance is the maximum over the particle types of
    the last card level that gives one (a BUT importance replaces, it is never combined with the copied cell's).
    All importance values are symbolic; the values of the other keywords are opaque tokens; `to_float` and the
    fill / lattice / TRCL sub-parsers are replaced by their contracts (one value consumed, an opaque result)."""
    native = False

    def cases(S):
        import os
        for seq in _kw_sequences(os.environ.get('VERIF_TIER', 'quick'), 'all'):
            yield ','.join(seq) or 'empty', {'seq': seq, 'imps': {i: S.real(f'imp{i}') for i, item in enumerate(seq)
                                                                if item.startswith('imp')}}

    raises = {}

    def ensures(result, seq, imps, calls):
        yield from _kw_spec(result, seq, imps)


@contract(ParseMCNPCell.parse_keywords, props=['C15', 'C12', 'C09'], name='ParseMCNPCell.parse_keywords[importance]')
class _KeywordsImp:
    """The same reading for longer option lists over IMP:N, IMP:P, U and the BUT marker (every sequence of up to 5;
    6 in the thorough tier), all importance values symbolic.  No callee is replaced except `to_float`, and only under
    the interpreter: a counter-model is replayed on the real function with the numbers spelled out."""
    def cases(S):
        import os
        for seq in _kw_sequences(os.environ.get('VERIF_TIER', 'quick'), 'imp'):
            yield ','.join(seq) or 'empty', {'seq': seq, 'imps': {i: S.real(f'imp{i}') for i, item in enumerate(seq)
                                                                if item.startswith('imp')}}

    def requires(seq, imps):
        return And(*[v >= 0 for v in imps.values()]) if imps else True

    raises = {}

    def ensures(result, seq, imps):
        yield from _kw_spec(result, seq, imps)


def _install_kw_hooks():
    from t4_geom_convert.Kernel.FileHandlers.Parser import ParseMCNPCell as PMC
    state = {}

    def to_float(it, f, args, kw):
        return state['values'][args[0]]

    def fill(it, f, args, kw):
        elt, kw_list = args[-2], args[-1]
        tok = kw_list.pop()
        return (('fb', elt, tok), ('fu', elt, tok), ('fp', elt, tok))

    def lat(it, f, args, kw):
        return ('lat', args[-1].pop())

    def trcl(it, f, args, kw):
        elt, kw_list = args[-2], args[-1]
        return ('trcl', elt, kw_list.pop())

    def call(seq, imps):
        from pyvc.sym import is_sym
        tokens, values = [], {}
        for i, item in enumerate(seq):
            tokens.append(item)
            if item == '|':
                continue
            if item.startswith('imp'):
                if is_sym(imps[i]):
                    values[f'imp{i}'] = imps[i]
                    tokens.append(f'imp{i}')
                else:
                    tokens.append(repr(float(imps[i])))          # native replay: the number spelled out
            elif item == 'u':
                tokens.append(str(100 + i))
            else:
                tokens.append(f'{item.lstrip("*")}{i}')
        state['values'] = values
        p = _bare_parser()
        return p.parse_keywords(list(reversed(tokens)))
    _Keywords.hooks = {PMC.to_float: to_float, ParseMCNPCell.parse_fill_kw: fill, ParseMCNPCell.parse_lat_kw: lat,
                       ParseMCNPCell.parse_trcl_kw: trcl}
    _Keywords.call = staticmethod(call)
    _KeywordsImp.hooks = {PMC.to_float: to_float}
    _KeywordsImp.call = staticmethod(call)


_install_kw_hooks()


# ------------------------------------------------------------------ parse_one_cell_worker: what becomes of the keywords

@contract(ParseMCNPCell.parse_one_cell_worker, props=['C15', 'C12', 'C09'], name='ParseMCNPCell.parse_one_cell_worker[glue]')
class _Worker:
    """The cell object built from a card: an overriding material / density among the keywords (only a LIKE n BUT card
    has them) replaces the one of the card, the density normalised; importance from the keywords, otherwise from the
    IMP data cards by the rank of the cell (missing: ParseMCNPCellError); universe 0 unless given; fill, fill
    transformation, lattice as parsed; at most one TRCL, as a list.  parse_material, get_ast, parse_keywords,
    to_fillid and normalize_float by hook (their own contracts: c09 / c11 / above)."""
    native = False

    def cases(S):
        for given in itertools.product((False, True), repeat=5):
            for rank in (0, 1, 2):
                for void in (False, True):
                    label = ''.join(k for k, g in zip('IUMDT', given) if g) or 'none'
                    yield f'{label}/rank{rank}{"/void" if void else ""}', {'given': given, 'rank': rank, 'void': void, 'S_': S}

    raises = {ParseMCNPCellError: lambda given, rank, void, S_, calls=None: (not given[0]) and rank >= 2}

    def ensures(result, given, rank, void, S_, calls):
        cell, imps, imp_kw, kws_seen = result
        g_imp, g_u, g_mat, g_rho, g_trcl = given
        yield 'options-tokenised', kws_seen['kw_list'] == ['imp:n', '1', 'u', '2', 'fill', '3', 'x', 'y', '*trcl', '4']
        yield 'material', cell.materialID == ('MAT_BUT' if g_mat else ('0' if void else 'MAT_CARD'))
        yield 'density', cell.density == (('norm', 'RHO_BUT') if g_rho else (None if void else 'RHO_CARD'))
        yield 'geometry', cell.geometry == ('AST', 'GEOMETRY TEXT')
        yield 'importance', cell.importance == (imp_kw if g_imp else imps[rank])
        yield 'universe', cell.universe == (7 if g_u else 0)
        yield 'fill', cell.fillid == ('FILLID', 'LATOPT') and cell.filltr == 'F_PARAMS' and cell.lattice == 'LATTICE'
        yield 'trcl', cell.trcl == (['TRCL'] if g_trcl else [])


def _install_worker_hooks():
    from collections import defaultdict
    from t4_geom_convert.Kernel.FileHandlers.Parser import ParseMCNPCell as PMC
    state = {}

    def parse_material(it, f, args, kw):
        return ('0', None) if state['void'] else ('MAT_CARD', 'RHO_CARD')

    def get_ast(it, f, args, kw):
        return ('AST', args[0])

    def parse_keywords(it, f, args, kw):
        state['seen']['kw_list'] = list(reversed(args[-1]))
        g_imp, g_u, g_mat, g_rho, g_trcl = state['given']
        kws = defaultdict(lambda: None)
        kws.update({'f_bounds': 'F_BOUNDS', 'f_univs': 'F_UNIVS', 'f_params': 'F_PARAMS', 'lattice': 'LATTICE'})
        if g_imp:
            kws['importance'] = state['imp_kw']
        if g_u:
            kws['u'] = 7
        if g_mat:
            kws['material'] = 'MAT_BUT'
        if g_rho:
            kws['density'] = 'RHO_BUT'
        if g_trcl:
            kws['trcl'] = 'TRCL'
        return kws

    def to_fillid(it, f, args, kw):
        return ('FILLID', args[-1])

    def normalize_float(it, f, args, kw):
        return ('norm', args[0])

    def call(given, rank, void, S_):
        state.update(given=given, void=void, seen={}, imp_kw=S_.real('imp_kw'))
        imps = S_.reals(['imp_rank0', 'imp_rank1'])
        p = _bare_parser(importances=list(imps))
        cell = p.parse_one_cell_worker(rank, 'LATOPT', ('MATERIAL TEXT', 'GEOMETRY TEXT', 'IMP:N=1 U=2 FILL=3 (X Y) *TRCL=4'))
        return cell, imps, state['imp_kw'], state['seen']
    _Worker.hooks = {ParseMCNPCell.parse_material: parse_material, PMC.get_ast: get_ast,
                     ParseMCNPCell.parse_keywords: parse_keywords, ParseMCNPCell.to_fillid: to_fillid,
                     PMC.normalize_float: normalize_float}
    _Worker.call = staticmethod(call)


_install_worker_hooks()


BOUNDED = {'C15': [_sweep_c15]}
LEVEL = {'C15': 'other'}
EXPLANATION = {'C15': (
    'Proved (sequence length bounded, values unbounded) on the real parse_keywords: for every sequence of up to 3 '
    'keywords over the full alphabet (imp:n, imp:p, u, rho, mat, fill, *fill, lat, trcl, *trcl, BUT marker) and up to 5 '
    'over imp / marker / u (4 and 6 in the thorough tier), with symbolic importances and opaque values, the last '
    'occurrence of a keyword wins and the importance is the maximum over the particle types of the last card level '
    'that gives one; and on the real parse_one_cell_worker: what the keywords become in the cell object (overriding '
    'material, normalised density, importance or the IMP data card by rank, universe, fill, TRCL). '
    'Bounded, exhaustive within the stated scope, on the real parse_one_cell / apply_but / parse_keywords: the cell '
    'object parsed from a LIKE n BUT card (direct and chained) equals, field by field, the cell object parsed from the '
    'explicit card with the listed parameters overridden. The card splitter (cellcard.split, regular expressions) is '
    'under a bounded contract of its own (option text handed over verbatim); it is also exercised by the deck sweep of this property (family fill: universes '
    're-used through LIKE copies of all their cells with U=, FILL=, MAT=, RHO= overridden; owner, provenance and '
    'composition of every probe point against the deck oracle).')}
ASSUMPTIONS = {'C15': ['cellcard.split: bounded contract only (regular expressions are outside the proved subset)',
                       'parse_keywords / parse_one_cell_worker: to_float, parse_fill_kw, parse_lat_kw, parse_trcl_kw, '
                       'parse_material, get_ast, to_fillid, normalize_float replaced by hooks (own contracts, bounded)',
                       'the apply_but concatenation and the LIKE_RE loop of parse_one_cell are string operations: bounded only']}
