"""C17 -- unsupported or malformed input stops the run instead of yielding geometry.

One `raises` contract per fault class (several live in the modules of the property the function belongs to and carry
'C17' in their property list: normalize_transform m != 1 (c04), squareLatticeReciprocalVecs surface count and
to_fillid / parse_lattice (c06), MacroBodies.arity (c03), X/Y/Z with three pairs (c02), parse_importance_cards (c12),
mixed-sign fractions (c10)).  This module adds the remaining fault classes, the syntactic obligation that no caller
between a raise site and main() swallows the exception, and whole-run checks on malformed decks."""
import ast
import inspect
import itertools
import os

from t4_geom_convert.Kernel.FileHandlers.Parser import ParseMCNPSurface as PS
from t4_geom_convert.Kernel.FileHandlers.Parser.ParseMCNPCell import ParseMCNPCell, ParseMCNPCellError
from t4_geom_convert.Kernel.Surface.ESurfaceTypeMCNP import ESurfaceTypeMCNP as MS, string_to_enum
from t4_geom_convert.Kernel.Volume.CellConversion import CellConversion
from t4_geom_convert.Kernel.Volume.Lattice import LatticeError

from pyvc.contract import contract
from contracts.c12 import _bare_parser
from contracts import c02

ARITY = {'p': (4, 9), 'px': (1,), 'py': (1,), 'pz': (1,), 'so': (1,), 's': (4,), 'sx': (2,), 'sy': (2,), 'sz': (2,),
         'c/x': (3,), 'c/y': (3,), 'c/z': (3,), 'cx': (1,), 'cy': (1,), 'cz': (1,), 'k/x': (4, 5), 'k/y': (4, 5),
         'k/z': (4, 5), 'kx': (2, 3), 'ky': (2, 3), 'kz': (2, 3), 'sq': (10,), 'gq': (10,), 'tx': (5, 6), 'ty': (5, 6),
         'tz': (5, 6), 'x': (2, 4), 'y': (2, 4), 'z': (2, 4)}      # MCNP manual (TX: 6; 5 = circular section shorthand)


@contract(PS.to_surfaces_mcnp, props=['C17'], name='ParseMCNPSurface.arity')
class _Arity:
    """A surface card with a number of parameters that the mnemonic does not admit never yields a surface: the chain
    raises (ValueError naming the card, or NotImplementedError for X/Y/Z with three pairs)."""
    def cases(S):
        for mn, ok in ARITY.items():
            for n in range(0, 12):
                if n in ok or (mn in 'xyz' and n == 6):
                    continue
                yield f'{mn}/{n}', {'mn': mn, 'p': S.reals([f'a{i}' for i in range(n)])}

    def call(mn, p):
        return c02.chain(mn, p)

    raises = {ValueError: lambda mn, p: True}

    def ensures(result, mn, p):
        return []


@contract(string_to_enum, props=['C17'], name='ESurfaceTypeMCNP.string_to_enum', status='B')
class _Mnemonic:
    """Unknown mnemonics are rejected; known ones map to their enum member whatever the letter case."""
    scope = 'all 42 mnemonics in three spellings, 11 unknown spellings'

    def bounded(tier):
        for m in MS:
            name = m.name.replace('_', '/')
            for sp in (name, name.lower(), name.capitalize()):
                yield {'s': sp, 'want': m}
        for bad in ('q', 'pxx', 'c//x', 'sphere', '', 'p x', 'tt', 'box2', 'ar', 'h', 'c/w'):
            yield {'s': bad, 'want': None}

    def call(s, want):
        return string_to_enum(s)

    raises = {ValueError: lambda s, want: want is None}

    def ensures(result, s, want):
        yield 'member', result is want


@contract(ParseMCNPCell.parse_fill_kw, props=['C17', 'C06'], name='ParseMCNPCell.parse_fill_kw[array-length]', status='B')
class _FillLen:
    """A FILL array must contain exactly as many universes as its ranges declare: too few or too many are rejected
    (ParseMCNPCellError); the right number is returned in order."""
    scope = 'ranges of 1..2 dimensions with bounds in [-1, 1] x array lengths size-1, size, size+1, size+2'

    def bounded(tier):
        from contracts.c06 import _all_bounds, _size
        for b in _all_bounds(2, -1, 1):
            size = _size(b)
            for n in (size - 1, size, size + 1, size + 2):
                if n >= 1:
                    yield {'bounds': b, 'n': n}

    def call(bounds, n):
        p = _bare_parser()
        toks = [f'{lo}:{hi}' for lo, hi in bounds] + [str(3 + (i % 2)) for i in range(n)] + ['imp:n', '1']
        kw = list(reversed(toks))
        first = kw.pop()
        kw.append(first)
        kw_list = list(reversed(toks))
        kw_list.pop()
        kw_list.append(toks[0])
        # parse_fill_kw pops its own first argument: hand it the list exactly as parse_keywords does
        kw_list = list(reversed(toks))
        res = p.parse_fill_kw('fill', kw_list)
        return res, list(reversed(kw_list))

    raises = {ParseMCNPCellError: lambda bounds, n: n != __import__('contracts.c06', fromlist=['_size'])._size(bounds)}

    def ensures(result, bounds, n):
        (fb, fu, fp), rest = result
        yield 'universes-in-order', fu == [3 + (i % 2) for i in range(n)] and list(fb) == bounds
        yield 'no-transformation', fp == ()
        yield 'following-keyword-untouched', rest == ['imp:n', '1']


@contract(CellConversion.develop_lattice, props=['C17', 'C06', 'C07'], name='CellConversion.develop_lattice[dimensions]', status='B')
class _LatDims:
    """Ranges whose number of non-trivial dimensions differs from the number of plane pairs of the lattice cell are
    rejected (LatticeError) -- checked through the real converter on small lattice decks."""
    scope = '1-D and 2-D LAT=1 cells x declared ranges with 0..3 non-trivial dimensions'

    def bounded(tier):
        for ndim in (1, 2):
            for ranges in (['0:0'], ['0:1'], ['0:1', '0:1'], ['0:1', '0:0'], ['0:0', '0:1'], ['0:1', '0:1', '0:1'],
                           ['0:0', '0:0', '0:1'], ['-1:1', '0:0', '0:0']):
                yield {'ndim': ndim, 'ranges': ranges}

    def call(ndim, ranges):
        from harness import run
        planes = '-1 2' + (' -3 4' if ndim == 2 else '')
        deck = ('lat\n10 0 -9 FILL=5 IMP:N=1\n11 0 9 IMP:N=0\n20 1 -1.0 ' + planes + ' U=5 LAT=1 FILL=6 IMP:N=1\n'
                '30 1 -1.0 -8 U=6 IMP:N=1\n31 1 -2.0 8 U=6 IMP:N=1\n\n1 PX 1\n2 PX 0\n3 PY 1\n4 PY 0\n8 SO 0.2\n9 SO 3\n\n'
                'm1 13027 1\nmode n\n')
        text, out, exc = run.convert(deck, lattice=['20,' + ','.join(ranges)])
        if exc is not None:
            raise exc
        return text

    # as many ranges as plane pairs: always admissible (a trivial range is a single row of elements); otherwise the
    # number of non-trivial ranges must be the number of plane pairs
    raises = {LatticeError: lambda ndim, ranges: len(ranges) != ndim and
              sum(1 for r in ranges if len(set(r.split(':'))) == 2) != ndim}

    def ensures(result, ndim, ranges):
        yield 'converted', 'VOLU' in result


# ------------------------------------------------------------------ nobody swallows the errors (syntactic obligation)

ALLOWED_HANDLERS = {
    # (file suffix, function, exception text): why it may end without re-raising
    ('Parser/ParseMCNPCell.py', 'parse', 'IOError'): 'cache file missing: the cells are parsed instead (only with --cache)',
    ('Writer/WriteT4Geometry.py', 'convertMCNPGeometry', '<bare>'): 'cache unreadable: recomputed (only with --cache); '
    'a bare except is reachable only under --cache -- recorded as an assumption',
    ('t4_geom_convert/__init__.py', '<module>', 'ModuleNotFoundError'): 'version lookup at import time',
    ('mip/main.py', '__init__', 'Exception'): 'MIP closes the file and re-raises',
    ('geom/another_parser.py', '<module>', 'Exception'): 'script section, not imported by the converter',
}


def swallow_check(tier, seed):
    """Every `try` of the converter and of MIP: each handler either ends in `raise` (possibly with a better message) or
    is listed above with its justification.  A new handler that does not re-raise is a violated obligation."""
    import t4_geom_convert
    import MIP
    roots = [os.path.dirname(t4_geom_convert.__file__), os.path.dirname(MIP.__file__)]
    n_obl = 0
    fails = []
    listed = []
    for root in roots:
        for dp, dn, fns in os.walk(root):
            if any(x in dp for x in ('UnitTests', 'IntegrationTests', '__pycache__')):
                continue
            for fn in fns:
                if not fn.endswith('.py') or fn.startswith('test') or fn == 'conftest.py':
                    continue
                path = os.path.join(dp, fn)
                tree = ast.parse(open(path).read())
                funcs = {}
                for node in ast.walk(tree):
                    for child in ast.iter_child_nodes(node):
                        child._parent = node
                for node in ast.walk(tree):
                    if not isinstance(node, ast.Try):
                        continue
                    par = node
                    fname = '<module>'
                    while hasattr(par, '_parent'):
                        par = par._parent
                        if isinstance(par, (ast.FunctionDef, ast.AsyncFunctionDef)):
                            fname = par.name
                            break
                    for h in node.handlers:
                        n_obl += 1
                        exc = ast.unparse(h.type) if h.type is not None else '<bare>'
                        reraises = any(isinstance(s, ast.Raise) for s in ast.walk(ast.Module(body=h.body, type_ignores=[])))
                        last_is_raise = bool(h.body) and isinstance(h.body[-1], ast.Raise)
                        key = next((k for k in ALLOWED_HANDLERS if path.endswith(k[0]) and k[1] == fname
                                    and k[2] == exc), None)
                        # a handler for ONE specific exception type that computes a fallback (returns a value, or
                        # binds names by calling something) is an alternative way of doing the same thing, e.g.
                        # `try: x = float(t)  except ValueError: x = parse_fortran(t)`; whether an error gets lost is
                        # then decided by the malformed-deck runs.  Only handlers that can hide an error stay
                        # obligations: broad ones (bare, Exception, BaseException, tuples) and those that compute nothing.
                        broad = h.type is None or isinstance(h.type, ast.Tuple) or exc in ('Exception', 'BaseException')
                        computes = any(isinstance(s_, ast.Return) and s_.value is not None for s_ in ast.walk(ast.Module(body=h.body, type_ignores=[]))) \
                            or any(isinstance(s_, (ast.Assign, ast.AugAssign)) and any(isinstance(n_, ast.Call) for n_ in ast.walk(s_))
                                   for s_ in h.body)
                        fallback = not broad and computes and not last_is_raise and key is None
                        listed.append(f'{os.path.relpath(path, os.path.dirname(root))}:{h.lineno} {fname} except {exc}: '
                                      + ('re-raises' if last_is_raise else f'allowed ({ALLOWED_HANDLERS[key]})' if key
                                         else 'ADVISORY: computes a fallback for one exception type; decided by the '
                                              'malformed-deck runs' if fallback else 'SWALLOWS'))
                        if fallback:
                            continue
                        if not last_is_raise and key is None:
                            fails.append({'label': 'handler-does-not-re-raise', 'case': f'{fn}:{h.lineno}',
                                          'detail': f'{path}:{h.lineno} in {fname}: except {exc} does not end in raise',
                                          'no_input': True})
    return {'name': 'non-swallowing-handlers', 'kind': 'static (AST of every try statement of t4_geom_convert and MIP)',
            'obligations': n_obl, 'discharged': n_obl - len(fails), 'evaluations': 0, 'distinct_nontrivial': 0,
            'handlers': listed, 'failures': fails}


# ------------------------------------------------------------------ whole runs on malformed decks

BASE = ('malformed\n1 1 -1.0 -1 IMP:N=1\n2 0 1 IMP:N=0\n\n1 SO 1.0\n\nm1 13027 1.0\nmode n\n')

MALFORMED = {
    'tr-with-m=-1': BASE.replace('1 SO 1.0', '1 4 SO 1.0').replace('m1 ', 'TR4 1 0 0  1 0 0 0 1 0 0 0 1 -1\nm1 '),
    'starred-trcl-with-m=-1': BASE.replace('-1 IMP:N=1', '-1 IMP:N=1 *TRCL=(1 0 0 0 90 90 90 0 90 90 90 0 -1)'),
    'lattice-without-option': ('l\n10 0 -9 FILL=5 IMP:N=1\n11 0 9 IMP:N=0\n20 1 -1.0 -1 2 U=5 LAT=1 FILL=6 IMP:N=1\n'
                               '30 1 -1.0 -8 U=6 IMP:N=1\n31 1 -2.0 8 U=6 IMP:N=1\n\n1 PX 1\n2 PX 0\n8 SO 0.2\n9 SO 3\n\n'
                               'm1 13027 1\nmode n\n'),
    'surplus-surface-parameter': BASE.replace('1 SO 1.0', '1 SO 1.0 7.0'),
    'missing-surface-parameter': BASE.replace('1 SO 1.0', '1 S 0 0 1.0'),
    'macrobody-arity': BASE.replace('1 SO 1.0', '1 RPP -1 1 -1 1 -1'),
    'unknown-mnemonic': BASE.replace('1 SO 1.0', '1 QQ 1.0'),
    'facet-index-beyond-the-body': BASE.replace('1 SO 1.0', '1 RPP -1 1 -1 1 -1 1').replace(' -1 IMP:N=1', ' -1.7 IMP:N=1'),
    'fill-array-too-short': ('l\n10 0 -9 FILL=5 IMP:N=1\n11 0 9 IMP:N=0\n20 1 -1.0 -1 2 U=5 LAT=1 FILL=0:2 0:0 0:0 6 6 IMP:N=1\n'
                             '30 1 -1.0 -8 U=6 IMP:N=1\n31 1 -2.0 8 U=6 IMP:N=1\n\n1 PX 1\n2 PX 0\n8 SO 0.2\n9 SO 3\n\n'
                             'm1 13027 1\nmode n\n'),
    'fill-array-too-long': ('l\n10 0 -9 FILL=5 IMP:N=1\n11 0 9 IMP:N=0\n20 1 -1.0 -1 2 U=5 LAT=1 FILL=0:1 0:0 0:0 6 6 6 IMP:N=1\n'
                            '30 1 -1.0 -8 U=6 IMP:N=1\n31 1 -2.0 8 U=6 IMP:N=1\n\n1 PX 1\n2 PX 0\n8 SO 0.2\n9 SO 3\n\n'
                            'm1 13027 1\nTR6 0 0 0\nmode n\n'),
    'imp-cards-of-unequal-length': BASE.replace(' IMP:N=1', '').replace(' IMP:N=0', '').replace(
        'mode n', 'imp:n 1 0\nimp:p 1\nmode n p'),
    'imp-cards-of-unequal-length,every-cell-with-its-own-keyword': BASE.replace('mode n', 'imp:n 1 0 1\nimp:p 1 0\nmode n p'),
    'mixed-sign-fractions': BASE.replace('m1 13027 1.0', 'm1 1001 -0.1 8016 0.9'),
}
MALFORMED_OPTS = {'malformed-lattice-option': (BASE, ['1,0:x'])}


def malformed_runs(tier, seed):
    from harness import run
    fails = []
    n = 0
    cases = [(k, v, []) for k, v in MALFORMED.items()] + [(k, v[0], v[1]) for k, v in MALFORMED_OPTS.items()]
    ok_text, ok_out, ok_exc = run.convert(BASE)
    if ok_exc is not None or 'finished at' not in ok_out:
        fails.append({'label': 'well-formed-reference-deck-does-not-convert', 'case': 'reference',
                      'detail': f'{ok_exc!r}'})
    for name, deck, lat in cases:
        n += 1
        text, out, exc = run.convert(deck, lattice=lat)
        if exc is None or 'finished at' in out:
            fails.append({'label': f'run-finished-normally:{name}', 'case': name,
                          'detail': f'exception {exc!r}; stdout tail {out[-120:]!r}', 'deck': deck, 'lattice': lat})
        elif len(str(exc).strip()) < 5:
            fails.append({'label': f'error-does-not-name-the-problem:{name}', 'case': name,
                          'detail': f'{type(exc).__name__}: {exc!r}', 'deck': deck})
    return {'name': 'malformed-decks', 'kind': 'bounded (real conversion of one malformed deck per fault class)',
            'evaluations': n, 'distinct_nontrivial': n, 'rule': 'one deck / command line per fault class named by the '
            'property; the run must raise and must not print the "finished at" banner', 'failures': fails}


BOUNDED = {'C17': [malformed_runs]}
STATIC = {'C17': [swallow_check]}
LEVEL = {'C17': 'other'}
EXPLANATION = {'C17': (
    'Exceptional postconditions (`raises` contracts) on the real functions, one per fault class of the property: '
    'discharged under the interpreter for every parameter vector where the fault is an arity (surface cards: 29 '
    'mnemonics x every inadmissible count 0..11; macrobodies; X/Y/Z with three pairs; normalize_transform with m != '
    '1; IMP cards of unequal length), evaluated exhaustively over stated scopes where it is token-level (mnemonic '
    'spelling, FILL array length, --lattice spelling, lattice dimensionality, mixed-sign fractions). Syntactic '
    'obligation: every exception handler of t4_geom_convert and MIP ends in `raise` or is listed with its '
    'justification, so no caller swallows these errors on the way to main(). Whole runs: one malformed deck per '
    'fault class must raise and must not reach the "finished at" banner.')}
ASSUMPTIONS = {'C17': [
    'argparse (command-line parsing) is trusted',
    'the two bare `except:` handlers of convertMCNPGeometry are reachable only with --cache',
    'an error "naming the problem" is checked only as: an exception with a non-trivial message reaches the caller',
]}
