"""Sidecar contracts on the real functions of /repo (never an edit of /repo)."""
