"""C13 -- de-duplication and inlining options never change the geometry.

  SurfaceT4.__eq__            equal surfaces have the same implicit function at every point (all 17 types, with and
                              without TRANSFORM), so merging equal surfaces cannot move a boundary  -- proved
  inline_cells_worker         every to_inline set preserves the denotation                           -- proved (c01)
  pot_fill                    the four inline_filled x inline_filling branches                        -- proved (c05)
  remove_duplicate_surfaces / renumber_surfaces   bounded, exhaustive over small dictionaries
  whole run under the 2^3 flags x scores          bounded (deck sweep, same point -> same provenance & composition)
"""
import itertools
import numpy as np

from t4_geom_convert.Kernel.Surface.SurfaceT4 import SurfaceT4
from t4_geom_convert.Kernel.Surface.ESurfaceTypeT4 import ESurfaceTypeT4 as T4S
from t4_geom_convert.Kernel.Surface import Duplicates as DUP
from t4_geom_convert.Kernel.Surface.CollectionDict import CollectionDict
from t4_geom_convert.Kernel.Volume.VolumeT4 import VolumeT4
from t4_geom_convert.Kernel.Volume.DictVolumeT4 import DictVolumeT4

from pyvc.contract import contract
from pyvc.npmodel import SymArray
from pyvc.sym import And, Or, Not, implies, iff, is_sym
from specs.surfaces import t4_view
from harness.t4file import SURF_ARITY


def _surf(S, typ, prefix, transform):
    params = S.reals([f'{prefix}{i}' for i in range(SURF_ARITY[typ.name])])
    tr = None
    if transform:
        t = S.reals([f'{prefix}t{i}' for i in range(3)])
        m = S.reals([f'{prefix}m{i}' for i in range(9)])
        if S.mode == 'sym':
            tr = (SymArray(t, (3,)), SymArray(m, (3, 3)))
        else:
            tr = (np.array(t), np.array(m).reshape(3, 3))
    return SurfaceT4(typ, params, idorigin=[prefix], transform=tr)


@contract(SurfaceT4.__eq__, props=['C13', 'C08', 'C16', 'C04'], name='SurfaceT4.__eq__')
class _Eq:
    """self == other  ==>  same type, and the same implicit function at every point (idorigin plays no role).
    Surfaces of different types are never equal; a transformed surface never equals an untransformed one."""
    def cases(S):
        for typ in T4S:
            for tr_a, tr_b in itertools.product((False, True), repeat=2):
                if typ not in (T4S.TORUSZ, T4S.PLANE, T4S.QUAD, T4S.CYL) and (tr_a or tr_b):
                    continue
                yield f'{typ.name}/transform={int(tr_a)}{int(tr_b)}', {'self': _surf(S, typ, 'a', tr_a),
                                                                       'other': _surf(S, typ, 'b', tr_b)}
        yield 'different-types', {'self': _surf(S, T4S.CYLX, 'a', False), 'other': _surf(S, T4S.CYLY, 'b', False)}

    def ghost(S):
        return {'pt': S.reals('X Y Z')}

    def requires(self, other, pt):
        # radii that are divided by (torus) must be non-zero for the view to be defined
        if self.type_surface.name.startswith('TORUS'):
            return And(*[r != 0 for r in list(self.param_surface[4:6]) + list(other.param_surface[4:6])])
        return True

    def ensures(result, self, other, pt):
        if self.type_surface != other.type_surface:
            yield 'different-types-are-unequal', Not(result) if is_sym(result) else not result
            return
        if (self.transform is None) != (other.transform is None):
            yield 'transformed-vs-untransformed-are-unequal', Not(result) if is_sym(result) else not result
            return
        yield 'equal-means-same-parameters', implies(result, And(*[a == b for a, b in zip(self.param_surface,
                                                                                       other.param_surface)]))
        if self.transform is not None:
            fa = list(self.transform[0].f if hasattr(self.transform[0], 'f') else self.transform[0].ravel()) + \
                list(self.transform[1].f if hasattr(self.transform[1], 'f') else self.transform[1].ravel())
            fb = list(other.transform[0].f if hasattr(other.transform[0], 'f') else other.transform[0].ravel()) + \
                list(other.transform[1].f if hasattr(other.transform[1], 'f') else other.transform[1].ravel())
            yield 'equal-means-same-transform', implies(result, And(*[a == b for a, b in zip(fa, fb)]))
        yield 'equal-means-same-function-everywhere', implies(result, t4_view(self, pt) == t4_view(other, pt))


def _hash_key_hook(it, f, args, kw):
    """builtin hash() replaced by the identity: the contract talks about the key that is hashed."""
    return args[0]


def _flat_key(k):
    out = []
    for x in k:
        if isinstance(x, (tuple, list)):
            out.extend(_flat_key(x))
        else:
            out.append(x)
    return out


@contract(SurfaceT4.__hash__, props=['C13', 'C08', 'C04'], name='SurfaceT4.__hash__[consistent-with-__eq__]')
class _Hash:
    """Two surfaces with the same type, parameters and transform (what __eq__ compares) hash the same key, and the
    key contains nothing else (idorigin plays no role): dictionary de-duplication can rely on __eq__ alone.
    builtin hash() is replaced by the identity, so the statement is about the tuple that is hashed."""
    native = False          # natively hash() returns an int: the statement only makes sense under the hook
    hooks = {hash: _hash_key_hook}

    def cases(S):
        for typ in (T4S.PLANE, T4S.SPHERE, T4S.CYL, T4S.TORUSZ, T4S.QUAD, T4S.CONEX):
            for tr in (False, True):
                if typ not in (T4S.TORUSZ, T4S.PLANE, T4S.QUAD, T4S.CYL) and tr:
                    continue
                yield f'{typ.name}/transform={int(tr)}', {'a': _surf(S, typ, 'a', tr), 'b': _surf(S, typ, 'b', tr)}

    def call(a, b):
        return a.__hash__(), b.__hash__()

    def ensures(result, a, b):
        ka, kb = _flat_key(result[0]), _flat_key(result[1])
        same = [x == y for x, y in zip(a.param_surface, b.param_surface)]
        n_expected = 1 + len(a.param_surface) + (12 if a.transform is not None else 0)
        yield 'key-is-type-parameters-transform', len(ka) == n_expected and len(kb) == n_expected and ka[0] is a.type_surface
        if a.transform is not None:
            for u, v in zip(list(a.transform[0].f) + list(a.transform[1].f), list(b.transform[0].f) + list(b.transform[1].f)):
                same.append(u == v)
        yield 'equal-surfaces-hash-the-same-key', implies(And(*same), And(*[x == y for x, y in zip(ka[1:], kb[1:])]))
        yield 'key-determines-the-surface', implies(And(*[x == y for x, y in zip(ka[1:], kb[1:])]), And(*same))


POOL = [SurfaceT4(T4S.PLANEX, [1.0], ['a']), SurfaceT4(T4S.PLANEX, [1.0], ['b']), SurfaceT4(T4S.PLANEX, [-1.0]),
        SurfaceT4(T4S.SPHERE, [0, 0, 0, 2.0]), SurfaceT4(T4S.SPHERE, [0.0, 0.0, 0.0, 2.0], ['dup']),
        SurfaceT4(T4S.TORUSZ, [0, 0, 0, 3, 1, 1], transform=(np.zeros(3), np.identity(3))),
        SurfaceT4(T4S.TORUSZ, [0, 0, 0, 3, 1, 1], transform=(np.zeros(3), np.array([[1., 0, 0], [0, 0, 1], [0, -1, 0]]))),
        SurfaceT4(T4S.TORUSZ, [0, 0, 0, 3, 1, 1], ['x'], transform=(np.zeros(3), np.identity(3))),
        SurfaceT4(T4S.TORUSZ, [0, 0, 0, 3, 1, 1])]


@contract(DUP.remove_duplicate_surfaces, props=['C13', 'C08', 'C16'], name='Duplicates.remove_duplicate_surfaces', status='B')
class _Dedup:
    """renumbering[k] is a kept id whose surface equals surface k (same type, parameters and transform); kept
    surfaces are pairwise unequal; every id is renumbered; the kept dictionary holds exactly the representatives."""
    scope = 'all dictionaries of 1..4 surfaces drawn from a pool of 9 (duplicates, rotated tori, +-planes) under ids 3,5,8,13'

    def bounded(tier):
        ids = [13, 3, 8, 5]
        for n in range(1, 5):
            for combo in itertools.product(range(len(POOL)), repeat=n):
                yield {'combo': combo, 'ids': ids[:n]}

    def call(combo, ids):
        d = CollectionDict()
        for i, k in zip(combo, ids):
            d[k] = POOL[i]
        import contextlib
        import io
        with contextlib.redirect_stdout(io.StringIO()):
            return DUP.remove_duplicate_surfaces(d), d

    def ensures(result, combo, ids):
        (kept, ren), d = result

        def same(a, b):
            if a.type_surface != b.type_surface or tuple(a.param_surface) != tuple(b.param_surface):
                return False
            if (a.transform is None) != (b.transform is None):
                return False
            return a.transform is None or (np.array_equal(a.transform[0], b.transform[0])
                                           and np.array_equal(a.transform[1], b.transform[1]))
        yield 'every-id-renumbered', set(ren) == set(ids)
        yield 'renumbered-to-an-equal-kept-surface', all(ren[k] in kept and same(kept[ren[k]], d[k]) for k in ids)
        keys = list(kept.keys())
        yield 'kept-surfaces-pairwise-different', all(not same(kept[a], kept[b]) for i, a in enumerate(keys)
                                                      for b in keys[i + 1:])
        yield 'kept-are-representatives', set(keys) == set(ren.values()) and all(ren[k] == k for k in keys)
        # C16 (boundary-condition entries keep the MCNP number): among equal surfaces the smallest number survives,
        # whatever the order of insertion -- known finding F5 is exactly the complementary case
        yield 'smallest-number-of-equal-surfaces-is-kept', all(ren[k] == min(j for j in ids if same(d[j], d[k]))
                                                               for k in ids)


@contract(DUP.renumber_surfaces, props=['C13', 'C08', 'C16'], name='Duplicates.renumber_surfaces', status='B')
class _Renumber:
    """Every surface id of every volume is replaced by its representative, on its own side; nothing else changes."""
    scope = 'volumes with PLUS / MINUS subsets of {1,2,3} and every renumbering of {1,2,3} onto representatives'

    def bounded(tier):
        subsets = [set(c) for n in range(0, 3) for c in itertools.combinations((1, 2, 3), n)]
        rens = [{1: 1, 2: 2, 3: 3}, {1: 1, 2: 1, 3: 3}, {1: 1, 2: 2, 3: 1}, {1: 1, 2: 1, 3: 1}, {1: 1, 2: 2, 3: 2}]
        for pl in subsets:
            for mi in subsets:
                for ren in rens:
                    yield {'pl': pl, 'mi': mi, 'ren': ren}

    def call(pl, mi, ren):
        d = DictVolumeT4()
        d[7] = VolumeT4(pl, mi, ops=('UNION', (9,)), idorigin=[(1, 2)], fictive=False)
        d[9] = VolumeT4(mi, pl, fictive=True)
        import contextlib
        import io
        with contextlib.redirect_stdout(io.StringIO()):
            return DUP.renumber_surfaces(d, ren)

    def ensures(result, pl, mi, ren):
        v = result[7]
        yield 'sides-renumbered', v.pluses == {ren[s] for s in pl} and v.minuses == {ren[s] for s in mi}
        yield 'rest-untouched', v.ops == ('UNION', (9,)) and v.fictive is False and v.idorigin == [(1, 2)]
        yield 'all-volumes', result[9].pluses == {ren[s] for s in mi} and set(result.keys()) == {7, 9}


@contract(DUP.renumber_surfaces, props=['C13', 'C08', 'C16'], name='Duplicates.renumber_surfaces[any-renumbering]')
class _RenumberP:
    """For an arbitrary renumbering (symbolic representatives of surfaces 1..3) and every PLUS / MINUS subset shape:
    a number is on a side of the renumbered volume iff it is the representative of a surface that was on that side."""
    def cases(S):
        subsets = [c for n in range(0, 3) for c in itertools.combinations((1, 2, 3), n)]
        for pl in subsets:
            for mi in subsets:
                yield f'plus={pl}/minus={mi}', {'pl': pl, 'mi': mi,
                                                'ren': dict(zip((1, 2, 3), S.ints(['rep1', 'rep2', 'rep3'])))}

    def call(pl, mi, ren):
        d = DictVolumeT4()
        d[7] = VolumeT4(set(pl), set(mi), ops=('UNION', (9,)), idorigin=[(1, 2)], fictive=False)
        d[9] = VolumeT4(set(mi), set(pl), fictive=True)
        import contextlib
        import io
        with contextlib.redirect_stdout(io.StringIO()):
            res = DUP.renumber_surfaces(d, ren)
        keys = list(res.keys())
        return [(k, res[k].pluses, res[k].minuses, res[k].ops, res[k].fictive, res[k].idorigin) for k in keys]

    def ensures(result, pl, mi, ren):
        def members(x):
            return list(x.items) if not isinstance(x, (set, frozenset)) else list(x)

        def same(label, got, want_keys):
            got = members(got)
            for s_ in want_keys:
                yield f'{label}:representative-of-{s_}-present', Or(*[m == ren[s_] for m in got])
            for i, m in enumerate(got):
                yield f'{label}:member{i}-is-a-representative', Or(*[m == ren[s_] for s_ in want_keys])
        yield 'all-volumes-in-order', [r[0] for r in result] == [7, 9]
        yield from same('volume7/plus', result[0][1], pl)
        yield from same('volume7/minus', result[0][2], mi)
        yield from same('volume9/plus', result[1][1], mi)
        yield from same('volume9/minus', result[1][2], pl)
        yield 'rest-untouched', (result[0][3] == ('UNION', (9,)) and result[0][4] is False and result[0][5] == [(1, 2)]
                                 and result[1][3] is None and result[1][4] is True)


def _sweep_c13(tier, seed):
    from harness.sweeps import flag_sweep
    return flag_sweep('C13', tier, seed)


BOUNDED = {'C13': [_sweep_c13]}
LEVEL = {'C13': 'other'}
EXPLANATION = {'C13': (
    'Proved for all parameter values: SurfaceT4.__eq__ implies equal parameters / transform and hence the same '
    'implicit function at every point, for all 17 surface types (merging equal surfaces cannot change a region); '
    'inline_cells_worker preserves the denotation for every to_inline set (so no inline score matters); the four '
    'inlining branches of pot_fill build the same intersection (c05). Bounded, exhaustive in scope: '
    'remove_duplicate_surfaces and renumber_surfaces on small dictionaries. Bounded: the whole run under all 8 flag '
    'combinations and inline scores {0, 0.5, 1e9} on generated decks (same provenance and composition at every '
    'probe point as the default run).')}
ASSUMPTIONS = {'C13': [
    'SurfaceT4.__hash__: the contract is about the tuple handed to builtin hash() (hash itself is trusted: equal '
    'tuples of floats hash equal); also exercised by the bounded remove_duplicate_surfaces check',
]}
