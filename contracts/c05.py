"""C05 -- universes and FILL.

Proved on the real pot_fill / cell_transform bodies (concrete cell dictionaries, opaque geometries, all combinations
of the inlining flags and of the transformation spellings that reach these functions as normalised tuples):
  pot_fill        one new cell per (container, filler cell): geometry = container AND moved filler (four inlining
                  branches), material / density / provenance from the filler, FILL transformation if present else
                  the container's TRCL list in order, fillid cleared, recursion through nested universes
  cell_transform  cache protocol: a hit returns the key stored for the same (cell, transformation); a miss writes only
                  fresh keys and the new cell's geometry is pot_transform(geometry, transformation)
  by_universe     grouping by int(universe), order preserved
Bounded: the whole hierarchy on generated decks (family `fill`: depth <= 3, shared universes, number / inline /
starred transformations, TRCL) against the deck oracle at probe points.
"""
from t4_geom_convert.Kernel.Volume.CellConversion import CellConversion
from t4_geom_convert.Kernel.Volume.CellMCNP import CellMCNP, CellRef
from t4_geom_convert.Kernel.Volume import ByUniverse as BU

from pyvc.contract import contract
from pyvc.interp import havoc
from pyvc.sym import And, Or, Not, implies, iff, is_sym, Sym
from specs.boolean import Opaque
from contracts.c01 import new_conv, OpaqueNode

T_FILL = (1.0, 2.0, 3.0, 1.0, 0.0, 0.0, 0.0, 1.0, 0.0, 0.0, 0.0, 1.0)
T_IDENT = (0.0, 0.0, 0.0, 1.0, 0.0, 0.0, 0.0, 1.0, 0.0, 0.0, 0.0, 1.0)
T_A = (0.5, 0.0, 0.0, 0.0, 1.0, 0.0, -1.0, 0.0, 0.0, 0.0, 0.0, 1.0)
T_B = (0.0, 0.0, 4.0, 1.0, 0.0, 0.0, 0.0, 1.0, 0.0, 0.0, 0.0, 1.0)


def _cell(mat, rho, geom, universe=0, fillid=None, filltr=(), trcl=None, idorigin=None, imp=1.0):
    return CellMCNP(mat, rho, geom, imp, universe, fillid, filltr, None, list(trcl or []), idorigin)


def _transform_hook():
    """cell_transform replaced by its contract: a fresh key whose cell is `cell` moved by `transform`."""
    def hook(it, f, args, kw):
        conv, cell_key, transform = args[0], args[1], args[2]
        cache = args[3] if len(args) > 3 else kw.get('cache', True)
        conv.new_cell_key += 1
        new_key = conv.new_cell_key
        moved = OpaqueNode(moved_from=cell_key, by=tuple(transform))
        src = conv.dic_cell_mcnp[cell_key]
        conv.dic_cell_mcnp[new_key] = _cell(src.materialID, src.density, moved, src.universe, src.fillid, src.filltr,
                                            src.trcl, src.idorigin, imp=src.importance)
        it.p.calls.append({'callee': 'cell_transform', 'args': [cell_key, tuple(transform), cache], 'kw': {},
                           'result': new_key})
        return new_key
    hook.callee_name = 'cell_transform'
    return hook


def _fill_cases():
    for tr_label, filltr, trcl in (('no-transformation', (), None), ('fill-transformation', T_FILL, None),
                                   ('identity-fill-transformation+trcl', T_IDENT, [T_A]),
                                   ('fill-transformation+trcl', T_FILL, [T_A]), ('trcl-only', (), [T_A]),
                                   ('two-trcl', (), [T_A, T_B])):
        for inline_filled in (False, True):
            for inline_filling in (False, True):
                for origin in ('fresh-cells', 'already-developed'):
                    yield (f'{tr_label}/filled={int(inline_filled)},filling={int(inline_filling)}/{origin}',
                           filltr, trcl, inline_filled, inline_filling, origin)


@contract(CellConversion.pot_fill, props=['C05', 'C09', 'C13', 'C12', 'C06', 'C07'], name='CellConversion.pot_fill')
class _PotFill:
    native = False
    hooks = {CellConversion.cell_transform: _transform_hook()}

    def cases(S):
        for label, filltr, trcl, i_filled, i_filling, origin in _fill_cases():
            yield label, {'filltr': filltr, 'trcl': trcl, 'inline_filled': i_filled, 'inline_filling': i_filling,
                          'origin': origin}

    def call(filltr, trcl, inline_filled, inline_filling, origin):
        g_cont, g_e1, g_e2, g_n = (OpaqueNode(tag=t) for t in ('container', 'filler1', 'filler2', 'nested'))
        o_cont = [(77, 5)] if origin == 'already-developed' else None
        o_e1 = [(88, 66)] if origin == 'already-developed' else None
        cells = {
            10: _cell('0', None, g_cont, 0, 3, filltr, trcl, o_cont, imp=3.0),
            31: _cell('4', '-2.5', g_e1, 3, None, (), None, o_e1, imp=0.0),
            32: _cell('0', None, g_e2, 3, 4, (), None, imp=2.0),   # a filler cell that is itself filled (nested)
            41: _cell('7', '1.0', g_n, 4, None, (), None, imp=0.0),
            50: _cell('9', '-9.0', OpaqueNode(tag='other'), 5, None, (), None),
        }
        conv = new_conv(cells=cells, cell_key=100)
        dict_universe = {3: [31, 32], 4: [41], 5: [50]}
        before = set(cells)
        res = conv.pot_fill(10, dict_universe, inline_filled, inline_filling)
        return res, conv, before, (g_cont, g_e1, g_e2, g_n)

    def ensures(result, filltr, trcl, inline_filled, inline_filling, origin, calls):
        res, conv, before, (g_cont, g_e1, g_e2, g_n) = result
        dic = conv.dic_cell_mcnp
        yield 'one-new-cell-per-filler-cell', len(res) == 2 and all(k not in before for k in res)
        yield 'old-cells-untouched', all(dic[k].geometry in (g_cont, g_e1, g_e2, g_n) or k == 50 for k in before)
        # which transformations must have been applied to each filler, in order
        want_trs = [tuple(filltr)] if filltr else [tuple(t) for t in (trcl or [])]
        for new_key, filler_label in zip(res, ('filler-cell-31', 'developed-nested-filler')):
            c = dic[new_key]
            yield f'{filler_label}:fill-cleared', c.fillid is None
            # C12: whether a developed cell is written is decided by the importance of the level-0 container (here
            # 3.0), never by the importances (0.0 / 2.0) found inside the filling universes
            yield f'{filler_label}:importance-and-universe-of-the-container', (c.importance, c.universe) == (3.0, 0)
            # the filler the new cell was made from: 31 itself, or the cell pot_fill made from (32 filled by 41)
            part = c.geometry
            yield f'{filler_label}:is-an-intersection-of-two', (isinstance(part, tuple) and len(part) == 3
                                                                  and part[0] == '*')
            cont_part, fill_part = part[1], part[2]
            if inline_filled:
                yield f'{filler_label}:container-part', cont_part is g_cont
            else:
                yield f'{filler_label}:container-part', isinstance(cont_part, CellRef) and cont_part.cell == 10
            k_fill = fill_part.cell if isinstance(fill_part, CellRef) else None
            if inline_filling:
                moved = fill_part
                developed = [dic[k].geometry for k in dic if k not in before]
                yield f'{filler_label}:filler-inlined', (isinstance(moved, Opaque) or moved is g_e1
                                                         or any(moved is g for g in developed))
            else:
                yield f'{filler_label}:filler-referenced', isinstance(fill_part, CellRef)
                moved = dic[k_fill].geometry if k_fill in dic else None
            # chain of moves back to the original filler
            chain = []
            g = moved
            while isinstance(g, Opaque) and 'moved_from' in g.facts:
                chain.append(g.facts['by'])
                g = dic[g.facts['moved_from']].geometry
            chain.reverse()
            yield f'{filler_label}:transformations-in-order', chain == want_trs
            src_key = None
            if filler_label == 'filler-cell-31':
                yield f'{filler_label}:moved-geometry-is-the-fillers', g is g_e1
                yield f'{filler_label}:material-and-density-of-the-filler', (c.materialID, c.density) == ('4', '-2.5')
                o_e = (88 if origin == 'already-developed' else 31)
                o_c = (77 if origin == 'already-developed' else 10)
                prefix = [(88, 66)] if origin == 'already-developed' else []
                yield f'{filler_label}:provenance', c.idorigin == prefix + [(o_e, o_c)]
            else:
                yield f'{filler_label}:material-and-density-of-the-lowest-filler', (c.materialID, c.density) == ('7', '1.0')
                o_c = (77 if origin == 'already-developed' else 10)
                yield f'{filler_label}:provenance-lowest-filler-first', (len(c.idorigin) == 2 and
                                                                         c.idorigin[0] == (41, 32) and
                                                                         c.idorigin[1] == (41, o_c))
        cache_flags = [a['args'][2] for a in calls.calls if a['callee'] == 'cell_transform']
        yield 'cache-only-when-not-inlining', all(fl == (not inline_filling) for fl in cache_flags)


@contract(CellConversion.pot_fill, props=['C05'], name='CellConversion.pot_fill[unfilled]')
class _PotFillLeaf:
    native = False

    def cases(S):
        yield 'no-fill', {}

    def call():
        conv = new_conv(cells={10: _cell('1', '-1.0', OpaqueNode(), 0, None)}, cell_key=100)
        return conv.pot_fill(10, {}), conv

    def ensures(result):
        res, conv = result
        yield 'cell-kept-as-is', res == [10] and set(conv.dic_cell_mcnp) == {10} and conv.new_cell_key == 100


# ------------------------------------------------------------------ cell_transform

def _pot_transform_hook():
    def hook(it, f, args, kw):
        conv, tree, tr = args[0], args[1], args[2]
        res = OpaqueNode(transformed=tree, by=tuple(tr))
        it.p.calls.append({'callee': 'pot_transform', 'args': [tree, tuple(tr)], 'kw': {}, 'result': res})
        return res
    hook.callee_name = 'pot_transform'
    return hook


@contract(CellConversion.cell_transform, props=['C05', 'C04', 'C06'], name='CellConversion.cell_transform')
class _CellTransform:
    """Cache protocol.  Sequences of two calls cover hit / miss / different transformation / different cell /
    cache=False; the second result is the first one exactly when cell and transformation are the same and both calls
    use the cache; otherwise a fresh key is written, nothing else changes, and the new geometry is
    pot_transform(geometry, transformation) of the *requested* cell."""
    native = False
    hooks = {CellConversion.pot_transform: _pot_transform_hook()}

    def cases(S):
        for label, second in (('same-cell-same-transformation', (10, T_A, True)), ('same-cell-other-transformation', (10, T_B, True)),
                              ('other-cell-same-transformation', (11, T_A, True)), ('same-but-uncached', (10, T_A, False)),
                              ('empty-transformation', (10, (), True)),
                              # an identity transformation still yields a fresh cell: develop_lattice modifies the cell
                              # it gets back for the element (0, 0, 0) and then deletes the lattice cell
                              ('identity-transformation', (10, T_IDENT, True)), ('identity-uncached', (10, T_IDENT, False))):
            for first_cache in (True, False):
                yield f'{label}/first-cached={int(first_cache)}', {'second': second, 'first_cache': first_cache}

    def call(second, first_cache):
        g10, g11 = OpaqueNode(tag='g10'), OpaqueNode(tag='g11')
        cells = {10: _cell('1', '-1.0', g10, 2, None), 11: _cell('2', '-2.0', g11, 2, None)}
        conv = new_conv(cells=cells, cell_key=100)
        k1 = conv.cell_transform(10, list(T_A), cache=first_cache)
        keys_mid = set(conv.dic_cell_mcnp)
        k2 = conv.cell_transform(second[0], list(second[1]), cache=second[2])
        return k1, k2, conv, keys_mid, (g10, g11)

    def ensures(result, second, first_cache, calls):
        k1, k2, conv, keys_mid, (g10, g11) = result
        dic = conv.dic_cell_mcnp
        yield 'first-call-creates-a-fresh-cell', k1 not in (10, 11) and k1 in dic
        g1 = dic[k1].geometry
        yield 'first-geometry-is-the-moved-one', isinstance(g1, Opaque) and g1.facts.get('transformed') is g10 \
            and g1.facts.get('by') == T_A
        same = (second[0] == 10 and tuple(second[1]) == T_A)
        if not second[1]:
            yield 'empty-transformation-returns-the-cell-itself', k2 == second[0] and set(dic) == keys_mid
            return
        if same and first_cache and second[2]:
            yield 'cache-hit-returns-the-stored-key', k2 == k1 and set(dic) == keys_mid
        else:
            yield 'miss-creates-a-fresh-key', k2 not in keys_mid and k2 in dic and set(dic) == keys_mid | {k2}
            g2 = dic[k2].geometry
            src = g10 if second[0] == 10 else g11
            yield 'miss-geometry-is-the-requested-cell-moved-by-the-requested-transformation', (
                isinstance(g2, Opaque) and g2.facts.get('transformed') is src and g2.facts.get('by') == tuple(second[1]))
            yield 'material-of-the-requested-cell', dic[k2].materialID == dic[second[0]].materialID
        yield 'originals-untouched', dic[10].geometry is g10 and dic[11].geometry is g11


# ------------------------------------------------------------------ pot_transform (structural induction, callees by contract)

from MIP.geom.semantics import Surface as _Surface
from t4_geom_convert.Kernel.Volume import CellConversion as _CCMOD
from t4_geom_convert.Kernel.Surface.CollectionDict import CollectionDict as _CollectionDict
from t4_geom_convert.Kernel.Surface.SurfaceCollection import SurfaceCollection as _SurfaceCollection


class _Tok:
    """Opaque MCNP facet / T4 surface object; `made` records how a callee (by contract) produced it."""
    def __init__(self, name, made=None):
        self.name, self.made, self.idorigin = name, made, ()

    def __repr__(self):
        return f'<{self.name}>'


class _Coll:
    def __init__(self, surfs, made):
        self.surfs, self.made = surfs, made


def _ih_pot_transform(it, f, args, kw):
    """Induction hypothesis on an opaque sub-tree: it comes back as `the same tree moved by p_transf`."""
    tree, tr = args[1], args[2]
    if isinstance(tree, Opaque) and tr:
        return OpaqueNode(transformed=tree, by=tuple(tr))
    return NotImplemented


def _pt_hooks():
    def transformation(it, f, args, kw):
        tr, obj = args[0], args[1]
        res = _Tok('moved ' + obj.name, ('transformation', tuple(tr), obj))
        it.p.calls.append({'callee': 'transformation', 'args': [tuple(tr), obj], 'kw': {}, 'result': res})
        return res

    def conversion(it, f, args, kw):
        key, obj = args[0], args[1]
        main = _Tok('t4 of ' + obj.name, ('conversion', key, obj))
        aux = _Tok('aux t4 of ' + obj.name, ('conversion-aux', key, obj))
        res = _Coll([(main, 1), (aux, -1)], ('conversion', key, obj))
        it.p.calls.append({'callee': 'conversion_surface_params', 'args': [key, obj], 'kw': {}, 'result': res})
        return res

    def join(it, f, args, kw):
        colls = list(args[-1])
        surfs = [(s, side * cside) for coll, cside in colls for s, side in coll.surfs]
        res = _Coll(surfs, ('join', [(c, sd) for c, sd in colls]))
        it.p.calls.append({'callee': 'join', 'args': [colls], 'kw': {}, 'result': res})
        return res

    def cell_tr(it, f, args, kw):
        conv, cell_key, transform = args[0], args[1], args[2]
        conv.new_cell_key += 1
        it.p.calls.append({'callee': 'cell_transform', 'args': [cell_key, tuple(transform)], 'kw': dict(kw),
                           'result': conv.new_cell_key})
        return conv.new_cell_key
    return {CellConversion.pot_transform: _ih_pot_transform, _CCMOD.transformation: transformation,
            _CCMOD.conversion_surface_params: conversion, _SurfaceCollection.join.__func__: join,
            CellConversion.cell_transform: cell_tr}


@contract(CellConversion.pot_transform, props=['C05', 'C04', 'C01', 'C03'], name='CellConversion.pot_transform')
class _PotTransform:
    """Moving a tree by a transformation, by structural induction (opaque sub-trees: depth unbounded):
    operator nodes keep their operator and get their operands moved, in order; a surface reference (whole surface or a
    single macrobody facet, either sense) becomes a reference with the same sense to a fresh surface number whose MCNP
    facets are exactly transformation(p_transf, facet) of the referenced facets, same sides, same order, and whose T4
    collection is the join of the conversions of those moved facets; a cell reference becomes a reference to
    cell_transform(cell, p_transf) (cached); `#n` nodes are left alone (documented convention: complements are not
    moved); an empty transformation returns the tree itself; entries of the surface dictionaries that existed before
    are not touched.  transformation(), conversion_surface_params(), SurfaceCollection.join and cell_transform are
    replaced by their contracts (C04, C02, C02, C05)."""
    native = False
    hooks = _pt_hooks()

    def cases(S):
        for sense in (1, -1):
            yield f'surface/sense={sense:+d}', {'tree': _Surface(5 * sense), 'tr': T_A}
            yield f'facet-of-a-macrobody/sense={sense:+d}', {'tree': _Surface(6 * sense, 2), 'tr': T_A}
            yield f'whole-macrobody/sense={sense:+d}', {'tree': _Surface(6 * sense), 'tr': T_A}
        yield 'cell-reference', {'tree': CellRef(31), 'tr': T_A}
        yield 'cell-complement-node', {'tree': ('^', '7'), 'tr': T_A}
        yield 'empty-transformation', {'tree': ('*', _Surface(5), _Surface(-6)), 'tr': ()}
        for op in ('*', ':'):
            for ln, lmk in (('surface', lambda: _Surface(-5)), ('subtree', lambda: OpaqueNode(tag='L')), ('cellref', lambda: CellRef(31))):
                for rn, rmk in (('surface', lambda: _Surface(6, 1)), ('subtree', lambda: OpaqueNode(tag='R'))):
                    yield f'{op}:{ln},{rn}', {'tree': (op, lmk(), rmk()), 'tr': T_B}

        yield ':three-operands', {'tree': (':', OpaqueNode(tag='A'), _Surface(5), OpaqueNode(tag='B')), 'tr': T_B}
        # the same macrobody referenced twice, as a whole and through facets (a result may be shared only between
        # references that designate the same facets)
        yield '*:whole-macrobody,facet-of-the-same', {'tree': ('*', _Surface(-6), _Surface(6, 2)), 'tr': T_A}
        yield ':two-facets-of-one-macrobody', {'tree': (':', _Surface(6, 1), _Surface(-6, 3)), 'tr': T_A}
        yield '*:the-same-facet-twice', {'tree': ('*', _Surface(6, 2), _Surface(-6, 2)), 'tr': T_A}
        # ... and in two successive calls on the same converter (cells of one universe moved one after the other)
        yield 'second-call:facet-after-whole-macrobody', {'tree': _Surface(6, 1), 'tr': T_A, 'first': _Surface(-6)}
        yield 'second-call:whole-macrobody-after-facet', {'tree': _Surface(6), 'tr': T_A, 'first': _Surface(6, 3)}
        yield 'second-call:same-surface-other-transformation', {'tree': _Surface(5), 'tr': T_B, 'first': _Surface(5), 'first_tr': T_A}

    def call(tree, tr, first=None, first_tr=None):
        d = _CollectionDict()
        f5, f6a, f6b, f6c = _Tok('facet5'), _Tok('facet6.1'), _Tok('facet6.2'), _Tok('facet6.3')
        d[5] = [(f5, 1)]
        d[6] = [(f6a, -1), (f6b, 1), (f6c, -1)]
        t4 = {5: 'T4-5', 6: 'T4-6'}
        conv = new_conv(cells={31: _cell('1', '-1.0', OpaqueNode(tag='g31'), 3, None)}, surf_t4=t4, surf_mcnp=d,
                        cell_key=100, surf_key=200)
        if first is not None:
            conv.pot_transform(first, list(first_tr or tr))
        res = conv.pot_transform(tree, list(tr) if tr else tr)
        return res, conv, {5: [(f5, 1)], 6: [(f6a, -1), (f6b, 1), (f6c, -1)]}

    def ensures(result, tree, tr, calls, first=None, first_tr=None):
        res, conv, before = result
        dm, dt = conv.dic_surf_mcnp, conv.dic_surf_t4
        yield 'old-mcnp-entries-untouched', all(len(dm[k]) == len(v) and all(a[0] is b[0] and a[1] == b[1] for a, b in zip(dm[k], v))
                                                for k, v in before.items())
        yield 'old-t4-entries-untouched', dt[5] == 'T4-5' and dt[6] == 'T4-6'
        if not tr:
            yield 'empty-transformation-returns-the-tree', res is tree and set(dt) == {5, 6}
            return

        def leaf_goals(tag, old, new):
            """old: the Surface leaf of the input, new: what came back for it"""
            ok = isinstance(new, _Surface) and new.sub is None and abs(new.surface) > 200
            yield f'{tag}:fresh-surface-number-without-facet-suffix', ok
            if not ok:
                return
            k = abs(new.surface)
            yield f'{tag}:same-sense', (new.surface > 0) == (old.surface > 0)
            facets = before[abs(old.surface)] if old.sub is None else [before[abs(old.surface)][old.sub - 1]]
            got = dm.dic.get(k)
            yield f'{tag}:as-many-moved-facets', got is not None and len(got) == len(facets)
            if got is None or len(got) != len(facets):
                return
            for i, ((g, gs), (f0, s0)) in enumerate(zip(got, facets)):
                yield f'{tag}:facet{i}:is-the-referenced-facet-moved-by-the-transformation', (
                    isinstance(g, _Tok) and g.made == ('transformation', tuple(tr), f0))
                yield f'{tag}:facet{i}:same-side', gs == s0
            coll = dt.get(k)
            yield f'{tag}:t4-collection-is-the-join-of-the-conversions', (
                isinstance(coll, _Coll) and coll.made[0] == 'join' and len(coll.made[1]) == len(facets) and all(
                    c.made[0] == 'conversion' and c.made[2] is g and sd == gs
                    for (c, sd), (g, gs) in zip(coll.made[1], got)))
            if isinstance(coll, _Coll):
                yield f'{tag}:only-the-comments-of-auxiliary-surfaces-change', all(
                    isinstance(s_, _Tok) and (s_.idorigin == () if i == 0 else s_.idorigin == ('aux surf',))
                    for i, (s_, _) in enumerate(coll.surfs))

        if isinstance(tree, _Surface):
            yield from leaf_goals('leaf', tree, res)
            if first is None:
                yield 'exactly-one-new-surface', set(dt) == {5, 6, abs(res.surface)} if isinstance(res, _Surface) else False
        elif isinstance(tree, CellRef):
            yield 'reference-to-the-moved-cell', (isinstance(res, CellRef) and calls.count('cell_transform') == 1 and
                                                  res.cell == calls.result('cell_transform') and
                                                  calls.args('cell_transform') == [31, tuple(tr)])
            yield 'moved-through-the-cache', all(c['kw'].get('cache', True) for c in calls.calls if c['callee'] == 'cell_transform')
        elif tree[0] == '^':
            yield 'complement-node-left-alone', res is tree and set(dt) == {5, 6}
        else:
            yield 'same-operator-same-arity', isinstance(res, tuple) and len(res) == len(tree) and res[0] == tree[0]
            if not (isinstance(res, tuple) and len(res) == len(tree)):
                return
            for i, (a, b) in enumerate(zip(tree[1:], res[1:])):
                if isinstance(a, Opaque):
                    yield f'operand{i}:is-the-sub-tree-moved-by-the-same-transformation', (
                        isinstance(b, Opaque) and b.facts.get('transformed') is a and b.facts.get('by') == tuple(tr))
                elif isinstance(a, CellRef):
                    yield f'operand{i}:reference-to-the-moved-cell', isinstance(b, CellRef) and b.cell > 100
                else:
                    yield from leaf_goals(f'operand{i}', a, b)


@contract(BU.by_universe, props=['C05'], name='ByUniverse.by_universe')
class _ByUniverse:
    def cases(S):
        yield 'mixed', {'mcnp_cell_dict': {5: _cell('1', '-1', None, 0), 2: _cell('1', '-1', None, 3),
                                           9: _cell('1', '-1', None, '3'), 7: _cell('1', '-1', None, 0),
                                           1: _cell('1', '-1', None, 4.0)}}

    def ensures(result, mcnp_cell_dict):
        yield 'groups', dict(result) == {0: [5, 7], 3: [2, 9], 4: [1]}


def _sweep_c05(tier, seed):
    from harness.sweeps import deck_sweep
    return deck_sweep('C05', tier, seed, families=('fill',))


BOUNDED = {'C05': [_sweep_c05]}
LEVEL = {'C05': 'other'}
EXPLANATION = {'C05': (
    'pot_fill, cell_transform and by_universe are verified against contracts on the real code with concrete cell '
    'dictionaries and opaque geometries (every combination of inlining flags, transformation source and provenance '
    'state; two-call sequences for the cache). The hierarchy as a whole (recursion over universes, pot_transform on '
    'the heap, nothing outside the container) is only covered by the bounded deck sweep against the deck oracle.')}
ASSUMPTIONS = {'C05': [
    'the complement #n inside a cell with TRCL is not moved by that TRCL (convention of the converter, validated '
    'upstream by the trcl_complement* oracle decks); the deck oracle follows it',
    'pot_fill / cell_transform contracts use concrete dictionaries: the statement is per call shape, not for '
    'arbitrary dictionaries',
]}
