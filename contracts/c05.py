"""C05 -- universes and FILL.

Proved on the real pot_fill / cell_transform bodies (concrete cell dictionaries, opaque geometries, all combinations
of the inlining flags and of the transformation spellings that reach these functions as normalised tuples):
  pot_fill        one new cell per (container, filler cell): geometry = container AND moved filler (four inlining
                  branches), material / density / provenance from the filler, FILL transformation if present else
                  the container's TRCL list in order, fillid cleared, recursion through nested universes
  cell_transform  cache protocol: a hit returns the key stored for the same (cell, transformation); a miss writes only
                  fresh keys and the new cell's geometry is pot_transform(geometry, transformation)
  by_universe     grouping by int(universe), order preserved
Bounded: the whole hierarchy on generated decks (family `fill`: depth <= 3, shared universes, number / inline /
starred transformations, TRCL) against the deck oracle at probe points.
"""
from t4_geom_convert.Kernel.Volume.CellConversion import CellConversion
from t4_geom_convert.Kernel.Volume.CellMCNP import CellMCNP, CellRef
from t4_geom_convert.Kernel.Volume import ByUniverse as BU

from pyvc.contract import contract
from pyvc.interp import havoc
from pyvc.sym import And, Or, Not, implies, iff, is_sym, Sym
from specs.boolean import Opaque
from contracts.c01 import new_conv, OpaqueNode

T_FILL = (1.0, 2.0, 3.0, 1.0, 0.0, 0.0, 0.0, 1.0, 0.0, 0.0, 0.0, 1.0)
T_IDENT = (0.0, 0.0, 0.0, 1.0, 0.0, 0.0, 0.0, 1.0, 0.0, 0.0, 0.0, 1.0)
T_A = (0.5, 0.0, 0.0, 0.0, 1.0, 0.0, -1.0, 0.0, 0.0, 0.0, 0.0, 1.0)
T_B = (0.0, 0.0, 4.0, 1.0, 0.0, 0.0, 0.0, 1.0, 0.0, 0.0, 0.0, 1.0)


def _cell(mat, rho, geom, universe=0, fillid=None, filltr=(), trcl=None, idorigin=None, imp=1.0):
    return CellMCNP(mat, rho, geom, imp, universe, fillid, filltr, None, list(trcl or []), idorigin)


def _transform_hook():
    """cell_transform replaced by its contract: a fresh key whose cell is `cell` moved by `transform`."""
    def hook(it, f, args, kw):
        conv, cell_key, transform = args[0], args[1], args[2]
        cache = args[3] if len(args) > 3 else kw.get('cache', True)
        conv.new_cell_key += 1
        new_key = conv.new_cell_key
        moved = OpaqueNode(moved_from=cell_key, by=tuple(transform))
        src = conv.dic_cell_mcnp[cell_key]
        conv.dic_cell_mcnp[new_key] = _cell(src.materialID, src.density, moved, src.universe, src.fillid, src.filltr,
                                            src.trcl, src.idorigin, imp=src.importance)
        it.p.calls.append({'callee': 'cell_transform', 'args': [cell_key, tuple(transform), cache], 'kw': {},
                           'result': new_key})
        return new_key
    hook.callee_name = 'cell_transform'
    return hook


def _fill_cases():
    for tr_label, filltr, trcl in (('no-transformation', (), None), ('fill-transformation', T_FILL, None),
                                   ('identity-fill-transformation+trcl', T_IDENT, [T_A]),
                                   ('fill-transformation+trcl', T_FILL, [T_A]), ('trcl-only', (), [T_A]),
                                   ('two-trcl', (), [T_A, T_B])):
        for inline_filled in (False, True):
            for inline_filling in (False, True):
                for origin in ('fresh-cells', 'already-developed'):
                    yield (f'{tr_label}/filled={int(inline_filled)},filling={int(inline_filling)}/{origin}',
                           filltr, trcl, inline_filled, inline_filling, origin)


@contract(CellConversion.pot_fill, props=['C05', 'C09', 'C13', 'C12'], name='CellConversion.pot_fill')
class _PotFill:
    native = False
    hooks = {CellConversion.cell_transform: _transform_hook()}

    def cases(S):
        for label, filltr, trcl, i_filled, i_filling, origin in _fill_cases():
            yield label, {'filltr': filltr, 'trcl': trcl, 'inline_filled': i_filled, 'inline_filling': i_filling,
                          'origin': origin}

    def call(filltr, trcl, inline_filled, inline_filling, origin):
        g_cont, g_e1, g_e2, g_n = (OpaqueNode(tag=t) for t in ('container', 'filler1', 'filler2', 'nested'))
        o_cont = [(77, 5)] if origin == 'already-developed' else None
        o_e1 = [(88, 66)] if origin == 'already-developed' else None
        cells = {
            10: _cell('0', None, g_cont, 0, 3, filltr, trcl, o_cont, imp=3.0),
            31: _cell('4', '-2.5', g_e1, 3, None, (), None, o_e1, imp=0.0),
            32: _cell('0', None, g_e2, 3, 4, (), None, imp=2.0),   # a filler cell that is itself filled (nested)
            41: _cell('7', '1.0', g_n, 4, None, (), None, imp=0.0),
            50: _cell('9', '-9.0', OpaqueNode(tag='other'), 5, None, (), None),
        }
        conv = new_conv(cells=cells, cell_key=100)
        dict_universe = {3: [31, 32], 4: [41], 5: [50]}
        before = set(cells)
        res = conv.pot_fill(10, dict_universe, inline_filled, inline_filling)
        return res, conv, before, (g_cont, g_e1, g_e2, g_n)

    def ensures(result, filltr, trcl, inline_filled, inline_filling, origin, calls):
        res, conv, before, (g_cont, g_e1, g_e2, g_n) = result
        dic = conv.dic_cell_mcnp
        yield 'one-new-cell-per-filler-cell', len(res) == 2 and all(k not in before for k in res)
        yield 'old-cells-untouched', all(dic[k].geometry in (g_cont, g_e1, g_e2, g_n) or k == 50 for k in before)
        # which transformations must have been applied to each filler, in order
        want_trs = [tuple(filltr)] if filltr else [tuple(t) for t in (trcl or [])]
        for new_key, filler_label in zip(res, ('filler-cell-31', 'developed-nested-filler')):
            c = dic[new_key]
            yield f'{filler_label}:fill-cleared', c.fillid is None
            # C12: whether a developed cell is written is decided by the importance of the level-0 container (here
            # 3.0), never by the importances (0.0 / 2.0) found inside the filling universes
            yield f'{filler_label}:importance-and-universe-of-the-container', (c.importance, c.universe) == (3.0, 0)
            # the filler the new cell was made from: 31 itself, or the cell pot_fill made from (32 filled by 41)
            part = c.geometry
            yield f'{filler_label}:is-an-intersection-of-two', (isinstance(part, tuple) and len(part) == 3
                                                                  and part[0] == '*')
            cont_part, fill_part = part[1], part[2]
            if inline_filled:
                yield f'{filler_label}:container-part', cont_part is g_cont
            else:
                yield f'{filler_label}:container-part', isinstance(cont_part, CellRef) and cont_part.cell == 10
            k_fill = fill_part.cell if isinstance(fill_part, CellRef) else None
            if inline_filling:
                moved = fill_part
                developed = [dic[k].geometry for k in dic if k not in before]
                yield f'{filler_label}:filler-inlined', (isinstance(moved, Opaque) or moved is g_e1
                                                         or any(moved is g for g in developed))
            else:
                yield f'{filler_label}:filler-referenced', isinstance(fill_part, CellRef)
                moved = dic[k_fill].geometry if k_fill in dic else None
            # chain of moves back to the original filler
            chain = []
            g = moved
            while isinstance(g, Opaque) and 'moved_from' in g.facts:
                chain.append(g.facts['by'])
                g = dic[g.facts['moved_from']].geometry
            chain.reverse()
            yield f'{filler_label}:transformations-in-order', chain == want_trs
            src_key = None
            if filler_label == 'filler-cell-31':
                yield f'{filler_label}:moved-geometry-is-the-fillers', g is g_e1
                yield f'{filler_label}:material-and-density-of-the-filler', (c.materialID, c.density) == ('4', '-2.5')
                o_e = (88 if origin == 'already-developed' else 31)
                o_c = (77 if origin == 'already-developed' else 10)
                prefix = [(88, 66)] if origin == 'already-developed' else []
                yield f'{filler_label}:provenance', c.idorigin == prefix + [(o_e, o_c)]
            else:
                yield f'{filler_label}:material-and-density-of-the-lowest-filler', (c.materialID, c.density) == ('7', '1.0')
                o_c = (77 if origin == 'already-developed' else 10)
                yield f'{filler_label}:provenance-lowest-filler-first', (len(c.idorigin) == 2 and
                                                                         c.idorigin[0] == (41, 32) and
                                                                         c.idorigin[1] == (41, o_c))
        cache_flags = [a['args'][2] for a in calls.calls if a['callee'] == 'cell_transform']
        yield 'cache-only-when-not-inlining', all(fl == (not inline_filling) for fl in cache_flags)


@contract(CellConversion.pot_fill, props=['C05'], name='CellConversion.pot_fill[unfilled]')
class _PotFillLeaf:
    native = False

    def cases(S):
        yield 'no-fill', {}

    def call():
        conv = new_conv(cells={10: _cell('1', '-1.0', OpaqueNode(), 0, None)}, cell_key=100)
        return conv.pot_fill(10, {}), conv

    def ensures(result):
        res, conv = result
        yield 'cell-kept-as-is', res == [10] and set(conv.dic_cell_mcnp) == {10} and conv.new_cell_key == 100


# ------------------------------------------------------------------ cell_transform

def _pot_transform_hook():
    def hook(it, f, args, kw):
        conv, tree, tr = args[0], args[1], args[2]
        res = OpaqueNode(transformed=tree, by=tuple(tr))
        it.p.calls.append({'callee': 'pot_transform', 'args': [tree, tuple(tr)], 'kw': {}, 'result': res})
        return res
    hook.callee_name = 'pot_transform'
    return hook


@contract(CellConversion.cell_transform, props=['C05', 'C04'], name='CellConversion.cell_transform')
class _CellTransform:
    """Cache protocol.  Sequences of two calls cover hit / miss / different transformation / different cell /
    cache=False; the second result is the first one exactly when cell and transformation are the same and both calls
    use the cache; otherwise a fresh key is written, nothing else changes, and the new geometry is
    pot_transform(geometry, transformation) of the *requested* cell."""
    native = False
    hooks = {CellConversion.pot_transform: _pot_transform_hook()}

    def cases(S):
        for label, second in (('same-cell-same-transformation', (10, T_A, True)), ('same-cell-other-transformation', (10, T_B, True)),
                              ('other-cell-same-transformation', (11, T_A, True)), ('same-but-uncached', (10, T_A, False)),
                              ('empty-transformation', (10, (), True))):
            for first_cache in (True, False):
                yield f'{label}/first-cached={int(first_cache)}', {'second': second, 'first_cache': first_cache}

    def call(second, first_cache):
        g10, g11 = OpaqueNode(tag='g10'), OpaqueNode(tag='g11')
        cells = {10: _cell('1', '-1.0', g10, 2, None), 11: _cell('2', '-2.0', g11, 2, None)}
        conv = new_conv(cells=cells, cell_key=100)
        k1 = conv.cell_transform(10, list(T_A), cache=first_cache)
        keys_mid = set(conv.dic_cell_mcnp)
        k2 = conv.cell_transform(second[0], list(second[1]), cache=second[2])
        return k1, k2, conv, keys_mid, (g10, g11)

    def ensures(result, second, first_cache, calls):
        k1, k2, conv, keys_mid, (g10, g11) = result
        dic = conv.dic_cell_mcnp
        yield 'first-call-creates-a-fresh-cell', k1 not in (10, 11) and k1 in dic
        g1 = dic[k1].geometry
        yield 'first-geometry-is-the-moved-one', isinstance(g1, Opaque) and g1.facts.get('transformed') is g10 \
            and g1.facts.get('by') == T_A
        same = (second[0] == 10 and tuple(second[1]) == T_A)
        if not second[1]:
            yield 'empty-transformation-returns-the-cell-itself', k2 == second[0] and set(dic) == keys_mid
            return
        if same and first_cache and second[2]:
            yield 'cache-hit-returns-the-stored-key', k2 == k1 and set(dic) == keys_mid
        else:
            yield 'miss-creates-a-fresh-key', k2 not in keys_mid and k2 in dic and set(dic) == keys_mid | {k2}
            g2 = dic[k2].geometry
            src = g10 if second[0] == 10 else g11
            yield 'miss-geometry-is-the-requested-cell-moved-by-the-requested-transformation', (
                isinstance(g2, Opaque) and g2.facts.get('transformed') is src and g2.facts.get('by') == tuple(second[1]))
            yield 'material-of-the-requested-cell', dic[k2].materialID == dic[second[0]].materialID
        yield 'originals-untouched', dic[10].geometry is g10 and dic[11].geometry is g11


@contract(BU.by_universe, props=['C05'], name='ByUniverse.by_universe')
class _ByUniverse:
    def cases(S):
        yield 'mixed', {'mcnp_cell_dict': {5: _cell('1', '-1', None, 0), 2: _cell('1', '-1', None, 3),
                                           9: _cell('1', '-1', None, '3'), 7: _cell('1', '-1', None, 0),
                                           1: _cell('1', '-1', None, 4.0)}}

    def ensures(result, mcnp_cell_dict):
        yield 'groups', dict(result) == {0: [5, 7], 3: [2, 9], 4: [1]}


def _sweep_c05(tier, seed):
    from harness.sweeps import deck_sweep
    return deck_sweep('C05', tier, seed, families=('fill',))


BOUNDED = {'C05': [_sweep_c05]}
LEVEL = {'C05': 'other'}
EXPLANATION = {'C05': (
    'pot_fill, cell_transform and by_universe are verified against contracts on the real code with concrete cell '
    'dictionaries and opaque geometries (every combination of inlining flags, transformation source and provenance '
    'state; two-call sequences for the cache). The hierarchy as a whole (recursion over universes, pot_transform on '
    'the heap, nothing outside the container) is only covered by the bounded deck sweep against the deck oracle.')}
ASSUMPTIONS = {'C05': [
    'the complement #n inside a cell with TRCL is not moved by that TRCL (convention of the converter, validated '
    'upstream by the trcl_complement* oracle decks); the deck oracle follows it',
    'pot_fill / cell_transform contracts use concrete dictionaries: the statement is per call shape, not for '
    'arbitrary dictionaries',
]}
