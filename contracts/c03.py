"""C03 -- macrobodies: interior, exterior and numbered facets.

For every body the real chain to_surfaces_mcnp -> to_surfaces_macro -> MacroBodies.<body> -> to_surface_mcnp (per
facet) -> convert_mcnp_surface -> SurfaceCollection.join is interpreted; the postcondition says, facet by facet and in
MCNP's facet order, that   side_k * f_T4_k   has the sign of MCNP's outward facet function g_k  at every point.
The solid (negative reference) is the intersection of the negative facet sides and its complement the union of the
positive ones: that part is carried by pot_expand_surfs (contract in c01) and number_items.
"""
import math
from t4_geom_convert.Kernel.FileHandlers.Parser import ParseMCNPSurface as PS
from t4_geom_convert.Kernel.Surface import ConversionSurfaceMCNPToT4 as CS
from t4_geom_convert.Kernel.Surface import MacroBodies as MB
from t4_geom_convert.Kernel.Surface.ESurfaceTypeMCNP import ESurfaceTypeMCNP as MS

from pyvc.contract import contract
from pyvc.sym import And, Or, Not, implies, ite, is_sym, ident
from specs.common import same_region, dot, sub, add, cross, close, scaled, scale, sqrt_
from specs.surfaces import t4_region, t4_view
from specs import macrobodies as SM


from specs.surfaces import mcnp_region

SUBCARD = {MS.P: 'p', MS.S: 's', MS.GQ: 'gq', MS.C: 'c', MS.K: 'k'}


def subcard_region(typ, params, pt):
    """Region of the ordinary surface card a macrobody facet is turned into (these cards are then converted by the
    C02 chain, proved for every parameter vector: chain[p], chain[s], chain[gq], chain[c], chain[k])."""
    if typ == MS.C:
        x, y, z, r, A, B, C = params
        d = sub(pt, (x, y, z))
        u = (A, B, C)
        return [(dot(d, d) * dot(u, u) - dot(d, u) * dot(d, u) - r * r * dot(u, u), 1)]
    if typ == MS.K:
        x, y, z, t, A, B, C = params          # tangent of the half-angle, unit axis
        d = sub(pt, (x, y, z))
        u = (A, B, C)
        return [(dot(d, d) * dot(u, u) - (1 + t * t) * dot(d, u) * dot(d, u), 1)]
    return mcnp_region(SUBCARD[typ], list(params), pt)


def _gradient(gfun):
    g0 = gfun((0, 0, 0))
    return tuple(gfun(e) - g0 for e in ((1, 0, 0), (0, 1, 0), (0, 0, 1)))


def _facet_goals(parts, spec, p, pt, plane_form='direct', factors=None):
    facets = spec(p, pt)
    yield 'facet-count', len(parts) == len(facets)
    for k, ((typ, params, side), g) in enumerate(zip(parts, facets), start=1):
        yield f'facet{k}:side-is-a-sign', Or(side == 1, side == -1) if is_sym(side) else side in (1, -1)
        (f, _), = subcard_region(typ, params, pt)
        if factors and k in factors:
            # identity + sign form with the multiplier given by the contract: den * side f == num * g
            num, den = factors[k](p)
            yield from scaled(f'facet{k}:', side * f, g, num, den)
        elif typ == MS.P and plane_form == 'equal':
            # the code's plane is literally MCNP's facet function: side * f == g
            yield from scaled(f'facet{k}:', side * f, g, 1, 1)
        elif typ == MS.P and plane_form == 'scaled':
            # identity + sign form for a plane facet whose normal n is parallel to the gradient w of the (linear)
            # MCNP facet function:  |w|^2 side f == (side n.w) g   and   side n.w > 0
            w = _gradient(lambda q: spec(p, q)[k - 1])
            n = tuple(params[0:3])
            yield from scaled(f'facet{k}:', side * f, g, side * dot(n, w), dot(w, w))
        else:
            for label, goal in same_region([(f, side)], [(g, 1)]):
                yield f'facet{k}:{label}', goal


def _mk(fn, mn, nparams, spec, requires=None, names=None, plane_form='direct', maker=None, factors=None,
        status='P'):
    @contract(fn, props=['C03'], name=f'MacroBodies.{fn.__name__}[{mn}/{nparams}]', status=status)
    class _C:
        def cases(S):
            if maker is not None:
                yield f'{nparams}params', {'params': maker(S)}
            else:
                yield f'{nparams}params', {'params': S.reals(names or [f'a{i}' for i in range(nparams)])}

        def ghost(S):
            return {'pt': S.reals('X Y Z')}

        def ensures(result, params, pt):
            yield from _facet_goals(result, spec, params, pt, plane_form, factors)
    if requires is not None:
        _C.requires = staticmethod(lambda params, pt: And(*requires(params)))
    return _C


_nz = lambda p, *idx: [dot(p[i:i + 3], p[i:i + 3]) > 0 for i in idx]
_mk(MB.rpp, 'rpp', 6, SM.rpp)
_mk(MB.sph, 'sph', 4, SM.sph, lambda p: [p[3] > 0])
_mk(MB.box, 'box', 12, SM.box, SM.box_requires, plane_form='scaled',
    maker=lambda S: S.reals('v1 v2 v3') + S.ortho3('a1 a2 a3 b1 b2 b3 c1 c2 c3'))
_mk(MB.rcc, 'rcc', 7, SM.rcc, lambda p: [p[6] > 0] + _nz(p, 3))
_mk(MB.wed, 'wed', 12, SM.wed, SM.wed_requires, plane_form='scaled',
    maker=lambda S: S.reals('v1 v2 v3') + S.ortho3('a1 a2 a3 b1 b2 b3 h1 h2 h3'))
_mk(MB.rhp, 'rhp', 15, SM.rhp15, lambda p: _nz(p, 3, 6, 9, 12))

_mk(MB.trc, 'trc', 8, SM.trc, lambda p: _nz(p, 3) + [p[6] > 0, p[7] > 0, p[6] != p[7]],
    factors={1: lambda p: (1, dot(p[3:6], p[3:6]) * dot(p[3:6], p[3:6]))})
_mk(MB.rec, 'rec', 12, SM.rec12,
    lambda p: _nz(p, 3, 6, 9) + [close(dot(p[3:6], p[6:9]), 0), close(dot(p[3:6], p[9:12]), 0),
                                 close(dot(p[6:9], p[9:12]), 0)],
    maker=lambda S: S.reals('v1 v2 v3') + S.ortho3('h1 h2 h3 a1 a2 a3 b1 b2 b3'),
    factors={1: lambda p: (1, dot(p[6:9], p[6:9]) ** 2 * dot(p[9:12], p[9:12]) ** 2)})


_mk(MB.rec, 'rec', 10, SM.rec10,
    lambda p: _nz(p, 3, 6) + [close(dot(p[3:6], p[6:9]), 0), p[9] > 0],
    maker=lambda S: S.reals('v1 v2 v3') + S.ortho3('h1 h2 h3 a1 a2 a3 b1 b2 b3')[:6] + [S.real('L')],
    factors={1: lambda p: (1, dot(p[6:9], p[6:9]) ** 2 * dot(cross(p[3:6], p[6:9]), cross(p[3:6], p[6:9])) * p[9] * p[9])})
_mk(MB.rhp, 'rhp', 9, SM.rhp9, lambda p: _nz(p, 3, 6), plane_form='equal')


def _ell_band(u0):
    """Outside the 1e-3 band that selects the auxiliary axis in MacroBodies.ell (A1): irrelevant for the result
    (any choice gives an orthonormal frame) -- no exclusion is needed, the three branches are all proved."""
    return True


_mk(MB.ell, 'ell', 7, SM.ell_neg, lambda p: _nz(p, 3) + [p[6] < 0], names='c1 c2 c3 a1 a2 a3 last'.split(),
    factors={1: lambda p: (1, dot(p[3:6], p[3:6]) ** 2 * p[6] * p[6])})


def _ell_pos_factor(p):
    f1, f2, L = p[0:3], p[3:6], p[6]
    rel = sub(f1, scale(0.5, add(f1, f2)))
    e = sqrt_(dot(rel, rel))
    r2 = L * L - (L - e) * (L - e)
    return (1, L ** 4 * r2)


_mk(MB.ell, 'ell+', 7, SM.ell_pos,
    lambda p: [p[6] > 0, dot(sub(p[0:3], p[3:6]), sub(p[0:3], p[3:6])) > 0,
               _ell_pos_factor(p)[1] > 0],
    names='f1 f2 f3 g1 g2 g3 last'.split(), factors={1: _ell_pos_factor}, status='S')


@contract(None, props=['C03'], name='lemma.orthogonal_triple')
class _LemmaTriple:
    """Mutually perpendicular a, b, c:  (a.(b x c))^2 == |a|^2 |b|^2 |c|^2, hence non-zero vectors are not coplanar.
    Used to state `a.(b x h) != 0` in the WED precondition although it follows from perpendicularity."""
    def cases(S):
        yield 'generic', {'v': S.ortho3('a1 a2 a3 b1 b2 b3 c1 c2 c3')}

    def requires(v):
        a, b, c = v[0:3], v[3:6], v[6:9]
        return And(close(dot(a, b), 0), close(dot(b, c), 0), close(dot(c, a), 0))

    def ensures(result, v):
        a, b, c = v[0:3], v[3:6], v[6:9]
        m = dot(a, cross(b, c))
        yield 'gram-determinant', ident(m * m, dot(a, a) * dot(b, b) * dot(c, c))


@contract(None, props=['C03'], name='lemma.nonzero_product')
class _LemmaNZ:
    def cases(S):
        yield 'generic', {'m': S.real('m'), 'x': S.real('x'), 'y': S.real('y'), 'z': S.real('z')}

    def requires(m, x, y, z):
        return And(m * m == x * y * z, x > 0, y > 0, z > 0)

    def ensures(result, m, x, y, z):
        yield 'm-nonzero', m != 0


LEVEL = {'C03': 'other'}


# ------------------------------------------------------------------ sub-cards c / k (only produced by macrobodies)

from contracts import c02
from pyvc.interp import havoc
from t4_geom_convert.Kernel.Surface.SurfaceMCNP import SurfaceMCNP
from t4_geom_convert.Kernel.Surface.SurfaceT4 import SurfaceT4
from t4_geom_convert.Kernel.Surface.SurfaceCollection import SurfaceCollection
from t4_geom_convert.Kernel.Surface.ESurfaceTypeT4 import ESurfaceTypeT4 as T4S


def _mk_subchain(typ, label, requires):
    @contract(PS.to_surface_mcnp, props=['C03', 'C02'], name=f'chain[{label}]')
    class _C:
        """General cylinder / cone sub-card (x y z r|t A B C) produced by RCC / TRC: region of the emitted T4 list ==
        region of the sub-card, for every point (axis not necessarily a unit vector for the cylinder)."""
        def cases(S):
            yield '7params', {'p': S.reals('x y z r A B C')}

        def ghost(S):
            return {'pt': S.reals('X Y Z')}

        def requires(p, pt):
            return And(*requires(p))

        def call(p):
            surf = PS.to_surface_mcnp(5, '', None, typ, p, {})
            return CS.convert_mcnp_surface(5, [(surf, 1)])

        def ensures(result, p, pt):
            yield from same_region(t4_region(result, pt), subcard_region(typ, p, pt))
    return _C


_mk_subchain(MS.C, 'c', lambda p: [p[3] > 0, dot(p[4:7], p[4:7]) > 0])
_mk_subchain(MS.K, 'k', lambda p: [p[3] > 0, close(dot(p[4:7], p[4:7]), 1)])


# ------------------------------------------------------------------ glue: to_surfaces_macro / convert_mcnp_surface

BODIES = {'box': MB.box, 'rpp': MB.rpp, 'sph': MB.sph, 'rcc': MB.rcc, 'hex': MB.rhp, 'rhp': MB.rhp, 'rec': MB.rec,
          'trc': MB.trc, 'ell': MB.ell, 'wed': MB.wed, 'arb': MB.arb}


def _parts_shape(fresh, params):
    return [(MS.P, [fresh(f'a{i}') for i in range(4)], 1),
            (MS.S, [fresh(f'b{i}') for i in range(4)], -1),
            (MS.GQ, [fresh(f'c{i}') for i in range(10)], 1)]


def _surf_shape(fresh, key, bc, tr, typ, params, transforms):
    return SurfaceMCNP(bc, typ, ((fresh('p1'), fresh('p2'), fresh('p3')), (0., 0., 1.)), [fresh('r')], [key])


def _conv_shape(fresh, key, val):
    return SurfaceCollection([(SurfaceT4(T4S.QUAD, [fresh(f'c{i}') for i in range(10)]), 1),
                              (SurfaceT4(T4S.PLANE, [fresh(f'd{i}') for i in range(4)]), -1)])


@contract(PS.to_surfaces_mcnp, props=['C03'], name='glue[macrobody]')
class _Glue:
    """to_surfaces_mcnp -> to_surfaces_macro -> convert_mcnp_surface for a macrobody mnemonic, with the body
    function, to_surface_mcnp and conversion_surface_params replaced by hooks: the mnemonic is dispatched to the
    right body function, every part is converted exactly once, in order, with its own side, with the card's
    transformation number, and the emitted signed list is the concatenation of the converted parts with the part's
    side multiplied in (facet order = order of the body function's list)."""
    hooks = {fn: havoc('body:' + fn.__name__, _parts_shape) for fn in set(BODIES.values())}
    hooks[PS.to_surface_mcnp] = havoc('to_surface_mcnp', _surf_shape)
    hooks[CS.conversion_surface_params] = havoc('conversion_surface_params', _conv_shape)

    def cases(S):
        for mn in BODIES:
            yield mn, {'mn': mn, 'p': S.reals('a b c'), 'tr_id': '4'}
        yield 'RPP-uppercase', {'mn': 'RPP', 'p': S.reals('a b c'), 'tr_id': None}

    def call(mn, p, tr_id):
        surfs = PS.to_surfaces_mcnp(9, ('*', tr_id, mn, p), {4: [1., 2., 3.]})
        return surfs, CS.convert_mcnp_surface(9, surfs)

    def ensures(result, mn, p, tr_id, calls):
        surfs, coll = result
        fn = BODIES[mn.lower()]
        yield 'dispatch', calls.count('body:' + fn.__name__) == 1 and all(
            calls.count('body:' + f.__name__) == 0 for f in set(BODIES.values()) if f is not fn)
        yield 'parameters-passed', calls.args('body:' + fn.__name__)[0] is p
        parts = calls.result('body:' + fn.__name__)
        n = len(parts)
        yield 'every-part-built-once', calls.count('to_surface_mcnp') == n
        yield 'every-part-converted-once', calls.count('conversion_surface_params') == n
        for k in range(n):
            a = calls.args('to_surface_mcnp', k)
            yield f'part{k + 1}:built-from-its-own-type-and-parameters', (a[3] is parts[k][0] and a[4] is parts[k][1]
                                                                        and a[2] == tr_id and a[0] == 9)
            yield f'part{k + 1}:in-order-with-its-side', (surfs[k][0] is calls.result('to_surface_mcnp', k)
                                                       and surfs[k][1] == parts[k][2])
            yield f'part{k + 1}:converted', calls.args('conversion_surface_params', k)[1] is surfs[k][0]
        expect = [(s_, side * parts[k][2]) for k in range(n)
                  for s_, side in calls.result('conversion_surface_params', k).surfs]
        yield 'emitted-list', len(coll.surfs) == len(expect) and all(
            a[0] is b[0] and a[1] == b[1] for a, b in zip(coll.surfs, expect))


# ------------------------------------------------------------------ wrong number of parameters

ARITIES = {'box': (12,), 'rpp': (6,), 'sph': (4,), 'rcc': (7,), 'rhp': (9, 15), 'rec': (10, 12), 'trc': (8,),
           'ell': (7,), 'wed': (12,), 'arb': (30,)}


@contract(MB.check_params_length, props=['C03', 'C17'], name='MacroBodies.arity')
class _Arity:
    """Every body function rejects a parameter list of the wrong length with MacroBodyError (never a result)."""
    def cases(S):
        for mn, ok in ARITIES.items():
            for n in sorted(set(range(0, 32)) - set(ok)):
                if n in (0, 1, 3, 5, 6, 7, 8, 9, 11, 12, 13, 14, 15, 16, 29, 31) or abs(n - ok[0]) <= 1:
                    yield f'{mn}/{n}', {'mn': mn, 'params': S.reals([f'a{i}' for i in range(n)])}

    def call(mn, params):
        return BODIES[mn](params)

    raises = {MB.MacroBodyError: lambda mn, params: True}

    def ensures(result, mn, params):
        return []


# ------------------------------------------------------------------ ARB (sampled stand-in)

def _arb_case(S):
    """Affine image of the unit cube (always convex, planar faces), MCNP vertex order, the six standard facets."""
    from contracts.c04 import sample_rotation
    if S.mode == 'sym':
        return S.reals([f'a{i}' for i in range(30)]), None
    R = sample_rotation(S, 'arb_')
    sc = [S.rng.choice([1.0, 2.0, 0.5, 3.0]) for _ in range(3)]
    sh = S.rng.choice([0.0, 0.25, -0.5])
    b = [x + S.rng.choice([0.0, 20.0, -15.0]) for x in S.reals('bx by bz')]

    def img(u):
        w = (sc[0] * u[0] + sh * u[1], sc[1] * u[1], sc[2] * u[2])
        return [sum(R[i][j] * w[j] for j in range(3)) + b[i] for i in range(3)]
    shape = S.rng.choice(['cube', 'cube', 'tetrahedron', 'prism'])
    u = [S.rng.uniform(-0.6, 1.6) for _ in range(3)]
    if shape == 'cube':
        verts = [(0, 0, 0), (1, 0, 0), (1, 1, 0), (0, 1, 0), (0, 0, 1), (1, 0, 1), (1, 1, 1), (0, 1, 1)]
        facets = [1234., 5678., 1265., 2376., 3487., 4158.]
        inside = all(0 < x < 1 for x in u)
        margin = min(min(abs(x), abs(x - 1)) for x in u)
    elif shape == 'tetrahedron':
        verts = [(0, 0, 0), (1, 0, 0), (0, 1, 0), (0, 0, 1)]
        facets = [1230., 1240., 2340., 1340., 0., 0.]
        inside = all(x > 0 for x in u) and sum(u) < 1
        margin = min(min(abs(x) for x in u), abs(sum(u) - 1))
    else:      # triangular prism: triangle (0,0),(1,0),(0,1) extruded along w
        verts = [(0, 0, 0), (1, 0, 0), (0, 1, 0), (0, 0, 1), (1, 0, 1), (0, 1, 1)]
        facets = [1230., 4560., 1254., 2365., 1364., 0.]
        inside = u[0] > 0 and u[1] > 0 and u[0] + u[1] < 1 and 0 < u[2] < 1
        margin = min(abs(u[0]), abs(u[1]), abs(u[0] + u[1] - 1), abs(u[2]), abs(u[2] - 1))
    pts = [img(v) for v in verts] + [[0.0, 0.0, 0.0]] * (8 - len(verts))      # unused vertex slots are zero-padded
    params = [x for v in pts for x in v] + facets
    return params, (u, img(u), inside, margin, sum(1 for f in facets if f))


@contract(MB.arb, props=['C03'], name='MacroBodies.arb[sampled]', status='S')
class _Arb:
    """Bounded stand-in (sampled): ARB built as an affine image (random rotation, scaling, shear, offset away from the
    origin) of the unit cube (8 vertices, 6 facets), of a tetrahedron (4 vertices, 4 facets) or of a triangular prism
    (6 vertices, 5 facets), unused slots zero-padded; a probe point A u + b is inside the solid iff u is inside the
    reference solid; the intersection of the negative sides of the emitted planes must agree."""
    samples = 300

    def cases(S):
        params, probe = _arb_case(S)
        yield 'affine-cube', {'params': params, 'probe': probe}

    def call(params, probe):
        return MB.arb(params)

    def ensures(result, params, probe):
        u, pt, inside_spec, margin, nfacets = probe
        if margin < 1e-3:
            return
        yield 'one-plane-per-facet', len(result) == nfacets
        vals = [side * (pr[0] * pt[0] + pr[1] * pt[1] + pr[2] * pt[2] - pr[3]) for _, pr, side in result]
        yield 'interior', all(v < 0 for v in vals) == inside_spec


EXPLANATION = {'C03': (
    'Contract-based deductive verification of the real MacroBodies functions: for BOX, RPP, SPH, RCC, RHP/HEX with 15 '
    'and with 9 entries, REC with 12 and with 10 entries, TRC, ELL (axis form) and WED the postcondition "facet k of '
    'the returned list, with its side, has the sign of the outward MCNP facet function g_k at every point, in the MCNP '
    'facet order" is discharged for all parameter vectors (z3 nlsat, or identity + sign form with the '
    'ideal/triangular back end). The sub-cards the facets are turned into (P, S, GQ, C, K) are covered by the C02 '
    'chain contracts for every parameter vector; the glue (dispatch, order, sides, transformation number) by '
    'glue[macrobody]; wrong arities by MacroBodies.arity. ELL in the focal form and ARB are bounded stand-ins '
    '(sampled), not proofs. -b -> intersection / +b -> union / b.k is carried by pot_expand_surfs (C01 module).')}
ASSUMPTIONS = {'C03': [
    'MCNP macrobody definitions and facet order as in specs/macrobodies.py (manual); RHP/HEX with 9 entries: s and t '
    'are r turned by +60 and +120 degrees about the axis (calibrated on the converter)',
    'BOX / WED / REC: edge (axis) vectors mutually perpendicular and non-zero is a precondition (MCNP requires right bodies)',
    'ELL with a positive last entry: specification calibrated on the code ("found by trial and error" in the source); sampled only',
    'ARB: sampled only (affine images of the unit cube)',
]}
