"""C07 -- hexagonal lattices follow MCNP's hexagonal index convention."""
import math
import itertools

from t4_geom_convert.Kernel import VectUtils as VU
from t4_geom_convert.Kernel.Volume import Lattice as LT

from pyvc.contract import contract
from pyvc.sym import And, Or, Not, implies, iff, is_sym, ident
from specs.common import dot, sub, add, scale, cross, close


@contract(VU.pointInPlaneIntersection, props=['C07'], name='VectUtils.pointInPlaneIntersection')
class _PIPI:
    """The returned point lies in both planes and the returned direction is a unit vector orthogonal to both normals
    (planes with independent normals)."""
    def cases(S):
        yield 'two-planes', {'plane1': (tuple(S.reals('p1 p2 p3')), tuple(S.reals('n1 n2 n3'))),
                             'plane2': (tuple(S.reals('q1 q2 q3')), tuple(S.reals('m1 m2 m3')))}

    def requires(plane1, plane2):
        c = cross(plane1[1], plane2[1])
        return dot(c, c) > 0

    def ensures(result, plane1, plane2):
        pt, d = result
        yield 'point-in-plane-1', ident(dot(sub(pt, plane1[0]), plane1[1]), 0)
        yield 'point-in-plane-2', ident(dot(sub(pt, plane2[0]), plane2[1]), 0)
        yield 'direction-orthogonal-to-normal-1', ident(dot(d, plane1[1]), 0)
        yield 'direction-orthogonal-to-normal-2', ident(dot(d, plane2[1]), 0)
        yield 'direction-is-a-unit-vector', ident(dot(d, d), 1)


@contract(VU.projectPointOnPlane, props=['C07'], name='VectUtils.projectPointOnPlane')
class _Proj:
    """The result lies on the plane and differs from the point by a multiple of the direction."""
    def cases(S):
        yield 'any', {'point': tuple(S.reals('a1 a2 a3')), 'plane': (tuple(S.reals('p1 p2 p3')), tuple(S.reals('n1 n2 n3'))),
                      'direction': tuple(S.reals('d1 d2 d3'))}

    def requires(point, plane, direction):
        return dot(direction, plane[1]) != 0

    def ensures(result, point, plane, direction):
        yield 'on-the-plane', ident(dot(sub(result, plane[0]), plane[1]), 0)
        for i, x in enumerate(cross(sub(result, point), direction)):
            yield f'displacement-parallel-to-direction[{i}]', ident(x, 0)


@contract(VU.planeSide, props=['C07'], name='VectUtils.planeSide')
class _Side:
    def cases(S):
        yield 'any', {'point': tuple(S.reals('a1 a2 a3')), 'plane': (tuple(S.reals('p1 p2 p3')), tuple(S.reals('n1 n2 n3')))}

    def ensures(result, point, plane):
        g = dot(sub(point, plane[0]), plane[1])
        yield 'sign-of-the-signed-distance', And(implies(g > 0, result == 1), implies(g < 0, result == -1),
                                                 implies(g == 0, result == 0))


# ------------------------------------------------------------------ hexagons (sampled)

def _hexagon(S):
    """A centrally symmetric hexagon (opposite sides parallel and equal: vertices P0, P1, P2, -P0, -P1, -P2 in
    order), regular or irregular, in a random orientation and position; planes listed in MCNP order: the plane across
    which i grows, its opposite, the plane across which j grows, its opposite, the remaining pair; optionally two cap
    planes (top = seventh, bottom = eighth)."""
    rng = S.rng
    if rng.random() < 0.4:
        r = rng.choice([1.0, 0.5, 2.0])
        ang0 = rng.uniform(0, 2 * math.pi)
        P = [(r * math.cos(ang0 + k * math.pi / 3), r * math.sin(ang0 + k * math.pi / 3)) for k in range(3)]
    else:
        while True:
            P = [(rng.uniform(-2, 2), rng.uniform(-2, 2)) for _ in range(3)]
            verts = P + [(-x, -y) for x, y in P]
            ok = True
            for k in range(6):
                a, b, c = verts[k], verts[(k + 1) % 6], verts[(k + 2) % 6]
                cr = (b[0] - a[0]) * (c[1] - b[1]) - (b[1] - a[1]) * (c[0] - b[0])
                if cr < 0.3:
                    ok = False
            if ok:
                break
    verts = P + [(-x, -y) for x, y in P]
    # random orthonormal frame
    from contracts.c04 import sample_rotation
    R = sample_rotation(S, 'hex_')
    e1, e2, e3 = [tuple(R[i][j] for i in range(3)) for j in range(3)]
    c = tuple(S.reals('hx hy hz'))

    def lift(v, h=0.0):
        return tuple(c[i] + v[0] * e1[i] + v[1] * e2[i] + h * e3[i] for i in range(3))
    sides = []
    for k in range(6):
        a, b = verts[k], verts[(k + 1) % 6]
        edge = (b[0] - a[0], b[1] - a[1])
        n2 = (edge[1], -edge[0])             # in-plane normal
        nrm = tuple(n2[0] * e1[i] + n2[1] * e2[i] for i in range(3))
        if rng.random() < 0.5:
            nrm = tuple(-x for x in nrm)
        pt = lift(a, rng.uniform(-1, 1))
        side = 1 if dot(sub(c, pt), nrm) > 0 else -1
        mid = ((a[0] + b[0]) / 2, (a[1] + b[1]) / 2)
        transl = tuple(2 * (mid[0] * e1[i] + mid[1] * e2[i]) for i in range(3))
        sides.append((((pt, nrm), side), transl))
    first = rng.randrange(6)
    third = rng.choice([k for k in range(6) if k % 3 != first % 3])
    rest = [k for k in range(6) if k % 3 not in (first % 3, third % 3)]
    rng.shuffle(rest)
    order = [first, (first + 3) % 6, third, (third + 3) % 6] + rest
    surfaces = [sides[k][0] for k in order]
    want = [sides[first][1], sides[third][1]]
    if rng.random() < 0.5:
        top_h, bot_h = rng.choice([(1.0, -0.5), (0.75, 0.0), (2.0, -2.0)])
        tilt = e3
        for h, s_ in ((top_h, -1), (bot_h, 1)):
            nrm = tilt if rng.random() < 0.5 else tuple(-x for x in tilt)
            pt = lift((rng.uniform(-1, 1), rng.uniform(-1, 1)), h)
            side = 1 if dot(sub(c, pt), nrm) > 0 else -1
            surfaces.append(((pt, nrm), side))
        want.append(tuple((top_h - bot_h) * e3[i] for i in range(3)))
    return surfaces, want


@contract(LT.hexLatticeBaseVectors, props=['C07'], name='Lattice.hexLatticeBaseVectors', status='S')
class _HexBase:
    """Sampled stand-in: a1 carries the prism across the first-listed plane, a2 across the third-listed plane (whether
    or not it is adjacent to the first), a3 from the eighth-listed (bottom) to the seventh-listed (top) cap along the
    axis; regular and irregular centrally symmetric hexagons in random orientation."""
    samples = 400

    def cases(S):
        if S.mode == 'sym':
            yield 'sampled-hexagons', {'surfaces': None, 'want': None}
            return
        surfaces, want = _hexagon(S)
        yield 'sampled-hexagons', {'surfaces': surfaces, 'want': want}

    def call(surfaces, want):
        return LT.hexLatticeBaseVectors(surfaces)

    def ensures(result, surfaces, want):
        yield 'as-many-vectors', len(result) == len(want)
        for k, (a, w) in enumerate(zip(result, want), start=1):
            yield f'a{k}', all(abs(x - y) < 1e-7 for x, y in zip(a, w))


@contract(LT.hexSortSides, props=['C07', 'C17'], name='Lattice.hexSortSides[count]', status='B')
class _HexCount:
    scope = 'surface lists of length 0..8 other than 6'

    def bounded(tier):
        for n in (0, 1, 5, 7, 8):
            yield {'n': n}

    def call(n):
        return LT.hexSortSides([(((0., 0., float(i)), (0., 0., 1.)), 1) for i in range(n)])

    raises = {LT.LatticeError: lambda n: True}

    def ensures(result, n):
        return []


LEVEL = {'C07': 'other'}


def _sweep_c07(tier, seed):
    from harness.sweeps import deck_sweep
    return deck_sweep('C07', tier, seed, families=('hexlattice',), n_quick=48, n_thorough=600,
                      kw={'remap': {'C06': 'C07'}})


BOUNDED = {'C07': [_sweep_c07]}
EXPLANATION = {'C07': (
    'Proved for all inputs on the real code: pointInPlaneIntersection (point in both planes, unit direction orthogonal '
    'to both normals), projectPointOnPlane, planeSide, latticeVector (C06). hexLatticeBaseVectors, hexVertices and '
    'hexSortSides (data-dependent walk over the adjacency of the six planes) are NOT proved: they are covered by a '
    'sampled stand-in on seeded regular and irregular centrally symmetric hexagons in random orientation, all '
    'admissible listing orders (third-listed plane adjacent or not), either normal orientation, with and without cap '
    'planes. The top-level claim of C07 therefore rests on a sampled contract, plus a bounded deck sweep (family '
    'hexlattice: LAT=2 prisms parallel to z, regular and irregular hexagons, FILL arrays over i and j, probe points '
    'located by an independent oracle that tiles the base prism with a1 and a2).')}
ASSUMPTIONS = {'C07': [
    'hexagonal convention (property text): a1 across the first-listed plane, a2 across the third-listed, a3 across the seventh',
    'hexVertices / hexSortSides: sampled only; develop_lattice for LAT=2: discharged modular contract (c06, base vectors arbitrary) plus the bounded hexlattice deck sweep (prisms parallel to z, 2-D index ranges)',
]}
