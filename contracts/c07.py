"""C07 -- hexagonal lattices follow MCNP's hexagonal index convention."""
import math
import itertools

from t4_geom_convert.Kernel import VectUtils as VU
from t4_geom_convert.Kernel.Volume import Lattice as LT

from pyvc.contract import contract
from pyvc.sym import And, Or, Not, implies, iff, is_sym, ident
from specs.common import dot, sub, add, scale, cross, close


@contract(VU.pointInPlaneIntersection, props=['C07'], name='VectUtils.pointInPlaneIntersection')
class _PIPI:
    """The returned point lies in both planes and the returned direction is a unit vector orthogonal to both normals
    (planes with independent normals)."""
    def cases(S):
        yield 'two-planes', {'plane1': (tuple(S.reals('p1 p2 p3')), tuple(S.reals('n1 n2 n3'))),
                             'plane2': (tuple(S.reals('q1 q2 q3')), tuple(S.reals('m1 m2 m3')))}

    def requires(plane1, plane2):
        c = cross(plane1[1], plane2[1])
        return dot(c, c) > 0

    def ensures(result, plane1, plane2):
        pt, d = result
        yield 'point-in-plane-1', ident(dot(sub(pt, plane1[0]), plane1[1]), 0)
        yield 'point-in-plane-2', ident(dot(sub(pt, plane2[0]), plane2[1]), 0)
        yield 'direction-orthogonal-to-normal-1', ident(dot(d, plane1[1]), 0)
        yield 'direction-orthogonal-to-normal-2', ident(dot(d, plane2[1]), 0)
        yield 'direction-is-a-unit-vector', ident(dot(d, d), 1)


@contract(VU.projectPointOnPlane, props=['C07'], name='VectUtils.projectPointOnPlane')
class _Proj:
    """The result lies on the plane and differs from the point by a multiple of the direction."""
    def cases(S):
        yield 'any', {'point': tuple(S.reals('a1 a2 a3')), 'plane': (tuple(S.reals('p1 p2 p3')), tuple(S.reals('n1 n2 n3'))),
                      'direction': tuple(S.reals('d1 d2 d3'))}

    def requires(point, plane, direction):
        return dot(direction, plane[1]) != 0

    def ensures(result, point, plane, direction):
        yield 'on-the-plane', ident(dot(sub(result, plane[0]), plane[1]), 0)
        for i, x in enumerate(cross(sub(result, point), direction)):
            yield f'displacement-parallel-to-direction[{i}]', ident(x, 0)


@contract(VU.planeSide, props=['C07'], name='VectUtils.planeSide')
class _Side:
    def cases(S):
        yield 'any', {'point': tuple(S.reals('a1 a2 a3')), 'plane': (tuple(S.reals('p1 p2 p3')), tuple(S.reals('n1 n2 n3')))}

    def ensures(result, point, plane):
        g = dot(sub(point, plane[0]), plane[1])
        yield 'sign-of-the-signed-distance', And(implies(g > 0, result == 1), implies(g < 0, result == -1),
                                                 implies(g == 0, result == 0))


# ------------------------------------------------------------------ hexagons (sampled)

def _hexagon(S):
    """A centrally symmetric hexagon (opposite sides parallel and equal: vertices P0, P1, P2, -P0, -P1, -P2 in
    order), regular or irregular, in a random orientation and position; planes listed in MCNP order: the plane across
    which i grows, its opposite, the plane across which j grows, its opposite, the remaining pair; optionally two cap
    planes (top = seventh, bottom = eighth)."""
    rng = S.rng
    if rng.random() < 0.4:
        r = rng.choice([1.0, 0.5, 2.0])
        ang0 = rng.uniform(0, 2 * math.pi)
        P = [(r * math.cos(ang0 + k * math.pi / 3), r * math.sin(ang0 + k * math.pi / 3)) for k in range(3)]
    else:
        while True:
            P = [(rng.uniform(-2, 2), rng.uniform(-2, 2)) for _ in range(3)]
            verts = P + [(-x, -y) for x, y in P]
            ok = True
            for k in range(6):
                a, b, c = verts[k], verts[(k + 1) % 6], verts[(k + 2) % 6]
                cr = (b[0] - a[0]) * (c[1] - b[1]) - (b[1] - a[1]) * (c[0] - b[0])
                if cr < 0.3:
                    ok = False
            if ok:
                break
    verts = P + [(-x, -y) for x, y in P]
    # random orthonormal frame
    from contracts.c04 import sample_rotation
    R = sample_rotation(S, 'hex_')
    e1, e2, e3 = [tuple(R[i][j] for i in range(3)) for j in range(3)]
    c = tuple(S.reals('hx hy hz'))

    def lift(v, h=0.0):
        return tuple(c[i] + v[0] * e1[i] + v[1] * e2[i] + h * e3[i] for i in range(3))
    sides = []
    for k in range(6):
        a, b = verts[k], verts[(k + 1) % 6]
        edge = (b[0] - a[0], b[1] - a[1])
        n2 = (edge[1], -edge[0])             # in-plane normal
        nrm = tuple(n2[0] * e1[i] + n2[1] * e2[i] for i in range(3))
        if rng.random() < 0.5:
            nrm = tuple(-x for x in nrm)
        pt = lift(a, rng.uniform(-1, 1))
        side = 1 if dot(sub(c, pt), nrm) > 0 else -1
        mid = ((a[0] + b[0]) / 2, (a[1] + b[1]) / 2)
        transl = tuple(2 * (mid[0] * e1[i] + mid[1] * e2[i]) for i in range(3))
        sides.append((((pt, nrm), side), transl))
    first = rng.randrange(6)
    third = rng.choice([k for k in range(6) if k % 3 != first % 3])
    rest = [k for k in range(6) if k % 3 not in (first % 3, third % 3)]
    rng.shuffle(rest)
    order = [first, (first + 3) % 6, third, (third + 3) % 6] + rest
    surfaces = [sides[k][0] for k in order]
    want = [sides[first][1], sides[third][1]]
    if rng.random() < 0.5:
        top_h, bot_h = rng.choice([(1.0, -0.5), (0.75, 0.0), (2.0, -2.0)])
        tilt = e3
        for h, s_ in ((top_h, -1), (bot_h, 1)):
            nrm = tilt if rng.random() < 0.5 else tuple(-x for x in tilt)
            pt = lift((rng.uniform(-1, 1), rng.uniform(-1, 1)), h)
            side = 1 if dot(sub(c, pt), nrm) > 0 else -1
            surfaces.append(((pt, nrm), side))
        want.append(tuple((top_h - bot_h) * e3[i] for i in range(3)))
    return surfaces, want


@contract(LT.hexLatticeBaseVectors, props=['C07'], name='Lattice.hexLatticeBaseVectors', status='S')
class _HexBase:
    """Sampled stand-in: a1 carries the prism across the first-listed plane, a2 across the third-listed plane (whether
    or not it is adjacent to the first), a3 from the eighth-listed (bottom) to the seventh-listed (top) cap along the
    axis; regular and irregular centrally symmetric hexagons in random orientation."""
    samples = 400

    def cases(S):
        if S.mode == 'sym':
            yield 'sampled-hexagons', {'surfaces': None, 'want': None}
            return
        surfaces, want = _hexagon(S)
        yield 'sampled-hexagons', {'surfaces': surfaces, 'want': want}

    def call(surfaces, want):
        return LT.hexLatticeBaseVectors(surfaces)

    def ensures(result, surfaces, want):
        yield 'as-many-vectors', len(result) == len(want)
        for k, (a, w) in enumerate(zip(result, want), start=1):
            yield f'a{k}', all(abs(x - y) < 1e-7 for x, y in zip(a, w))


# ------------------------------------------------------------------ base vectors, given the adjacency (modular)

_HEX_STATE = {}


def _hex_listings():
    """position in the card -> side of the hexagon (sides numbered 0..5 around it): positions (0,1), (2,3), (4,5) are
    pairs of opposite sides."""
    for a in range(6):
        for b in range(6):
            if b % 3 == a % 3:
                continue
            for c in range(6):
                if c % 3 in (a % 3, b % 3):
                    continue
                yield (a, (a + 3) % 6, b, (b + 3) % 6, c, (c + 3) % 6)


def _hex_sort_hook(it, f, args, kw):
    """hexSortSides by contract: (i, j) -> None for sides that are not adjacent, else (a point of the edge shared by
    the two sides, the direction of the prism axis up to sign)."""
    it.p.calls.append({'callee': 'hexSortSides', 'args': [args[0]], 'kw': {}, 'result': None})
    return dict(_HEX_STATE['adjacency'])


_hex_sort_hook.callee_name = 'hexSortSides'


@contract(LT.hexLatticeBaseVectors, props=['C07'], name='Lattice.hexLatticeBaseVectors[given-adjacency]')
class _HexBaseP:
    """For EVERY centrally symmetric hexagon (centre c, vertices c +- u0, c +- u1, c +- u2 in a plane perpendicular to
    the axis d, arbitrary position along the axis of the points reported for the edges, either sign of the reported
    axis direction) and every admissible listing of its six sides (48), with or without the two cap planes: a1 is
    twice the vector from the centre to the midpoint of the first-listed side, a2 the same for the third-listed side
    (adjacent to the first or not), a3 the vector from the bottom cap to the top cap along the axis.  hexSortSides is
    replaced by its contract (which pairs of sides are adjacent, and a point of their common edge): it is itself only
    under the sampled contract above."""
    native = False
    hooks = {LT.hexSortSides: _hex_sort_hook}

    def cases(S):
        import os
        listings = list(_hex_listings())
        if os.environ.get('VERIF_TIER') != 'thorough':
            listings = listings[::4]
        for li, g in enumerate(listings):
            for caps in (False, True):
                for signs in ('+', '+-'):
                    if caps and signs == '+-' and li % 3:
                        continue
                    yield f'listing={"".join(map(str, g))}/caps={int(caps)}/axis-signs={signs}', {
                        'g': g, 'caps': caps, 'signs': signs,
                        'c': S.reals('c1 c2 c3'), 'd': S.reals('d1 d2 d3'),
                        'u': [S.reals([f'u{k}{x}' for x in 'xyz']) for k in range(3)],
                        'h': S.reals([f'h{k}' for k in range(6)]), 'caps_at': S.reals('top bot tx ty bx by')}

    def requires(g, caps, signs, c, d, u, h, caps_at):
        return And(dot(d, d) == 1, *[dot(uk, d) == 0 for uk in u])

    def call(g, caps, signs, c, d, u, h, caps_at):
        U = [u[0], u[1], u[2], scale(-1, u[0]), scale(-1, u[1]), scale(-1, u[2])]
        P = [add(c, U[k]) for k in range(6)]           # vertex k is shared by the sides k and k+1
        adjacency = {}
        n = 0
        for i in range(6):
            for j in range(i + 1, 6):
                gi, gj = g[i], g[j]
                if (gi + 1) % 6 == gj:
                    k = gi
                elif (gj + 1) % 6 == gi:
                    k = gj
                else:
                    adjacency[(i, j)] = None
                    continue
                sg = -1.0 if (signs == '+-' and n % 2) else 1.0
                adjacency[(i, j)] = (tuple(add(P[k], scale(h[k], d))), tuple(scale(sg, d)))
                n += 1
        _HEX_STATE['adjacency'] = adjacency
        surfaces = [((('unused',), ('unused',)), 1)] * 6
        if caps:
            top, bot, tx, ty, bx, by = caps_at
            surfaces = surfaces + [((tuple(add(c, scale(top, d))), tuple(d)), -1),
                                   ((tuple(add(c, scale(bot, d))), tuple(scale(-1.0, d))), -1)]
        return LT.hexLatticeBaseVectors(surfaces)

    def ensures(result, g, caps, signs, c, d, u, h, caps_at):
        U = [u[0], u[1], u[2], scale(-1, u[0]), scale(-1, u[1]), scale(-1, u[2])]
        yield 'number-of-vectors', len(result) == (3 if caps else 2)
        for name, pos, vec in (('a1', 0, result[0]), ('a2', 2, result[1])):
            side = g[pos]                                   # its end points are the vertices side-1 and side
            want = add(U[(side - 1) % 6], U[side])
            yield f'{name}:twice-centre-to-midpoint-of-the-listed-side', And(*[close(a, b) for a, b in zip(vec, want)])
        if caps:
            top, bot = caps_at[0], caps_at[1]
            yield 'a3:from-the-bottom-cap-to-the-top-cap-along-the-axis', And(*[close(a, b) for a, b in zip(result[2], scale(top - bot, d))])


@contract(LT.hexSortSides, props=['C07', 'C17'], name='Lattice.hexSortSides[count]', status='B')
class _HexCount:
    scope = 'surface lists of length 0..8 other than 6'

    def bounded(tier):
        for n in (0, 1, 5, 7, 8):
            yield {'n': n}

    def call(n):
        return LT.hexSortSides([(((0., 0., float(i)), (0., 0., 1.)), 1) for i in range(n)])

    raises = {LT.LatticeError: lambda n: True}

    def ensures(result, n):
        return []


LEVEL = {'C07': 'other'}


def _sweep_c07(tier, seed):
    from harness.sweeps import deck_sweep
    return deck_sweep('C07', tier, seed, families=('hexlattice',), n_quick=48, n_thorough=600,
                      kw={'remap': {'C06': 'C07'}})


BOUNDED = {'C07': [_sweep_c07]}
EXPLANATION = {'C07': (
    'Proved for all inputs on the real code: pointInPlaneIntersection (point in both planes, unit direction orthogonal '
    'to both normals), projectPointOnPlane, planeSide, latticeVector (C06). hexLatticeBaseVectors, hexVertices and '
    'hexSortSides (data-dependent walk over the adjacency of the six planes) are NOT proved: they are covered by a '
    'sampled stand-in on seeded regular and irregular centrally symmetric hexagons in random orientation, all '
    'admissible listing orders (third-listed plane adjacent or not), either normal orientation, with and without cap '
    'planes. Given the adjacency that hexSortSides reports, hexVertices + hexLatticeBaseVectors are proved for every '
    'centrally symmetric hexagon, every admissible listing and with / without caps (modular contract). The top-level '
    'claim of C07 therefore rests on the sampled contract only for hexSortSides, plus a bounded deck sweep (family '
    'hexlattice: LAT=2 prisms parallel to z, regular and irregular hexagons, FILL arrays over i and j, probe points '
    'located by an independent oracle that tiles the base prism with a1 and a2).')}
ASSUMPTIONS = {'C07': [
    'hexagonal convention (property text): a1 across the first-listed plane, a2 across the third-listed, a3 across the seventh',
    'hexSortSides (which listed planes are adjacent): sampled only -- a discharged contract on a symbolic hexagon was tried (solver-pruned branches, pointInPlaneIntersection by contract) and abandoned: more than 180 s per listing; hexVertices / hexLatticeBaseVectors: proved given that adjacency; develop_lattice for LAT=2: discharged modular contract (c06, base vectors arbitrary) plus the bounded hexlattice deck sweep (prisms parallel to z, 2-D index ranges)',
]}
