"""C07 -- hexagonal lattices follow MCNP's hexagonal index convention."""
import math
import itertools

from t4_geom_convert.Kernel import VectUtils as VU
from t4_geom_convert.Kernel.Volume import Lattice as LT

from pyvc.contract import contract
from pyvc.sym import And, Or, Not, implies, iff, is_sym, ident
from specs.common import dot, sub, add, scale, cross, close


@contract(VU.pointInPlaneIntersection, props=['C07'], name='VectUtils.pointInPlaneIntersection')
class _PIPI:
    """The returned point lies in both planes and the returned direction is a unit vector orthogonal to both normals
    (planes with independent normals)."""
    def cases(S):
        yield 'two-planes', {'plane1': (tuple(S.reals('p1 p2 p3')), tuple(S.reals('n1 n2 n3'))),
                             'plane2': (tuple(S.reals('q1 q2 q3')), tuple(S.reals('m1 m2 m3')))}

    def requires(plane1, plane2):
        c = cross(plane1[1], plane2[1])
        return dot(c, c) > 0

    def ensures(result, plane1, plane2):
        pt, d = result
        yield 'point-in-plane-1', ident(dot(sub(pt, plane1[0]), plane1[1]), 0)
        yield 'point-in-plane-2', ident(dot(sub(pt, plane2[0]), plane2[1]), 0)
        yield 'direction-orthogonal-to-normal-1', ident(dot(d, plane1[1]), 0)
        yield 'direction-orthogonal-to-normal-2', ident(dot(d, plane2[1]), 0)
        yield 'direction-is-a-unit-vector', ident(dot(d, d), 1)


@contract(VU.projectPointOnPlane, props=['C07'], name='VectUtils.projectPointOnPlane')
class _Proj:
    """The result lies on the plane and differs from the point by a multiple of the direction."""
    def cases(S):
        yield 'any', {'point': tuple(S.reals('a1 a2 a3')), 'plane': (tuple(S.reals('p1 p2 p3')), tuple(S.reals('n1 n2 n3'))),
                      'direction': tuple(S.reals('d1 d2 d3'))}

    def requires(point, plane, direction):
        return dot(direction, plane[1]) != 0

    def ensures(result, point, plane, direction):
        yield 'on-the-plane', ident(dot(sub(result, plane[0]), plane[1]), 0)
        for i, x in enumerate(cross(sub(result, point), direction)):
            yield f'displacement-parallel-to-direction[{i}]', ident(x, 0)


@contract(VU.planeSide, props=['C07'], name='VectUtils.planeSide')
class _Side:
    def cases(S):
        yield 'any', {'point': tuple(S.reals('a1 a2 a3')), 'plane': (tuple(S.reals('p1 p2 p3')), tuple(S.reals('n1 n2 n3')))}

    def ensures(result, point, plane):
        g = dot(sub(point, plane[0]), plane[1])
        yield 'sign-of-the-signed-distance', And(implies(g > 0, result == 1), implies(g < 0, result == -1),
                                                 implies(g == 0, result == 0))


# ------------------------------------------------------------------ hexagons (sampled)

def _hexagon(S):
    """A centrally symmetric hexagon (opposite sides parallel and equal: vertices P0, P1, P2, -P0, -P1, -P2 in
    order), regular or irregular, in a random orientation and position; planes listed in MCNP order: the plane across
    which i grows, its opposite, the plane across which j grows, its opposite, the remaining pair; optionally two cap
    planes (top = seventh, bottom = eighth)."""
    rng = S.rng
    if rng.random() < 0.4:
        r = rng.choice([1.0, 0.5, 2.0])
        ang0 = rng.uniform(0, 2 * math.pi)
        P = [(r * math.cos(ang0 + k * math.pi / 3), r * math.sin(ang0 + k * math.pi / 3)) for k in range(3)]
    else:
        while True:
            P = [(rng.uniform(-2, 2), rng.uniform(-2, 2)) for _ in range(3)]
            verts = P + [(-x, -y) for x, y in P]
            ok = True
            for k in range(6):
                a, b, c = verts[k], verts[(k + 1) % 6], verts[(k + 2) % 6]
                cr = (b[0] - a[0]) * (c[1] - b[1]) - (b[1] - a[1]) * (c[0] - b[0])
                if cr < 0.3:
                    ok = False
            if ok:
                break
    verts = P + [(-x, -y) for x, y in P]
    # random orthonormal frame
    from contracts.c04 import sample_rotation
    R = sample_rotation(S, 'hex_')
    e1, e2, e3 = [tuple(R[i][j] for i in range(3)) for j in range(3)]
    c = tuple(S.reals('hx hy hz'))

    def lift(v, h=0.0):
        return tuple(c[i] + v[0] * e1[i] + v[1] * e2[i] + h * e3[i] for i in range(3))
    sides = []
    for k in range(6):
        a, b = verts[k], verts[(k + 1) % 6]
        edge = (b[0] - a[0], b[1] - a[1])
        n2 = (edge[1], -edge[0])             # in-plane normal
        nrm = tuple(n2[0] * e1[i] + n2[1] * e2[i] for i in range(3))
        if rng.random() < 0.5:
            nrm = tuple(-x for x in nrm)
        pt = lift(a, rng.uniform(-1, 1))
        side = 1 if dot(sub(c, pt), nrm) > 0 else -1
        mid = ((a[0] + b[0]) / 2, (a[1] + b[1]) / 2)
        transl = tuple(2 * (mid[0] * e1[i] + mid[1] * e2[i]) for i in range(3))
        sides.append((((pt, nrm), side), transl))
    first = rng.randrange(6)
    third = rng.choice([k for k in range(6) if k % 3 != first % 3])
    rest = [k for k in range(6) if k % 3 not in (first % 3, third % 3)]
    rng.shuffle(rest)
    order = [first, (first + 3) % 6, third, (third + 3) % 6] + rest
    surfaces = [sides[k][0] for k in order]
    want = [sides[first][1], sides[third][1]]
    if rng.random() < 0.5:
        top_h, bot_h = rng.choice([(1.0, -0.5), (0.75, 0.0), (2.0, -2.0)])
        tilt = e3
        for h, s_ in ((top_h, -1), (bot_h, 1)):
            nrm = tilt if rng.random() < 0.5 else tuple(-x for x in tilt)
            pt = lift((rng.uniform(-1, 1), rng.uniform(-1, 1)), h)
            side = 1 if dot(sub(c, pt), nrm) > 0 else -1
            surfaces.append(((pt, nrm), side))
        want.append(tuple((top_h - bot_h) * e3[i] for i in range(3)))
    return surfaces, want


@contract(LT.hexLatticeBaseVectors, props=['C07'], name='Lattice.hexLatticeBaseVectors', status='S')
class _HexBase:
    """Sampled stand-in: a1 carries the prism across the first-listed plane, a2 across the third-listed plane (whether
    or not it is adjacent to the first), a3 from the eighth-listed (bottom) to the seventh-listed (top) cap along the
    axis; regular and irregular centrally symmetric hexagons in random orientation."""
    samples = 400

    def cases(S):
        if S.mode == 'sym':
            yield 'sampled-hexagons', {'surfaces': None, 'want': None}
            return
        surfaces, want = _hexagon(S)
        yield 'sampled-hexagons', {'surfaces': surfaces, 'want': want}

    def call(surfaces, want):
        return LT.hexLatticeBaseVectors(surfaces)

    def ensures(result, surfaces, want):
        yield 'as-many-vectors', len(result) == len(want)
        for k, (a, w) in enumerate(zip(result, want), start=1):
            yield f'a{k}', all(abs(x - y) < 1e-7 for x, y in zip(a, w))


# ------------------------------------------------------------------ base vectors, given the adjacency (modular)

_HEX_STATE = {}


def _hex_listings():
    """position in the card -> side of the hexagon (sides numbered 0..5 around it): positions (0,1), (2,3), (4,5) are
    pairs of opposite sides."""
    for a in range(6):
        for b in range(6):
            if b % 3 == a % 3:
                continue
            for c in range(6):
                if c % 3 in (a % 3, b % 3):
                    continue
                yield (a, (a + 3) % 6, b, (b + 3) % 6, c, (c + 3) % 6)


def _hex_sort_hook(it, f, args, kw):
    """hexSortSides by contract: (i, j) -> None for sides that are not adjacent, else (a point of the edge shared by
    the two sides, the direction of the prism axis up to sign)."""
    it.p.calls.append({'callee': 'hexSortSides', 'args': [args[0]], 'kw': {}, 'result': None})
    return dict(_HEX_STATE['adjacency'])


_hex_sort_hook.callee_name = 'hexSortSides'


@contract(LT.hexLatticeBaseVectors, props=['C07'], name='Lattice.hexLatticeBaseVectors[given-adjacency]')
class _HexBaseP:
    """For EVERY centrally symmetric hexagon (centre c, vertices c +- u0, c +- u1, c +- u2 in a plane perpendicular to
    the axis d, arbitrary position along the axis of the points reported for the edges, either sign of the reported
    axis direction) and every admissible listing of its six sides (48), with or without the two cap planes: a1 is
    twice the vector from the centre to the midpoint of the first-listed side, a2 the same for the third-listed side
    (adjacent to the first or not), a3 the vector from the bottom cap to the top cap along the axis.  hexSortSides is
    replaced by its contract (which pairs of sides are adjacent, and a point of their common edge): it is itself only
    under the sampled contract above."""
    native = False
    hooks = {LT.hexSortSides: _hex_sort_hook}

    def cases(S):
        import os
        listings = list(_hex_listings())
        if os.environ.get('VERIF_TIER') != 'thorough':
            listings = listings[::4]
        for li, g in enumerate(listings):
            for caps in (False, True):
                for signs in ('+', '+-'):
                    if caps and signs == '+-' and li % 3:
                        continue
                    yield f'listing={"".join(map(str, g))}/caps={int(caps)}/axis-signs={signs}', {
                        'g': g, 'caps': caps, 'signs': signs,
                        'c': S.reals('c1 c2 c3'), 'd': S.reals('d1 d2 d3'),
                        'u': [S.reals([f'u{k}{x}' for x in 'xyz']) for k in range(3)],
                        'h': S.reals([f'h{k}' for k in range(6)]), 'caps_at': S.reals('top bot tx ty bx by')}

    def requires(g, caps, signs, c, d, u, h, caps_at):
        return And(dot(d, d) == 1, *[dot(uk, d) == 0 for uk in u])

    def call(g, caps, signs, c, d, u, h, caps_at):
        U = [u[0], u[1], u[2], scale(-1, u[0]), scale(-1, u[1]), scale(-1, u[2])]
        P = [add(c, U[k]) for k in range(6)]           # vertex k is shared by the sides k and k+1
        adjacency = {}
        n = 0
        for i in range(6):
            for j in range(i + 1, 6):
                gi, gj = g[i], g[j]
                if (gi + 1) % 6 == gj:
                    k = gi
                elif (gj + 1) % 6 == gi:
                    k = gj
                else:
                    adjacency[(i, j)] = None
                    continue
                sg = -1.0 if (signs == '+-' and n % 2) else 1.0
                adjacency[(i, j)] = (tuple(add(P[k], scale(h[k], d))), tuple(scale(sg, d)))
                n += 1
        _HEX_STATE['adjacency'] = adjacency
        surfaces = [((('unused',), ('unused',)), 1)] * 6
        if caps:
            top, bot, tx, ty, bx, by = caps_at
            surfaces = surfaces + [((tuple(add(c, scale(top, d))), tuple(d)), -1),
                                   ((tuple(add(c, scale(bot, d))), tuple(scale(-1.0, d))), -1)]
        return LT.hexLatticeBaseVectors(surfaces)

    def ensures(result, g, caps, signs, c, d, u, h, caps_at):
        U = [u[0], u[1], u[2], scale(-1, u[0]), scale(-1, u[1]), scale(-1, u[2])]
        yield 'number-of-vectors', len(result) == (3 if caps else 2)
        for name, pos, vec in (('a1', 0, result[0]), ('a2', 2, result[1])):
            side = g[pos]                                   # its end points are the vertices side-1 and side
            want = add(U[(side - 1) % 6], U[side])
            yield f'{name}:twice-centre-to-midpoint-of-the-listed-side', And(*[close(a, b) for a, b in zip(vec, want)])
        if caps:
            top, bot = caps_at[0], caps_at[1]
            yield 'a3:from-the-bottom-cap-to-the-top-cap-along-the-axis', And(*[close(a, b) for a, b in zip(result[2], scale(top - bot, d))])


# ------------------------------------------------------------------ which listed planes are adjacent (modular chain)
#   lemma.hexagon-adjacency        geometry: in a hexagonal prism, two non-parallel side planes are adjacent iff their
#                                  common line lies strictly on the cell's side of both planes of the remaining pair
#   areHexSidesAdjacent            the real function returns the common line exactly when that test succeeds
#   hexSortSides[pairing]          the real function applies the test to every pair of planes from different pairs,
#                                  with the two planes of the REMAINING pair, and demands exactly six adjacent pairs

def _pipi_shape(fresh, plane1, plane2):
    return ((fresh('x'), fresh('y'), fresh('z')), (fresh('dx'), fresh('dy'), fresh('dz')))


def _pipi_assume(res, plane1, plane2):
    pt, d = res
    return [dot(sub(pt, plane1[0]), plane1[1]) == 0, dot(sub(pt, plane2[0]), plane2[1]) == 0,
            dot(d, plane1[1]) == 0, dot(d, plane2[1]) == 0, dot(d, d) == 1]


def _pipi_requires(plane1, plane2):
    c = cross(plane1[1], plane2[1])
    return dot(c, c) > 0


@contract(LT.areHexSidesAdjacent, props=['C07'], name='Lattice.areHexSidesAdjacent')
class _Adjacent:
    """The common line of the two planes is returned exactly when its point lies strictly on the stated side of both
    other planes; otherwise None.  pointInPlaneIntersection by contract (a point of both planes, a unit direction
    orthogonal to both normals; its precondition -- independent normals -- is an obligation here)."""
    native = False
    hooks = {}

    def cases(S):
        for s1 in (1, -1):
            for s2 in (1, -1):
                yield f'sides={s1:+d},{s2:+d}', {
                    'plane1': (tuple(S.reals('p1 p2 p3')), tuple(S.reals('n1 n2 n3'))),
                    'plane2': (tuple(S.reals('q1 q2 q3')), tuple(S.reals('m1 m2 m3'))),
                    'other_surf1': ((tuple(S.reals('a1 a2 a3')), tuple(S.reals('k1 k2 k3'))), s1),
                    'other_surf2': ((tuple(S.reals('b1 b2 b3')), tuple(S.reals('l1 l2 l3'))), s2)}

    def requires(plane1, plane2, other_surf1, other_surf2, calls=None):
        return _pipi_requires(plane1, plane2)

    def ensures(result, plane1, plane2, other_surf1, other_surf2, calls):
        pt, d = calls.result('pointInPlaneIntersection')
        a1, a2 = calls.args('pointInPlaneIntersection')
        yield 'common-line-of-the-two-planes', a1 is plane1 and a2 is plane2 or (a1 == plane1 and a2 == plane2)
        g1 = dot(sub(pt, other_surf1[0][0]), other_surf1[0][1]) * other_surf1[1]
        g2 = dot(sub(pt, other_surf2[0][0]), other_surf2[0][1]) * other_surf2[1]
        inside = And(g1 > 0, g2 > 0)
        if result is None:
            yield 'none-only-when-the-line-is-not-strictly-inside', Not(inside)
        else:
            yield 'line-returned-only-when-strictly-inside', inside
            yield 'the-line-is-the-common-line', result[0] is pt and result[1] is d or (tuple(result[0]) == tuple(pt) and tuple(result[1]) == tuple(d))


def _install_adjacent_hook():
    from pyvc.interp import havoc
    _Adjacent.hooks = {LT.pointInPlaneIntersection: havoc('pointInPlaneIntersection', _pipi_shape, assume=_pipi_assume,
                                                          requires=_pipi_requires)}


_install_adjacent_hook()

def _deep_tuple(x):
    return tuple(_deep_tuple(y) for y in x) if isinstance(x, (list, tuple)) else x


_CROSS_PAIRS = [(i, j) for i in range(6) for j in range(i + 1, 6) if i // 2 != j // 2]
_SORT_STATE = {}


def _adjacent_hook(it, f, args, kw):
    """areHexSidesAdjacent by contract: None or a line; which of the two is the pattern of the current case."""
    n = len([c for c in it.p.calls if c['callee'] == 'areHexSidesAdjacent'])
    res = ('line', n) if _SORT_STATE['pattern'][n] else None
    it.p.calls.append({'callee': 'areHexSidesAdjacent', 'args': list(args), 'kw': dict(kw), 'result': res})
    return res


_adjacent_hook.callee_name = 'areHexSidesAdjacent'


@contract(LT.hexSortSides, props=['C07', 'C17'], name='Lattice.hexSortSides[pairing]')
class _SortPairing:
    """For EVERY outcome of the twelve adjacency tests (2^12 patterns; areHexSidesAdjacent by contract): the tests are
    made for exactly the pairs of planes from different listed pairs, each with the two surfaces of the remaining
    listed pair; the dictionary holds the test result for those and None for the planes of one listed pair; anything
    but six adjacent pairs is rejected."""
    native = False
    hooks = {LT.areHexSidesAdjacent: _adjacent_hook}

    def cases(S):
        for bits in range(1 << 12):
            pattern = tuple(bool(bits >> k & 1) for k in range(12))
            yield 'pattern=' + ''.join('1' if b else '0' for b in pattern), {'pattern': pattern}

    def call(pattern):
        _SORT_STATE['pattern'] = pattern
        surfs = [((f'point{i}', f'normal{i}'), f'side{i}') for i in range(6)]
        return LT.hexSortSides(surfs), surfs

    raises = {LT.LatticeError: lambda pattern, calls=None: sum(pattern) != 6}

    def ensures(result, pattern, calls):
        adj, surfs = result
        yield 'keys-are-the-15-pairs', sorted(adj) == [(i, j) for i in range(6) for j in range(i + 1, 6)]
        yield 'planes-of-one-listed-pair-are-not-adjacent', all(adj[(2 * g, 2 * g + 1)] is None for g in range(3))
        tests = [c for c in calls.calls if c['callee'] == 'areHexSidesAdjacent']
        yield 'twelve-tests', len(tests) == 12
        for (i, j), c in zip(_CROSS_PAIRS, tests):
            other = ({0, 1, 2} - {i // 2, j // 2}).pop()
            yield f'pair{i}{j}:tested-against-the-remaining-listed-pair', \
                tuple(c['args'][0]) == surfs[i][0] and tuple(c['args'][1]) == surfs[j][0] \
                and {_deep_tuple(c['args'][2]), _deep_tuple(c['args'][3])} == {surfs[2 * other], surfs[2 * other + 1]}
            yield f'pair{i}{j}:result-kept', adj[(i, j)] == c['result']


@contract(None, props=['C07'], name='lemma.hexagon-adjacency')
class _HexLemma:
    """Cross-section of a hexagonal prism: a convex hexagon with opposite sides parallel and equal (vertices
    c +- P0, c +- P1, c +- P2 in order; the centre is the origin without loss of generality).  For two sides from
    different parallel pairs, the common point of their lines lies strictly between the two lines of the remaining
    pair if and only if the two sides are adjacent.  (This is what makes the test of areHexSidesAdjacent report the
    true adjacency; stated in the plane orthogonal to the prism axis.)"""
    budget = 90

    def cases(S):
        for i in range(6):
            for j in range(i + 1, 6):
                if i % 3 != j % 3:
                    yield f'sides{i}{j}', {'i': i, 'j': j, 'P': [S.reals(f'x{k} y{k}') for k in range(3)], 'X': S.reals('X Y')}

    def call(i, j, P, X):
        return None

    def requires(i, j, P, X):
        V, g = _hexagon2d(P)
        convex = [_cr2(_sub2(V[(k + 1) % 6], V[k]), _sub2(V[(k + 2) % 6], V[(k + 1) % 6])) > 0 for k in range(6)]
        return And(*convex, g(i, X) == 0, g(j, X) == 0)

    def ensures(result, i, j, P, X):
        V, g = _hexagon2d(P)
        other = [k for k in range(3) if k not in (i % 3, j % 3)][0]
        inside = And(g(other, X) * g(other, (0, 0)) > 0, g(other + 3, X) * g(other + 3, (0, 0)) > 0)
        if (j - i) % 6 in (1, 5):
            yield 'adjacent-sides:common-point-strictly-between-the-remaining-pair', inside
        else:
            yield 'non-adjacent-sides:common-point-not-strictly-between-the-remaining-pair', Not(inside)


@contract(None, props=['C07'], name='lemma.common-line-of-two-side-planes')
class _LineLemma:
    """Two planes parallel to the unit axis d, with independent normals, through the point P: every point of both
    planes is P + h d, and a unit vector orthogonal to both normals is d or -d.  (What pointInPlaneIntersection is
    proved to return for two adjacent side planes is therefore what the [given-adjacency] contract assumes of the
    adjacency dictionary: a point of the common edge anywhere along the axis, the axis direction up to sign.)
    Three steps: a vector orthogonal to both normals is parallel to d (used for X - P and for D); parallel unit
    vectors are equal up to sign."""
    budget = 90

    def cases(S):
        for k in range(3):
            yield f'orthogonal-to-both-normals-is-parallel-to-the-axis[{k}]', {
                'step': k, 'd': S.reals('d1 d2 d3'), 'n': S.reals('n1 n2 n3'), 'm': S.reals('m1 m2 m3'),
                'v': S.reals('v1 v2 v3')}
        yield 'parallel-unit-vectors', {'step': 3, 'd': S.reals('d1 d2 d3'), 'n': None, 'm': None, 'v': S.reals('D1 D2 D3')}

    def call(step, d, n, m, v):
        return None

    def requires(step, d, n, m, v):
        if step == 3:
            return And(dot(d, d) == 1, dot(v, v) == 1, *[c == 0 for c in cross(v, d)])
        c = cross(n, m)
        return And(dot(d, d) == 1, dot(n, d) == 0, dot(m, d) == 0, dot(c, c) > 0, dot(v, n) == 0, dot(v, m) == 0)

    def ensures(result, step, d, n, m, v):
        if step == 3:
            yield 'equal-up-to-sign', Or(And(*[a == b for a, b in zip(v, d)]), And(*[a == -b for a, b in zip(v, d)]))
        else:
            yield 'component-of-the-cross-product-vanishes', cross(v, d)[step] == 0


def _sub2(a, b):
    return (a[0] - b[0], a[1] - b[1])


def _cr2(a, b):
    return a[0] * b[1] - a[1] * b[0]


def _hexagon2d(P):
    V = [tuple(p) for p in P] + [(-p[0], -p[1]) for p in P]

    def g(k, X):
        e = _sub2(V[(k + 1) % 6], V[k % 6])
        n = (e[1], -e[0])
        d = _sub2(X, V[k % 6])
        return n[0] * d[0] + n[1] * d[1]
    return V, g


@contract(LT.hexSortSides, props=['C07', 'C17'], name='Lattice.hexSortSides[count]', status='B')
class _HexCount:
    scope = 'surface lists of length 0..8 other than 6'

    def bounded(tier):
        for n in (0, 1, 5, 7, 8):
            yield {'n': n}

    def call(n):
        return LT.hexSortSides([(((0., 0., float(i)), (0., 0., 1.)), 1) for i in range(n)])

    raises = {LT.LatticeError: lambda n: True}

    def ensures(result, n):
        return []


LEVEL = {'C07': 'other'}


def _sweep_c07(tier, seed):
    from harness.sweeps import deck_sweep
    return deck_sweep('C07', tier, seed, families=('hexlattice',), n_quick=48, n_thorough=600,
                      kw={'remap': {'C06': 'C07'}})


BOUNDED = {'C07': [_sweep_c07]}
EXPLANATION = {'C07': (
    'Proved for all inputs on the real code, as a chain of modular contracts: pointInPlaneIntersection (point in both '
    'planes, unit direction orthogonal to both normals), projectPointOnPlane, planeSide, latticeVector (C06); '
    'areHexSidesAdjacent (the common line of two planes is returned exactly when its point lies strictly on the '
    "cell's side of the two other planes; pointInPlaneIntersection by contract); hexSortSides (for every one of the "
    '2^12 outcomes of the twelve adjacency tests: each pair of planes from different listed pairs is tested against '
    'the two planes of the remaining listed pair, results kept, anything but six adjacent pairs rejected); the '
    'geometric lemma that makes this test report the true adjacency (convex hexagon with opposite sides parallel and '
    'equal: the common point of two side lines lies strictly between the lines of the remaining pair iff the sides '
    'are adjacent; nonlinear real arithmetic, z3); and, given that adjacency, hexVertices + hexLatticeBaseVectors for '
    'every centrally symmetric hexagon, every admissible listing (third-listed plane adjacent to the first or not), '
    'with / without caps, either sign of the reported axis (a1 across the first-listed plane, a2 across the '
    'third-listed, a3 from the bottom to the top cap); develop_lattice for LAT=2 (C06). '
    'Bounded stand-ins, not counted as proved: the end-to-end contract of hexLatticeBaseVectors on seeded regular and '
    'irregular hexagons in random orientation (this also cross-checks the two reductions listed under the '
    'assumptions), and a deck sweep (family hexlattice: LAT=2 prisms parallel to z, regular and irregular hexagons, '
    'FILL arrays over i and j, probe points located by an independent oracle that tiles the base prism with a1 and a2).')}
ASSUMPTIONS = {'C07': [
    'hexagonal convention (property text): a1 across the first-listed plane, a2 across the third-listed, a3 across the seventh',
    'the adjacency lemma is stated in the plane orthogonal to the prism axis with the centre of the hexagon at the '
    'origin: the side planes of a prism are parallel to the axis, so the side test of a point of the common line does '
    'not depend on where along the axis the point is taken, and it is invariant under rigid motions (reduction not '
    'machine-checked; cross-checked by the sampled end-to-end contract in random orientations)',
    'the cross-section of the base cell is a convex hexagon whose opposite sides are parallel and equal (what a '
    'hexagonal lattice element is); the adjacency dictionary handed to the [given-adjacency] contract (None for '
    'non-adjacent sides, otherwise a point of the common edge anywhere along the axis and the axis direction up to '
    'sign) is what the contracts of hexSortSides, areHexSidesAdjacent and pointInPlaneIntersection yield together with '
    'the two lemmas (hexagon-adjacency, common-line-of-two-side-planes); that composition is by the statements of '
    'the contracts, not machine-checked as one obligation',
    'develop_lattice for LAT=2: discharged modular contract (c06, base vectors arbitrary) plus the bounded hexlattice '
    'deck sweep (prisms parallel to z, 2-D index ranges)',
]}
