"""C04 -- coordinate transformations move surfaces and cells by the MCNP rigid motion.

MCNP TR card, m = 1 (specs: DESIGN Appendix A):  r_main = o + B r_aux,
    B = [[b1, b4, b7], [b2, b5, b8], [b3, b6, b9]]   (b_i = cosines between main and auxiliary axes).
A surface carrying the transformation is the image of the card's surface:  sense'(o + B r) = sense(r).

Contracts
  transforms.transform_vector / transform_point / forcad.transform_frame       definitional (x -> o + B x)
  lemma.frame_invariance[<family>]     f_view(o + B p, B u)(o + B r) == f_view(p, u)(r) when B is orthonormal
                                       (pure polynomial identities, ideal-membership back end)
  Transformation.transformation[<family>]   the returned SurfaceMCNP has the image frame / the substituted quadric
  TransformationQuad.transformation_quad    Q'(o + B r) == Q(r)
  chainTR[<m>]       to_surface_mcnp with a transformation number: glue obligations + conversion of the moved frame
"""
import math
from fractions import Fraction

from MIP.geom import forcad
from MIP.geom import transforms as MT
from t4_geom_convert.Kernel.FileHandlers.Parser import ParseMCNPSurface as PS
from t4_geom_convert.Kernel.Surface import ConversionSurfaceMCNPToT4 as CS
from t4_geom_convert.Kernel.Surface.SurfaceMCNP import SurfaceMCNP
from t4_geom_convert.Kernel.Surface.ESurfaceTypeMCNP import ESurfaceTypeMCNP as MS, string_to_enum
from t4_geom_convert.Kernel.Transformation import Transformation as TR
from t4_geom_convert.Kernel.Transformation import TransformationQuad as TQ

from pyvc.contract import contract
from pyvc.interp import havoc
from pyvc.sym import And, Or, Not, implies, ite, is_sym, ident
from specs.common import same_region, dot, sub, add, cross, close, scaled, matvec, transpose, tan_, atan_
from specs.surfaces import mcnp_region, mcnp_view, t4_region, AXES, quadric, torus_args, t4_local_point
from t4_geom_convert.Kernel.Surface.ESurfaceTypeT4 import ESurfaceTypeT4 as T4S
from pyvc.sym import sabs
from contracts import c02


def tr_sym(S, prefix=''):
    return S.reals([prefix + n for n in 'o1 o2 o3 b1 b2 b3 b4 b5 b6 b7 b8 b9'.split()])


def B_of(tr):
    b = tr[3:12]
    return ((b[0], b[3], b[6]), (b[1], b[4], b[7]), (b[2], b[5], b[8]))


def orthonormal(tr):
    """B^T B = I and B B^T = I (either implies the other; both are given to the back ends)."""
    B = B_of(tr)
    Bt = transpose(B)
    eqs = []
    for M in (B, Bt):
        for i in range(3):
            for j in range(i, 3):
                eqs.append(dot(M[i], M[j]) == (1 if i == j else 0))
    return And(*eqs) if any(is_sym(x) for x in tr) else all(
        abs(dot(M[i], M[j]) - (1 if i == j else 0)) < 1e-9 for M in (B, Bt) for i in range(3) for j in range(3))


def image(tr, r):
    """o + B r"""
    return add(tr[0:3], matvec(B_of(tr), r))


def sample_rotation(S, prefix=''):
    """Concrete mode: an exactly representable-ish rotation (Cayley transform of a random skew matrix)."""
    a, b, c = (S.real(prefix + n) for n in ('ca', 'cb', 'cc'))
    n = 1 + a * a + b * b + c * c
    R = [[(1 + a * a - b * b - c * c) / n, 2 * (a * b - c) / n, 2 * (a * c + b) / n],
         [2 * (a * b + c) / n, (1 - a * a + b * b - c * c) / n, 2 * (b * c - a) / n],
         [2 * (a * c - b) / n, 2 * (b * c + a) / n, (1 - a * a - b * b + c * c) / n]]
    return R


def tr_case(S, prefix=''):
    """A symbolic TR (proof mode) or a sampled exact rotation + offset (sampling mode)."""
    if S.mode == 'sym':
        return tr_sym(S, prefix)
    R = sample_rotation(S, prefix)
    o = S.reals([prefix + 'o1', prefix + 'o2', prefix + 'o3'])
    # B = R  =>  b1 b2 b3 = first column of B, ...
    return o + [R[0][0], R[1][0], R[2][0], R[0][1], R[1][1], R[2][1], R[0][2], R[1][2], R[2][2]]


# ------------------------------------------------------------------ definitional leaves

@contract(MT.transform_vector, props=['C04'], name='transforms.transform_vector')
class _TV:
    def cases(S):
        yield 'any', {'v': S.reals('v1 v2 v3'), 'tr': tr_case(S)}

    def ensures(result, v, tr):
        yield 'is-B-times-v', And(*[close(a, b) for a, b in zip(result, matvec(B_of(tr), v))])


@contract(MT.transform_point, props=['C04'], name='transforms.transform_point')
class _TP:
    def cases(S):
        yield 'any', {'p': S.reals('v1 v2 v3'), 'tr': tr_case(S)}

    def ensures(result, p, tr):
        yield 'is-o-plus-B-p', And(*[close(a, b) for a, b in zip(result, image(tr, p))])


@contract(forcad.transform_frame, props=['C04'], name='forcad.transform_frame')
class _TF:
    def cases(S):
        yield 'any', {'frm': (tuple(S.reals('p1 p2 p3')), tuple(S.reals('u1 u2 u3'))), 'tr': tr_case(S)}

    def ensures(result, frm, tr):
        pp, vp = result
        yield 'origin-is-image', And(*[close(a, b) for a, b in zip(pp, image(tr, frm[0]))])
        yield 'axis-is-rotated', And(*[close(a, b) for a, b in zip(vp, matvec(B_of(tr), frm[1]))])


# ------------------------------------------------------------------ spec lemmas: invariance of the views

FAMILIES = {
    'plane': (MS.P, ()),
    'sphere': (MS.S, ('R',)),
    'cylinder': (MS.C, ('R',)),
    'cone': (MS.K, ('zero', 'atan:t', None)),          # half-angle alpha = atan(t): tan(alpha) = t (axiom A3)
    'cone+sheet': (MS.K, ('zero', 'atan:t', 1.0)),
    'cone-sheet': (MS.K, ('zero', 'atan:t', -1.0)),
}


def family_surface(S, fam, frame):
    typ, compl = FAMILIES[fam]
    vals = []
    for c in compl:
        if c is None or isinstance(c, float):
            vals.append(c)
        elif c == 'zero':
            vals.append(0.0)
        elif c.startswith('atan:'):
            vals.append(atan_(S.real(c[5:])))
        else:
            vals.append(S.real(c))
    return SurfaceMCNP('', typ, frame, tuple(vals))


def _mk_invariance(fam):
    @contract(None, props=['C04'], name=f'lemma.frame_invariance[{fam}]')
    class _L:
        """view(o + B p, B u)(o + B r) == view(p, u)(r), component by component, for orthonormal B."""
        def cases(S):
            yield 'generic', {'p': S.reals('p1 p2 p3'), 'u': S.reals('u1 u2 u3'), 'tr': tr_case(S),
                              'r': S.reals('r1 r2 r3'), 'S_': S}

        def requires(p, u, tr, r, S_):
            return orthonormal(tr)

        def ensures(result, p, u, tr, r, S_):
            s0 = family_surface(_Fix(S_), fam, (tuple(p), tuple(u)))
            s1 = SurfaceMCNP('', s0.type_surface, (image(tr, p), matvec(B_of(tr), u)), s0.compl_param)
            R0 = mcnp_view(s0, r)
            R1 = mcnp_view(s1, image(tr, r))
            yield 'same-components', len(R0) == len(R1) and all(a[1] == b[1] for a, b in zip(R0, R1))
            for i, ((f0, _), (f1, _)) in enumerate(zip(R0, R1)):
                yield f'component{i}-invariant', ident(f1, f0)
    return _L


class _Fix:
    """Factory view that hands out the same symbol for the same name (lemma parameters)."""
    def __init__(self, S):
        self.S = S
        self.mode = S.mode

    def real(self, name):
        if name in self.S.symbols:
            return self.S.symbols[name]
        return self.S.real(name)


for _fam in FAMILIES:
    _mk_invariance(_fam)


@contract(None, props=['C04'], name='lemma.frame_invariance[torus]')
class _LTorus:
    """Torus view depends on the point only through h = (r-p).u and rho^2 = |r-p|^2 - h^2 (unit axis): both
    are invariant, hence the view is."""
    def cases(S):
        yield 'generic', {'p': S.reals('p1 p2 p3'), 'u': S.reals('u1 u2 u3'), 'tr': tr_case(S),
                          'r': S.reals('r1 r2 r3')}

    def requires(p, u, tr, r):
        return orthonormal(tr)

    def ensures(result, p, u, tr, r):
        d0 = sub(r, p)
        d1 = sub(image(tr, r), image(tr, p))
        u1 = matvec(B_of(tr), u)
        yield 'axial-coordinate-invariant', ident(dot(d1, u1), dot(d0, u))
        yield 'distance-invariant', ident(dot(d1, d1), dot(d0, d0))
        yield 'axis-length-invariant', ident(dot(u1, u1), dot(u, u))


# ------------------------------------------------------------------ transformation() and transformation_quad()

def _mk_transformation(fam):
    @contract(TR.transformation, props=['C04'], name=f'Transformation.transformation[{fam}]')
    class _T:
        def cases(S):
            frame = (tuple(S.reals('p1 p2 p3')), tuple(S.reals('u1 u2 u3')))
            s = family_surface(S, fam, frame)
            s.boundary_cond = '*'
            s.idorigin = (7, 3)
            yield 'orthonormal-TR', {'trpl': tr_case(S), 'surface': s}

        def ghost(S):
            return {'r': S.reals('r1 r2 r3')}

        def requires(trpl, surface, r):
            return orthonormal(trpl)

        def ensures(result, trpl, surface, r):
            p, u = surface.param_surface
            yield 'type-kept', result.type_surface == surface.type_surface
            yield 'bookkeeping-kept', (result.boundary_cond == surface.boundary_cond
                                       and result.idorigin == surface.idorigin)
            yield 'radii-kept', len(result.compl_param) == len(surface.compl_param) and And(
                *[(a is b) if (a is None or b is None) else close(a, b)
                  for a, b in zip(result.compl_param, surface.compl_param)])
            pp, up = result.param_surface
            yield 'origin-is-image', And(*[close(a, b) for a, b in zip(pp, image(trpl, p))])
            yield 'axis-is-rotated', And(*[close(a, b) for a, b in zip(up, matvec(B_of(trpl), u))])
            R0 = mcnp_view(surface, r)
            R1 = mcnp_view(result, image(trpl, r))
            yield 'same-components', len(R0) == len(R1) and all(a[1] == b[1] for a, b in zip(R0, R1))
            for i, ((f0, _), (f1, _)) in enumerate(zip(R0, R1)):
                yield f'moved-surface:component{i}', ident(f1, f0)
    return _T


for _fam in FAMILIES:
    _mk_transformation(_fam)


@contract(TR.transformation, props=['C04'], name='Transformation.transformation[empty-TR]')
class _TEmpty:
    def cases(S):
        s = family_surface(S, 'cylinder', (tuple(S.reals('p1 p2 p3')), tuple(S.reals('u1 u2 u3'))))
        yield 'no-transformation', {'trpl': [], 'surface': s}

    def ensures(result, trpl, surface):
        yield 'unchanged', result is surface


@contract(TQ.transformation_quad, props=['C04', 'C03'], name='TransformationQuad.transformation_quad')
class _TQuad:
    """Q'(o + B r) == Q(r) for every r: the returned coefficients describe the image of the quadric."""
    def cases(S):
        yield 'orthonormal-TR', {'params': S.reals([f'q{i}' for i in range(10)]), 'trans': tr_case(S)}

    def ghost(S):
        return {'r': S.reals('r1 r2 r3')}

    def requires(params, trans, r):
        return orthonormal(trans)

    def ensures(result, params, trans, r):
        yield 'ten-coefficients', len(result) == 10
        yield 'moved-quadric', ident(quadric(result, image(trans, r)), quadric(params, r))


def _quad_surface(S, typ):
    return SurfaceMCNP('+', typ, (None, None), S.reals([f'q{i}' for i in range(10)]), (5,))


def _mk_transformation_quad(mn):
    typ = {'gq': MS.GQ, 'sq': MS.SQ}[mn]

    @contract(TR.transformation, props=['C04'], name=f'Transformation.transformation[{mn}]')
    class _T:
        def cases(S):
            yield 'orthonormal-TR', {'trpl': tr_case(S), 'surface': _quad_surface(S, typ)}

        def ghost(S):
            return {'r': S.reals('r1 r2 r3')}

        def requires(trpl, surface, r):
            return orthonormal(trpl)

        def ensures(result, trpl, surface, r):
            yield 'bookkeeping-kept', (result.boundary_cond == surface.boundary_cond
                                       and result.idorigin == surface.idorigin)
            (f0, _), = mcnp_view(surface, r)
            (f1, _), = mcnp_view(result, image(trpl, r))
            if mn == 'gq':
                yield 'moved-surface', ident(f1, f0)
            else:
                # SQ: the sense is claimed where the value at the centre (G) is not positive, the locus everywhere
                # (convert_special_quadric negates the quadric for G > 0; see C02)
                G = surface.compl_param[6]
                yield 'moved-surface(G<=0)', ident(f1, f0, when=G <= 0)
                yield 'moved-locus(G>0)', ident(f1, -f0, when=G > 0)
    return _T


_mk_transformation_quad('gq')
_mk_transformation_quad('sq')


# ------------------------------------------------------------------ chain with a transformation number

def _moved_shape(fresh, trpl, surf):
    """Shape of transformation()'s result as its contract fixes it: same type and radii, image frame."""
    if surf.type_surface in (MS.SQ, MS.GQ):
        return SurfaceMCNP(surf.boundary_cond, MS.GQ, (None, None), [fresh(f'q{i}') for i in range(10)],
                           surf.idorigin)
    frame = ((fresh('p1'), fresh('p2'), fresh('p3')), (fresh('u1'), fresh('u2'), fresh('u3')))
    return SurfaceMCNP(surf.boundary_cond, surf.type_surface, frame, list(surf.compl_param), surf.idorigin)


def _moved_assume(res, trpl, surf):
    if res.type_surface in (MS.SQ, MS.GQ):
        return []
    u = res.param_surface[1]
    return [dot(u, u) == 1]        # |B u| = |u| = 1 (lemma axis-length-invariant + callee precondition)


def _moved_requires(trpl, surf):
    if surf.type_surface in (MS.SQ, MS.GQ):
        return True
    u = surf.param_surface[1]
    return dot(u, u) == 1


def _conv_shape(fresh, key, val):
    """Opaque result of conversion_surface_params (its own contracts: convert[<family>] below)."""
    from t4_geom_convert.Kernel.Surface.SurfaceT4 import SurfaceT4
    from t4_geom_convert.Kernel.Surface.SurfaceCollection import SurfaceCollection
    from t4_geom_convert.Kernel.Surface.ESurfaceTypeT4 import ESurfaceTypeT4 as T4S
    return SurfaceCollection([(SurfaceT4(T4S.QUAD, [fresh(f'c{i}') for i in range(10)]), 1),
                              (SurfaceT4(T4S.PLANE, [fresh(f'd{i}') for i in range(4)]), -1)])


def _mk_chain_tr(mn):
    @contract(PS.to_surfaces_mcnp, props=['C04', 'C02'], name=f'chainTR[{mn}]')
    class _C:
        """Surface card with a transformation number: the glue between the contracts.
        `transformation` and `conversion_surface_params` are replaced by their contracts
        (Transformation.transformation[*] + lemma.frame_invariance[*]; convert[*]); what is proved here is that
        the card's own surface goes through the numbered transformation exactly once and that the emitted signed
        list is the conversion of the moved surface."""
        hooks = {TR.transformation: havoc('transformation', _moved_shape, assume=_moved_assume,
                                          requires=_moved_requires),
                 CS.conversion_surface_params: havoc('conversion_surface_params', _conv_shape)}

        def cases(S):
            for label, params in c02.card_cases(S, mn):
                yield label, {'p': params, 'tr': tr_case(S)}

        def ghost(S):
            return {'pt': S.reals('X Y Z')}

        def requires(p, tr, pt, calls):
            return And(c02.card_requires(mn, p), orthonormal(tr))

        def call(p, tr):
            surfs = PS.to_surfaces_mcnp(1, ('', '7', mn, p), {7: tr})
            return CS.convert_mcnp_surface(1, surfs)

        def ensures(result, p, tr, pt, calls):
            yield 'transformed-once', calls.count('transformation') == 1
            a_tr, a_surf = calls.args('transformation')
            yield 'uses-the-numbered-transformation', a_tr is tr
            if mn == 'sq':
                (f_a, _), = mcnp_view(a_surf, pt)
                (f_s, _), = mcnp_region(mn, p, pt)
                yield 'surface-before-transformation', close(f_a, f_s)
            else:
                for label, g in same_region(mcnp_view(a_surf, pt), mcnp_region(mn, p, pt)):
                    yield 'surface-before-transformation:' + label, g
            moved = calls.result('transformation')
            yield 'converted-once', calls.count('conversion_surface_params') == 1
            yield 'converts-the-moved-surface', calls.args('conversion_surface_params')[1] is moved
            conv = calls.result('conversion_surface_params')
            yield 'emits-the-conversion', (len(result.surfs) == len(conv.surfs) and all(
                a[0] is b[0] and a[1] == b[1] for a, b in zip(result.surfs, conv.surfs)))
    return _C


for _mn in c02.MNEMONICS:
    _mk_chain_tr(_mn)


# ------------------------------------------------------------------ conversion of an arbitrary (moved) frame

CONV_FAMILIES = dict(FAMILIES)


def _mk_convert(fam):
    @contract(CS.conversion_surface_params, props=['C04', 'C02', 'C03'], name=f'convert[{fam}]')
    class _C:
        """conversion_surface_params on a SurfaceMCNP with an arbitrary origin and an arbitrary *unit* axis (what
        transformation() returns): the signed T4 list has the region of the MCNP view, for every point.
        This is where re-classification of the moved frame (axis-aligned vs general, either direction) is decided."""
        def cases(S):
            frame = (tuple(S.reals('p1 p2 p3')), tuple(S.unit3('u1 u2 u3')))
            yield 'unit-axis', {'key': 3, 'val': family_surface(S, fam, frame)}

        def ghost(S):
            return {'pt': S.reals('X Y Z')}

        def requires(key, val, pt):
            u = val.param_surface[1]
            ok = close(dot(u, u), 1)
            if val.type_surface == MS.K:
                ok = And(ok, tan_(val.compl_param[1]) > 0)
            elif val.compl_param:
                ok = And(ok, val.compl_param[0] > 0)
            return ok

        def ensures(result, key, val, pt):
            yield from same_region(t4_region(result, pt), mcnp_view(val, pt))
    return _C


for _fam in CONV_FAMILIES:
    _mk_convert(_fam)


# ------------------------------------------------------------------ tori

def _torus_surface(S, frame):
    return SurfaceMCNP('', MS.T, frame, tuple(S.reals('A Br Cr')))


def _aligned_or_clear(u):
    """Outside the np.allclose band of convert_torus (A1): if |u| is within tolerance of a coordinate axis it is
    exactly that axis."""
    au = [sabs(x) for x in u]
    conds = []
    for k in range(3):
        e = [1.0 if i == k else 0.0 for i in range(3)]
        near = And(*[sabs(a - b) <= 1e-8 + 1e-5 * b for a, b in zip(au, e)])
        exact = And(*[a == b for a, b in zip(au, e)])
        conds.append(implies(near, exact))
    return And(*conds)


@contract(CS.conversion_surface_params, props=['C04', 'C02', 'C08', 'C03'], name='convert[torus]')
class _ConvTorus:
    """Torus with an arbitrary unit axis.  The torus function depends on the point only through
    h^2 = ((pt-c).u)^2 and |pt-c|^2 (specs.surfaces.torus_hd); both are shown equal for the emitted T4 torus
    (axis-aligned type, or TORUSZ under the Rodrigues rotation written as a TRANSFORM), radii unchanged."""
    def cases(S):
        frame = (tuple(S.reals('p1 p2 p3')), tuple(S.unit3('u1 u2 u3')))
        yield 'unit-axis', {'key': 3, 'val': _torus_surface(S, frame)}
        # the axis exactly along or against a coordinate axis (what a transformation that flips an axis produces)
        for name, ax in (('+x', (1.0, 0.0, 0.0)), ('-x', (-1.0, 0.0, 0.0)), ('+y', (0.0, 1.0, 0.0)), ('-y', (0.0, -1.0, 0.0)),
                         ('+z', (0.0, 0.0, 1.0)), ('-z', (0.0, 0.0, -1.0))):
            yield f'axis={name}', {'key': 3, 'val': _torus_surface(S, (tuple(S.reals('p1 p2 p3')), ax))}

    def ghost(S):
        return {'pt': S.reals('X Y Z')}

    def requires(key, val, pt):
        u = val.param_surface[1]
        return And(close(dot(u, u), 1), _aligned_or_clear(u), *[r > 0 for r in val.compl_param])

    def ensures(result, key, val, pt):
        yield 'one-surface', len(result.surfs) == 1 and result.surfs[0][1] == 1
        t4 = result.surfs[0][0]
        yield 'is-a-torus', t4.type_surface in (T4S.TORUSX, T4S.TORUSY, T4S.TORUSZ)
        c, u = val.param_surface
        h2_m, d2_m = torus_args(pt, c, u)
        loc = t4_local_point(t4, pt)
        ax = AXES[t4.type_surface.name[-1].lower()]
        h2_t, d2_t = torus_args(loc, tuple(t4.param_surface[0:3]), ax)
        yield 'radii-kept', And(*[close(a, b) for a, b in zip(t4.param_surface[3:6], val.compl_param)])
        yield 'axial-coordinate', ident(h2_t, h2_m)
        yield 'distance-to-centre', ident(d2_t, d2_m)


# ------------------------------------------------------------------ TR cards: normalisation of the 12/13/3/9/6/5/3 forms

from t4_geom_convert.Kernel.Transformation.TransformationError import TransformationError


def rows_of(m9):
    return (tuple(m9[0:3]), tuple(m9[3:6]), tuple(m9[6:9]))


def is_rotation_goals(m9, prefix=''):
    """Orthonormal rows and determinant +1 (a proper rotation)."""
    R = rows_of(m9)
    for i in range(3):
        for j in range(i, 3):
            yield f'{prefix}rows-orthonormal[{i}{j}]', close(dot(R[i], R[j]), 1.0 if i == j else 0.0)
    yield f'{prefix}determinant=+1', close(dot(R[0], cross(R[1], R[2])), 1.0)


def reproduces(m9, given):
    return And(*[close(a, b) for a, b in zip(m9, given) if b is not None])


@contract(TR.normalize_transform, props=['C04', 'C17'], name='Transformation.normalize_transform')
class _NT:
    """Top-level normal form of a TR parameter list.  adjust_matrix is replaced by a hook (its own, sampled,
    contract is separate): what is proved is the dispatch on the number of entries, the rejection of m != 1,
    that the displacement is kept and that the matrix handed to adjust_matrix is the completed matrix."""
    hooks = {TR.adjust_matrix: havoc('adjust_matrix', lambda fresh, m: [fresh(f'm{i}') for i in range(9)])}

    def cases(S):
        yield 'empty', {'transf': []}
        yield '3entries', {'transf': S.reals('o1 o2 o3')}
        yield '12entries', {'transf': tr_case(S)}
        yield '13entries,m=1', {'transf': tr_case(S) + [1]}
        yield '13entries,m=-1', {'transf': tr_case(S) + [-1]}
        yield '13entries,m=-1.0', {'transf': tr_case(S) + [-1.0]}

    def ensures(result, transf, calls):
        yield 'twelve-numbers', len(result) == 12
        if len(transf) == 0:
            yield 'identity', And(*[close(a, b) for a, b in zip(result, [0, 0, 0, 1, 0, 0, 0, 1, 0, 0, 0, 1])])
            return
        yield 'displacement-kept', And(*[close(a, b) for a, b in zip(result[0:3], transf[0:3])])
        if len(transf) == 3:
            yield 'identity-matrix', And(*[close(a, b) for a, b in zip(result[3:], [1, 0, 0, 0, 1, 0, 0, 0, 1])])
            return
        yield 'adjusted-once', calls.count('adjust_matrix') == 1
        yield 'adjusts-the-supplied-matrix', And(*[close(a, b) for a, b in zip(calls.args('adjust_matrix')[0],
                                                                                transf[3:12])])
        yield 'returns-the-adjusted-matrix', And(*[a is b for a, b in zip(result[3:], calls.result('adjust_matrix'))])

    raises = {TransformationError: lambda transf, calls=None: len(transf) == 13 and transf[-1] != 1}


def _partial(S, pattern):
    """9-list with symbols where pattern has 1 and None where 0."""
    return [S.real(f'm{i}') if pattern[i] else None for i in range(9)]


ROW_PATTERNS6 = {f'row{i}-missing': [0 if k // 3 == i else 1 for k in range(9)] for i in range(3)}
COL_PATTERNS6 = {f'col{i}-missing': [0 if k % 3 == i else 1 for k in range(9)] for i in range(3)}


def _given_orthonormal6(m, by_rows):
    R = rows_of(m) if by_rows else transpose(rows_of([0 if x is None else x for x in m]))
    if not by_rows:
        R = [tuple(None if m[3 * r + c] is None else m[3 * r + c] for r in range(3)) for c in range(3)]
    vs = [v for v in R if v[0] is not None]
    a, b = vs
    return And(close(dot(a, a), 1), close(dot(b, b), 1), close(dot(a, b), 0))


@contract(TR.normalize_matrix6, props=['C04'], name='Transformation.normalize_matrix6')
class _NM6:
    """Two rows given: the third is their cross product in cyclic order, so that orthonormal given rows are
    completed to a proper rotation that reproduces every supplied entry."""
    def cases(S):
        for label, pat in ROW_PATTERNS6.items():
            yield label, {'matrix': _partial(S, pat)}

    def requires(matrix):
        return _given_orthonormal6(matrix, True)

    def ensures(result, matrix):
        yield 'nine-entries', len(result) == 9
        yield 'reproduces-supplied-entries', reproduces(result, matrix)
        yield from is_rotation_goals(result)
        yield 'input-not-modified', all((x is None) == (p == 0) for x, p in zip(
            matrix, [0 if x is None else 1 for x in matrix]))


@contract(TR.normalize_matrix, props=['C04'], name='Transformation.normalize_matrix')
class _NM:
    """Dispatch on the number of supplied entries (9 / 0 / 6 by rows / 6 by columns); the 5- and 3-entry forms
    have their own contracts."""
    def cases(S):
        yield '9entries', {'matrix': S.reals([f'm{i}' for i in range(9)])}
        yield '0entries(all-J)', {'matrix': [None] * 9}
        yield '0entries(short)', {'matrix': []}
        for label, pat in ROW_PATTERNS6.items():
            yield '6entries,' + label, {'matrix': _partial(S, pat)}
        for label, pat in COL_PATTERNS6.items():
            yield '6entries,' + label, {'matrix': _partial(S, pat)}
        yield '6entries,row2-missing(short)', {'matrix': S.reals([f'm{i}' for i in range(6)])}
        yield '4entries(malformed)', {'matrix': S.reals('m0 m1 m2 m3') + [None] * 5}
        yield '7entries(malformed)', {'matrix': S.reals('m0 m1 m2 m3 m4 m5 m6') + [None] * 2}

    def requires(matrix):
        n = sum(1 for x in matrix if x is not None)
        if n == 6:
            m9 = list(matrix) + [None] * (9 - len(matrix))
            by_rows = all(x is not None for x in m9[0:3]) or all(x is None for x in m9[0:3])
            return _given_orthonormal6(m9, by_rows)
        return True

    raises = {TransformationError: lambda matrix: sum(1 for x in matrix if x is not None) not in (0, 3, 5, 6, 9)}

    def ensures(result, matrix):
        n = sum(1 for x in matrix if x is not None)
        yield 'nine-entries', len(result) == 9
        if n == 9:
            yield 'unchanged', And(*[close(a, b) for a, b in zip(result, matrix)])
        elif n == 0:
            yield 'identity', And(*[close(a, b) for a, b in zip(result, [1, 0, 0, 0, 1, 0, 0, 0, 1])])
        else:
            yield 'reproduces-supplied-entries', reproduces(result, list(matrix) + [None] * (9 - len(matrix)))
            yield from is_rotation_goals(result)


LEVEL = {'C04': 'other'}
EXPLANATION = {'C04': (
    'Contract-based deductive verification of the transformation chain of the real code. Proved for all inputs '
    '(orthonormal TR, all points): transform_vector/point/frame (definitional), invariance lemmas of every surface '
    'family under a rigid motion (ideal membership), transformation() for planes/spheres/cylinders/cones/GQ/SQ and '
    'transformation_quad(), conversion of an arbitrary moved frame for every family including one-sheet cones and '
    'tori with a general axis (re-classification of the frame), the glue of to_surface_mcnp with a transformation '
    'number for every mnemonic, normalize_transform (3/12/13 entries, m != 1 rejected), normalize_matrix dispatch '
    'and the matrix completions normalize_matrix6 / normalize_matrix3 / normalize_matrix5 (proper rotation reproducing the '
    'supplied entries, every position). adjust_matrix is sampled only. Bounded / sampled parts are listed under '
    'coverage.bounded.')}
ASSUMPTIONS = {'C04': [
    'MCNP TR semantics (specs): r_main = o + B r_aux with B = [[b1,b4,b7],[b2,b5,b8],[b3,b6,b9]], m = 1',
    'TRIPOLI-4 TRANSFORM k MATRIX t M read as x_main = M x_local + t (calibrated on the converter; only t = 0 occurs)',
    'convert_torus: the np.allclose band around the coordinate axes is excluded by the precondition',
    'adjust_matrix is replaced by a hook in normalize_transform (its own contract is sampled, not proved)',
]}
TRUSTED = {'C04': ['numpy (modelled by pyvc/npmodel.py)']}


# ------------------------------------------------------------------ composition of two transformations

def symmetric_matrix(tr):
    b = tr[3:12]
    return And(b[1] == b[3], b[2] == b[6], b[5] == b[7])


def spec_compose(t1, t2):
    """t2 o t1 as a 12-tuple in the card layout (o, b1..b9 with B = [[b1,b4,b7],[b2,b5,b8],[b3,b6,b9]])."""
    B1, B2 = B_of(t1), B_of(t2)
    o = add(t2[0:3], matvec(B2, t1[0:3]))
    Bc = [[sum(B2[i][k] * B1[k][j] for k in range(3)) for j in range(3)] for i in range(3)]
    return list(o) + [Bc[0][0], Bc[1][0], Bc[2][0], Bc[0][1], Bc[1][1], Bc[2][1], Bc[0][2], Bc[1][2], Bc[2][2]]


def identity_matrix(tr):
    b = tr[3:12]
    return And(*[x == (1 if k in (0, 4, 8) else 0) for k, x in enumerate(b)])


def compose_pre(trans1, trans2):
    """What a caller of compose_transform must establish (see the contract below)."""
    return Or(identity_matrix(trans2), And(identity_matrix(trans1), symmetric_matrix(trans2)))


@contract(TR.compose_transform, props=['C04', 'C05', 'C06'], name='Transformation.compose_transform')
class _Compose:
    """compose_transform(t1, t2) is `t1 first, then t2` as a map on points (x -> o + B x, the convention under which
    surfaces are moved) PROVIDED t2 is a pure translation (which is how develop_lattice calls it), or t1 is a pure
    translation and the matrix of t2 is symmetric.  The function multiplies the row-major reshapes of the card
    entries, i.e. the transposes: for two general rotations the result is not the composition, which is why the
    precondition is an obligation of every caller."""
    def cases(S):
        yield 'second-is-a-translation', {'trans1': tr_sym(S, 'p'), 'trans2': S.reals('q1 q2 q3') + [1, 0, 0, 0, 1, 0, 0, 0, 1]}
        yield 'first-is-a-translation,second-symmetric', {'trans1': S.reals('p1 p2 p3') + [1, 0, 0, 0, 1, 0, 0, 0, 1],
                                                           'trans2': tr_sym(S, 'q')}

    def ghost(S):
        return {'r': S.reals('X Y Z')}

    def requires(trans1, trans2, r):
        return compose_pre(trans1, trans2)

    def ensures(result, trans1, trans2, r):
        yield 'twelve-entries', len(result) == 12
        yield 'is-t1-then-t2', And(*[close(a, b) for a, b in zip(image(list(result), r), image(trans2, image(trans1, r)))])
        yield 'entries-of-the-composition', And(*[close(a, b) for a, b in zip(result, spec_compose(trans1, trans2))])


# ------------------------------------------------------------------ matrix completion (3 / 5 entries), adjust_matrix (sampled)

def _rot_sample(S, prefix='q'):
    R = sample_rotation(S, prefix)
    return [R[i][j] for i in range(3) for j in range(3)]


@contract(TR.normalize_matrix3, props=['C04'], name='Transformation.normalize_matrix3', status='S')
class _NM3:
    """One row given (a unit vector): the result is a proper rotation that reproduces the supplied row."""
    samples = 300

    def cases(S):
        if S.mode == 'sym':
            yield 'one-row', {'matrix': None}
            return
        m = _rot_sample(S)
        i = S.rng.randrange(3)
        if S.rng.random() < 0.35:       # rows along a coordinate axis, either direction (the special cases of the code)
            row = [0.0, 0.0, 0.0]
            row[S.rng.randrange(3)] = S.rng.choice([1.0, -1.0])
            m[3 * i:3 * i + 3] = row
        yield 'one-row', {'matrix': [m[k] if k // 3 == i else None for k in range(9)]}

    def ensures(result, matrix):
        yield 'reproduces-supplied-entries', reproduces(result, matrix)
        yield from is_rotation_goals(result)


@contract(TR.normalize_matrix3, props=['C04'], name='Transformation.normalize_matrix3[all-rows]')
class _NM3P:
    """One row given, any unit vector, in any of the three positions: the completion is a proper rotation that
    reproduces the supplied row (both choices of the helper axis, |row . e_x| > 0.999 or not)."""
    def cases(S):
        for i in range(3):
            yield f'row{i}-given', {'matrix': [S.real(f'm{k}') if k // 3 == i else None for k in range(9)]}

    def requires(matrix):
        r = [x for x in matrix if x is not None]
        return r[0] * r[0] + r[1] * r[1] + r[2] * r[2] == 1

    def ensures(result, matrix):
        yield 'nine-entries', len(result) == 9
        yield 'reproduces-supplied-entries', reproduces(result, matrix)
        yield from is_rotation_goals(result)


@contract(TR.normalize_matrix5, props=['C04'], name='Transformation.normalize_matrix5[all-rows-and-columns]')
class _NM5P:
    """One row and one column given (unit vectors sharing one entry), in any of the nine positions: the Eulerian
    completion is a proper rotation that reproduces the five supplied entries."""
    def cases(S):
        for i in range(3):
            for j in range(3):
                yield f'row{i}+col{j}', {'matrix': [S.real(f'm{k}') if (k // 3 == i or k % 3 == j) else None
                                                    for k in range(9)], 'i': i, 'j': j}

    def call(matrix, i, j):
        return TR.normalize_matrix5(matrix)

    def requires(matrix, i, j):
        row = [matrix[3 * i + c] for c in range(3)]
        col = [matrix[3 * r + j] for r in range(3)]
        return And(row[0] * row[0] + row[1] * row[1] + row[2] * row[2] == 1,
                   col[0] * col[0] + col[1] * col[1] + col[2] * col[2] == 1)

    def ensures(result, matrix, i, j):
        yield 'nine-entries', len(result) == 9
        yield 'reproduces-supplied-entries', reproduces(result, matrix)
        yield from is_rotation_goals(result)


@contract(TR.normalize_matrix5, props=['C04'], name='Transformation.normalize_matrix5', status='S')
class _NM5:
    """One row and one column given (taken from a proper rotation): the result is a proper rotation that reproduces
    the five supplied entries."""
    samples = 300

    def cases(S):
        if S.mode == 'sym':
            yield 'row-and-column', {'matrix': None}
            return
        m = _rot_sample(S)
        i, j = S.rng.randrange(3), S.rng.randrange(3)
        yield 'row-and-column', {'matrix': [m[k] if (k // 3 == i or k % 3 == j) else None for k in range(9)]}

    def requires(matrix):
        # the Eulerian completion divides by sin(beta): the shared entry must not be +-1
        shared = [x for k, x in enumerate(matrix) if x is not None and
                  all(matrix[3 * (k // 3) + c] is not None for c in range(3)) and
                  all(matrix[3 * r + k % 3] is not None for r in range(3))]
        return all(abs(abs(x) - 1) > 1e-6 for x in shared)

    def ensures(result, matrix):
        yield 'reproduces-supplied-entries', reproduces(result, matrix)
        yield from is_rotation_goals(result)


@contract(TR.adjust_matrix, props=['C04'], name='Transformation.adjust_matrix', status='S')
class _Adjust:
    """Sampled: an orthonormal matrix is returned unchanged (to rounding); a slightly skew matrix (entries rounded to
    4 digits) is returned as a proper rotation within 1e-3 of the input."""
    samples = 300

    def cases(S):
        if S.mode == 'sym':
            yield 'near-rotations', {'matrix': None, 'exact': True}
            return
        m = _rot_sample(S)
        exact = S.rng.random() < 0.5
        yield 'near-rotations', {'matrix': m if exact else [round(x, 4) for x in m], 'exact': exact}

    def call(matrix, exact):
        import warnings
        with warnings.catch_warnings():
            warnings.simplefilter('ignore')
            return TR.adjust_matrix(list(matrix))

    def ensures(result, matrix, exact):
        tol = 1e-9 if exact else 1e-3
        yield 'close-to-the-input', all(abs(a - b) <= tol for a, b in zip(result, matrix))
        yield from is_rotation_goals(result)


@contract(MT.normalize_transform, props=['C04'], name='transforms.normalize_transform', status='B')
class _MipNT:
    """TR card text -> numbers: 3 entries get the identity matrix; a starred card has its matrix entries (4-12) read as
    angles in degrees and replaced by their cosines, the displacement and a 13th entry untouched; J placeholders
    stay None."""
    scope = '6 card spellings x starred / unstarred'

    def bounded(tier):
        for star in ('', '*'):
            yield {'dtype': star + 'tr', 'params': '1 2 3'}
            yield {'dtype': star + 'tr', 'params': '1 2 3  0 90 90  90 0 90  90 90 0'}
            yield {'dtype': star + 'TR', 'params': '0 0 0  30 60 90  120 30 90  90 90 0  1'}
            yield {'dtype': star + 'tr', 'params': '0 0 0  30 60 90  120 30 90  90 90 0  -1'}
            yield {'dtype': star + 'tr', 'params': '1 0 0  0 90 90  3j 90 90 0'}
            yield {'dtype': star + 'tr', 'params': '5 5 5  1 0 0  0 1 0'}

    def call(dtype, params):
        return MT.normalize_transform('7', dtype, params)

    def ensures(result, dtype, params):
        name, pl = result
        toks = []
        for t in params.split():
            toks += [None] * 3 if t == '3j' else [float(t)]
        yield 'name', name == 7
        yield 'displacement', pl[0:3] == toks[0:3]
        if len(toks) == 3:
            yield 'identity-matrix', pl[3:] == [1, 0, 0, 0, 1, 0, 0, 0, 1]
            return
        import math
        want = [(None if x is None else (math.cos(math.radians(x)) if dtype[0] == '*' else x)) for x in toks[3:12]]
        yield 'matrix-entries', len(pl) == len(toks) and all(
            (a is None and b is None) or (a is not None and b is not None and abs(a - b) < 1e-12)
            for a, b in zip(pl[3:12], want))
        yield 'thirteenth-entry-kept', len(toks) < 13 or pl[12] == toks[12]


# ------------------------------------------------------------------ TRCL / FILL transformation spellings (token level)

from collections import OrderedDict as _OD

SPELLINGS = {
    'number': ('4', False),
    'three': ('1 -2 0.5', False),
    'twelve': ('1 2 3  0 1 0  -1 0 0  0 0 1', False),
    'twelve-3-4-5': ('0 0.5 0  0.6 0.8 0  -0.8 0.6 0  0 0 1', False),
    'thirteen,m=1': ('1 2 3  0 1 0  -1 0 0  0 0 1  1', False),
    'starred-twelve': ('1 0 0  90 0 90  180 90 90  90 90 0', True),
    'starred-thirteen,m=1': ('0 0 2  0 90 90  90 0 90  90 90 0  1', True),
    'starred-three': ('0 3 0', True),
}


def _expected_tr(text, star, table):
    import math
    nums = [float(x) for x in text.split()]
    if len(nums) == 1:
        return tuple(table[int(nums[0])][:12])
    if len(nums) == 3:
        return tuple(nums + [1., 0., 0., 0., 1., 0., 0., 0., 1.])
    m = nums[3:12]
    if star:
        m = [math.cos(math.radians(x)) for x in m]
    return tuple(nums[:3] + m)


def _mk_tr_kw(which):
    from contracts.c12 import _bare_parser
    from t4_geom_convert.Kernel.FileHandlers.Parser.ParseMCNPCell import ParseMCNPCell as PMC_

    @contract(getattr(PMC_, f'parse_{which}_kw'), props=['C04', 'C05', 'C06', 'C15'], name=f'ParseMCNPCell.parse_{which}_kw[spellings]',
              status='B')
    class _C:
        """The transformation attached to a cell (TRCL / *TRCL, FILL / *FILL; by number, 3, 12 or 13 entries with m = 1)
        is the 12-number form MCNP assigns to the spelling: displacement as written, matrix entries as written, or
        their cosines for the starred form, identity for three entries, the TR card for a number; the keyword that
        follows is left untouched."""
        scope = '8 spellings of the transformation, followed or not by another keyword'

        def bounded(tier):
            for name, (text, star) in SPELLINGS.items():
                for tail in ([], ['imp:n', '1']):
                    yield {'name': name, 'tail': tail}

        def call(name, tail):
            text, star = SPELLINGS[name]
            p = _bare_parser(transforms=_OD([(4, [9.0, 8.0, 7.0, 0.0, 0.0, 1.0, 1.0, 0.0, 0.0, 0.0, 1.0, 0.0])]))
            toks = (['5'] if which == 'fill' else []) + text.split() + list(tail)
            kw = list(reversed(toks))
            elt = ('*' if star else '') + which
            res = getattr(p, f'parse_{which}_kw')(elt, kw)
            return res, list(reversed(kw))

        def ensures(result, name, tail):
            res, rest = result
            text, star = SPELLINGS[name]
            got = res[2] if which == 'fill' else res
            want = _expected_tr(text, star, {4: [9.0, 8.0, 7.0, 0.0, 0.0, 1.0, 1.0, 0.0, 0.0, 0.0, 1.0, 0.0]})
            yield 'twelve-numbers', len(got) == 12
            yield 'is-the-mcnp-rigid-motion-of-the-spelling', all(abs(a - b) < 1e-9 for a, b in zip(got, want))
            yield 'following-keyword-untouched', rest == list(tail)
            if which == 'fill':
                yield 'universe', res[1] == 5 and res[0] is None
    return _C


_mk_tr_kw('trcl')
_mk_tr_kw('fill')


# ------------------------------------------------------------------ implicit surfaces 1000*cell + surface

from t4_geom_convert.Kernel.Volume import ConstructVolumeT4 as _CVT4


def _sym_tree(shape, nums, k=None):
    """GeomExpression of the given shape whose leaves carry the symbolic surface numbers `nums` (consumed in order)."""
    from MIP.geom.semantics import Surface, Cell, GeomExpression
    k = k if k is not None else [0]
    if shape == 's' or shape == 'f':
        leaf = Surface(1, 2 if shape == 'f' else None)
        leaf.surface = nums[k[0]]
        k[0] += 1
        return leaf
    if shape == 'c':
        return GeomExpression(('^', Cell('7')))
    return GeomExpression((shape[0], _sym_tree(shape[1], nums, k), _sym_tree(shape[2], nums, k)))


_TREE_SHAPES = ['s', 'f', ('*', 's', 's'), (':', 's', 'f'), ('*', ('*', 's', 's'), 's'), (':', 's', ('*', 'f', 's')),
                ('*', 'c', 's'), ('*', (':', 's', 'c'), ('*', 's', 's')), (':', ('*', 's', (':', 's', 's')), 'c')]


def _count(shape):
    return 1 if shape in ('s', 'f') else 0 if shape == 'c' else _count(shape[1]) + _count(shape[2])


@contract(_CVT4.extract_tr_surf_ids, props=['C04', 'C01'], name='ConstructVolumeT4.extract_tr_surf_ids[any-numbers]')
class _ImplicitIdsP:
    """For arbitrary (symbolic) signed surface numbers on the leaves of 9 expression shapes, in dictionaries of one and
    two cells: a number is returned iff it is |n| of some referenced surface with |n| >= 1000 -- either sense, whole or
    by facet, at any depth, next to complements of cells."""
    def cases(S):
        for i, sh in enumerate(_TREE_SHAPES):
            yield f'shape{i}', {'shapes': (sh,), 'nums': S.ints([f'n{j}' for j in range(_count(sh))])}
        for i in (2, 5, 7):
            shs = (_TREE_SHAPES[i], _TREE_SHAPES[(i + 1) % len(_TREE_SHAPES)])
            yield f'shapes{i}+{i + 1}', {'shapes': shs, 'nums': S.ints([f'n{j}' for j in range(sum(map(_count, shs)))])}

    def requires(shapes, nums):
        return And(*[n != 0 for n in nums])

    def call(shapes, nums):
        from t4_geom_convert.Kernel.Volume.CellMCNP import CellMCNP
        k = [0]
        cells = {10 + i: CellMCNP('0', None, _sym_tree(sh, nums, k), 1.0, 0, None, (), None, [], [])
                 for i, sh in enumerate(shapes)}
        return _CVT4.extract_tr_surf_ids(cells)

    def ensures(result, shapes, nums):
        from pyvc.sym import sabs
        members = list(result.items) if hasattr(result, 'items') and not isinstance(result, (set, frozenset)) else list(result)
        for j, n in enumerate(nums):
            yield f'referenced-implicit-number-returned[{j}]', implies(sabs(n) >= 1000, Or(*[m == sabs(n) for m in members]))
        for i, m in enumerate(members):
            yield f'member-is-a-referenced-implicit-number[{i}]', Or(*[And(m == sabs(n), sabs(n) >= 1000) for n in nums])


@contract(_CVT4.extract_tr_surf_ids, props=['C04', 'C01'], name='ConstructVolumeT4.extract_tr_surf_ids', status='B')
class _ImplicitIds:
    """The implicit surface numbers (>= 1000) of a deck are exactly those referenced by some cell, in either sense,
    at any depth of the expression (parentheses, unions, complements of sub-expressions), whole or by facet."""
    scope = '12 cell geometries (0-2 implicit references each, both senses, nested, facet form) in dictionaries of 1-2 cells'

    GEOMS = [('-1 2', set()), ('-1001 2', {1001}), ('1 : 5003', {5003}), ('#(1 -5003)', {5003}), ('(1:-2) (-7002 : 3)', {7002}),
             ('-1001 1001', {1001}), ('-12003 -1', {12003}), ('#(2:(3 -4005)) 1', {4005}), ('999 -1000', {1000}),
             ('-3 : (4 #(5 : 6001 -7002))', {6001, 7002}), ('-2004.1 5', {2004}), ('#7 -8001', {8001})]

    def bounded(tier):
        G = _ImplicitIds.GEOMS
        for i, (g, ids) in enumerate(G):
            yield {'geoms': (g,), 'want': sorted(ids)}
            g2, ids2 = G[(i + 5) % len(G)]
            yield {'geoms': (g, g2), 'want': sorted(ids | ids2)}

    def call(geoms, want):
        from harness import shim
        shim.install()
        from MIP.geom import parsegeom
        from t4_geom_convert.Kernel.Volume.CellMCNP import CellMCNP
        cells = {10 + i: CellMCNP('0', None, parsegeom.get_ast(g), 1.0, 0, None, (), None, [], []) for i, g in enumerate(geoms)}
        return sorted(_CVT4.extract_tr_surf_ids(cells))

    def ensures(result, geoms, want):
        yield 'exactly-the-referenced-implicit-numbers', result == want
