"""C14 -- output does not depend on MCNP-insignificant formatting of the deck.

The claim is relational (two inputs, one comparison), about text segmentation done with regular expressions: nothing
here is discharged for all inputs.  What is built:
  mip.cards[respelled]     bounded: the MIP layer (block splitting, continuation lines, tab expansion, comment
                           stripping, card splitting) yields the same sequence of cards, field by field (names, kinds,
                           numbers by value), for a deck and for its respellings
  datacard.to_float        bounded: every spelling class of a real number that MCNP accepts has the value MCNP gives it
  (datacard.expand_data_card and Utils.normalize_float are under bounded contracts in c12 / c10, registered for C14)
  respelling sweep         bounded: whole generated decks converted as written and respelled; written files compared
"""
import itertools
import random
import re

from MIP.mip import datacard as DC

from pyvc.contract import contract

_DECK = """respelling test deck
1 1 -2.70 -1 IMP:N=1.0
2 2 -1.0 1 -2 (3 : -4) #5 IMP:N=2.0 TRCL=(0.5 0.25 0.0)
5 0 -6.1 7 IMP:N=1.0 U=2 FILL=3 (1.0 0.0 0.0 0.0 1.0 0.0 -1.0 0.0 0.0 0.0 0.0 1.0)
6 LIKE 2 BUT MAT=3 RHO=-7.8 U=4
9 0 2 IMP:N=0.0

1 SO 1.0
*2 SO 2.5
3 1 PX 0.25
4 P 1.0 -1.0 1.0 -0.25
+6 RPP -0.75 0.5 -1.0 0.25 -0.5 0.5
7 C/Z 0.5 -0.5 0.75

TR1 0.0 0.0 0.5 1.0 0.0 0.0 0.0 -1.0 0.0 0.0 0.0 -1.0
m1 13027 1.0
m2 1001 2.0 8016 1.0
m3 26056 -0.9 6000 -0.1
imp:p 1.0 2.0 3.0 6.0 6.0
mode n p
nps 10
"""


def _norm_field(x):
    """A card field up to what MCNP ignores: case, runs of blanks; tokens that are numbers are compared by value."""
    out = []
    for tok in x.lower().replace('=', ' = ').replace('(', ' ( ').replace(')', ' ) ').split():
        try:
            out.append(('number', DC.to_float(tok)))
        except ValueError:
            out.append(tok)
    return out


def _cards_of(text):
    from contracts.c02 import _mip_of
    cards = []
    for c in _mip_of(text).cards(blocks='csd', skipcomments=True):
        parts = c.parts()
        if c.type == 'd':
            # the data-card splitter cuts the digits that follow the name off the parameters (the card number of
            # m12 / tr3, but also the first digits of `imp:n 1.0 ...`); the readers of the converter join the two
            # again, and so does this observation
            digits, letters, params = parts
            parts = (letters, digits + params)
        cards.append((c.type, [_norm_field(p) for p in parts]))
    return cards


@contract(None, props=['C14'], name='mip.cards[respelled]', status='B')
class _Cards:
    """The sequence of cards MIP hands to the converter -- block by block, each split into its fields -- is the same
    for a deck and for its respellings (letter case, blanks, tabs, continuation lines of both kinds, `$` and `c`
    comments, a message block, Fortran spellings of real numbers, nR shorthand), fields compared up to case and
    blanks, numbers by value, nR shorthand expanded."""
    scope = 'one deck with every card kind x 9 respelling kinds x 6 seeds, plus all kinds together x 30 seeds'

    def bounded(tier):
        from harness import respell
        for kind in respell.KINDS:
            for k in range(6):
                yield {'kinds': (kind,), 'k': k}
        for k in range(30 if tier == 'quick' else 300):
            yield {'kinds': tuple(respell.KINDS), 'k': k}

    def call(kinds, k):
        from harness import respell
        text2 = respell.respell(_DECK, random.Random(f'cards/{kinds}/{k}'), kinds)
        return _expand(_cards_of(_DECK)), _expand(_cards_of(text2)), text2

    def ensures(result, kinds, k):
        a, b, text2 = result
        yield 'same-number-of-cards', len(a) == len(b)
        yield 'same-cards-field-by-field', a == b


def _expand(cards):
    """nR shorthand of data cards expanded (the converter does it with expand_data_card, contract in c12)."""
    out = []
    for typ, fields in cards:
        new_fields = []
        for f in fields:
            g = []
            for tok in f:
                m = re.fullmatch(r'(\d*)r', tok) if isinstance(tok, str) else None
                mm = re.fullmatch(r'(\d+)m', tok) if isinstance(tok, str) else None
                if m and g:
                    g += [g[-1]] * (int(m.group(1)) if m.group(1) else 1)
                elif mm and g and isinstance(g[-1], tuple):
                    g.append(('number', g[-1][1] * int(mm.group(1))))
                elif tok == '1i' and g:
                    g.append('interpolate-one')
                else:
                    if g and g[-1] == 'interpolate-one' and isinstance(tok, tuple) and isinstance(g[-2], tuple):
                        g[-1] = ('number', (g[-2][1] + tok[1]) / 2)
                    g.append(tok)
            new_fields.append(g)
        out.append((typ, new_fields))
    return out


def _spellings():
    for sign, sval in (('', 1), ('-', -1), ('+', 1)):
        for mant, mval in (('1.5', 1.5), ('15.', 15.0), ('.15', 0.15), ('150', 150.0), ('0.0', 0.0), ('2.50', 2.5)):
            for exp, eval_ in (('', 0), ('e0', 0), ('E+00', 0), ('e-2', -2), ('E3', 3), ('d0', 0), ('D-2', -2), ('d+3', 3),
                               ('-2', -2), ('+3', 3), ('-10', -10)):
                if exp in ('-2', '+3', '-10') and '.' not in mant:
                    continue            # 150-2 is not a number
                yield sign + mant + exp, sval * float(f'{mant.rstrip(".") if mant.endswith(".") else mant}e{eval_}')


@contract(DC.to_float, props=['C14', 'C02', 'C04'], name='datacard.to_float', status='B')
class _ToFloat:
    """Every spelling MCNP accepts for a real number (decimal, e / E / d / D exponent, exponent without a letter) has
    the value MCNP gives it; anything else is rejected."""
    scope = '3 signs x 6 mantissas x 11 exponent spellings, plus 8 strings that are not numbers'

    def bounded(tier):
        for s, v in _spellings():
            yield {'s': s, 'v': v}
        for s in ('', 'abc', '1.5x', 'e5', '1.5e', '--1', '1.5-', '1 5'):
            yield {'s': s, 'v': None}

    def call(s, v):
        return DC.to_float(s)

    raises = {ValueError: lambda s, v: v is None}

    def ensures(result, s, v):
        yield 'value', abs(result - v) <= 1e-12 * max(1.0, abs(v))


def _sweep_c14(tier, seed):
    from harness.sweeps import respell_sweep
    return respell_sweep('C14', tier, seed)


BOUNDED = {'C14': [_sweep_c14]}
LEVEL = {'C14': 'other'}
EXPLANATION = {'C14': (
    'Bounded only: the property is relational and about regular-expression text segmentation; no obligation is '
    'discharged for all inputs. (1) the MIP layer yields the same cards, field by field, for a deck with every card '
    'kind and for its respellings of each kind and of all kinds together; (2) number spellings: to_float (all spelling '
    'classes), normalize_float and expand_data_card (contracts of C09 / C12, registered here); (3) whole generated '
    'decks of every family are converted as written and respelled, and the written files are compared: same surfaces, '
    'volumes, boundary entries and, for every volume, a composition with the same content. Composition names embed '
    'the spelling of the density and are treated as labels.')}
ASSUMPTIONS = {'C14': [
    'which respellings MCNP treats as equivalent: as listed in the property (case, blanks incl. tabs to 8-column '
    'stops, continuation by five leading blanks or a trailing ampersand, full-line c comments and in-line $ comments, a '
    'message block, Fortran spellings of real numbers, nR shorthand); generated by harness/respell.py',
    'tabs are only placed beyond column 8 and never at the start of a line; in-line comments use $ only',
    'composition names (m<material>_<density as spelled>) are labels: two spellings of one density give two names',
]}
