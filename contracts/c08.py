"""C08 -- every written file is structurally valid TRIPOLI-4 input."""
import io
import itertools
import re

from t4_geom_convert.Kernel.Volume.VolumeT4 import VolumeT4
from t4_geom_convert.Kernel.Volume.DictVolumeT4 import DictVolumeT4
from t4_geom_convert.Kernel.Volume import ConstructVolumeT4 as CV
from t4_geom_convert.Kernel.FileHandlers.Writer import WriteT4Geometry as WG
from t4_geom_convert.Kernel.Surface.SurfaceT4 import SurfaceT4
from t4_geom_convert.Kernel.Surface.ESurfaceTypeT4 import ESurfaceTypeT4 as T4S

from pyvc.contract import contract
from harness.t4file import T4File


def _subsets(ids, maxn):
    for n in range(0, maxn + 1):
        for c in itertools.combinations(ids, n):
            yield list(c)


@contract(VolumeT4.__str__, props=['C08', 'C01'], name='VolumeT4.__str__', status='B')
class _VolStr:
    """The text lists exactly the PLUS / MINUS sets (declared counts = cardinalities, ids ascending), the operator with
    its operands in order, FICTIVE iff the flag is set; empty() iff some id is on both sides; copy() is equal."""
    scope = 'PLUS, MINUS subsets of {3, 11, 20} (<= 2 ids each) x operator in {none, UNION, INTE} with 1-2 operands x fictive'

    def bounded(tier):
        for pl in _subsets((20, 3, 11), 2):
            for mi in _subsets((11, 20, 3), 2):
                for ops in (None, ('UNION', (7,)), ('INTE', (9, 7)), ('UNION', (7, 9))):
                    for fict in (True, False):
                        yield {'pl': pl, 'mi': mi, 'ops': ops, 'fict': fict}

    def call(pl, mi, ops, fict):
        v = VolumeT4(pl, mi, ops=ops, idorigin=[(1, 2)], fictive=fict)
        c = v.copy()
        return str(v), v.empty(), (c.pluses, c.minuses, c.ops, c.fictive, c.idorigin), sorted(v.surface_ids())

    def ensures(result, pl, mi, ops, fict):
        text, empty, cp, sids = result
        f = T4File('GEOMETRY\n' + ''.join(f'SURF {k} PLANEX 0\n' for k in (3, 11, 20)) +
                   'VOLU 7 EQUA ENDV\nVOLU 9 EQUA ENDV\n' + f'VOLU 5 {text} ENDV\nENDG\n')
        v = f.volumes[5]
        yield 'counts-and-items-consistent', not f.errors
        yield 'plus-set', v['plus'] == sorted(set(pl))
        yield 'minus-set', v['minus'] == sorted(set(mi))
        yield 'operator', (v['op'], tuple(v['args'])) == ((ops[0], tuple(ops[1])) if ops else (None, ()))
        yield 'fictive-flag', v['fictive'] == fict
        yield 'empty-iff-both-sides', empty == bool(set(pl) & set(mi))
        yield 'copy', cp == (set(pl), set(mi), ops, fict, [(1, 2)])
        yield 'surface-ids', sids == sorted(set(pl) | set(mi))


@contract(WG.writeT4Geometry, props=['C08', 'C12', 'C18', 'C01'], name='WriteT4Geometry.writeT4Geometry', status='B')
class _WriteGeom:
    """One SURF line per surface used by a volume of the dictionary (ascending, TRANSFORM block before its SURF), one
    VOLU per dictionary key not in skipped_cells, in dictionary order."""
    scope = 'dictionaries of 1..3 volumes over surfaces {2, 5, 9(transformed torus)} with skipped subsets'

    def bounded(tier):
        import numpy as np
        for used in _subsets((2, 5, 9), 3):
            if not used:
                continue
            for skipped in ([], [31], [30, 31]):
                yield {'used': used, 'skipped': skipped}

    def call(used, skipped):
        import numpy as np
        import contextlib
        surfs = {2: SurfaceT4(T4S.PLANEX, [1.5], ['two']), 5: SurfaceT4(T4S.SPHERE, [0, 0, 0, 2.0]),
                 9: SurfaceT4(T4S.TORUSZ, [0, 0, 0, 3, 1, 1], transform=(np.zeros(3), np.identity(3))),
                 77: SurfaceT4(T4S.PLANEY, [0.0])}
        d = DictVolumeT4()
        d[31] = VolumeT4(used[:1], used[1:], idorigin=[(4, 5)], fictive=False)
        d[30] = VolumeT4([], used[:1], ops=('UNION', (31,)), fictive=False)
        d[99] = VolumeT4(used[-1:], [], fictive=True)
        out = io.StringIO()
        with contextlib.redirect_stdout(io.StringIO()):
            WG.writeT4Geometry(surfs, d, skipped, out)
        return out.getvalue()

    def ensures(result, used, skipped):
        f = T4File(result)
        yield 'readable', not f.errors
        yield 'exactly-the-used-surfaces', sorted(f.surfaces) == sorted(set(used))
        lines = [l.split()[1] for l in result.split('\n') if l.startswith('SURF ')]
        yield 'ascending', lines == [str(k) for k in sorted(set(used))]
        yield 'volumes-not-skipped', f.volume_order == [k for k in (31, 30, 99) if k not in skipped]
        yield 'transform-before-its-surface', (9 not in used) or (
            result.index('TRANSFORM 9 MATRIX') < result.index('SURF 9 TRANSFORM 9 TORUSZ'))
        yield 'provenance-comment', (31 in skipped) or '// (4, 5)' in result


@contract(CV.remove_unused_volumes, props=['C08', 'C01', 'C13'], name='ConstructVolumeT4.remove_unused_volumes', status='B')
class _RemoveUnused:
    """Exactly the virtual volumes that no operator references are removed; nothing else changes."""
    scope = 'dictionaries of 4 volumes, every assignment of fictive flags and every single UNION/INTE reference pattern'

    def bounded(tier):
        keys = (1, 2, 3, 4)
        for flags in itertools.product((True, False), repeat=4):
            for refs in _subsets([(a, b) for a in keys for b in keys if a != b], 2):
                yield {'flags': flags, 'refs': refs}

    def call(flags, refs):
        d = DictVolumeT4()
        for k, fl in zip((1, 2, 3, 4), flags):
            args = tuple(b for a, b in refs if a == k)
            d[k] = VolumeT4([k], [], ops=('UNION', args) if args else None, fictive=fl)
        CV.remove_unused_volumes(d)
        return sorted(d.keys())

    def ensures(result, flags, refs):
        used = {b for a, b in refs}
        want = [k for k, fl in zip((1, 2, 3, 4), flags) if not fl or k in used]
        yield 'kept-exactly-real-or-referenced', result == want


def _sweep_c08(tier, seed):
    from harness.sweeps import deck_sweep
    return deck_sweep('C08', tier, seed, families=('level0', 'fill', 'lattice', 'hexlattice'), n_quick=32, n_thorough=400)


BOUNDED = {'C08': [_sweep_c08]}
LEVEL = {'C08': 'other'}
EXPLANATION = {'C08': (
    'Bounded, exhaustive within stated scopes, on the real writers and helpers: VolumeT4.__str__/empty/copy, '
    'writeT4Geometry, remove_unused_volumes (written text re-read by the independent reader harness/t4file.py). '
    'Deck sweeps (families level0, fill, lattice): the complete written file is read back and checked for: every '
    'number defined once, every referenced surface / volume / composition defined, declared counts equal to the '
    'items that follow, no surface on both sides of a volume, finite numbers, every non-virtual volume in exactly one '
    'composition. conv_equa (no duplicate literal, C01) and SurfaceT4.__eq__ (C13) are proved. The writers '
    'themselves are not under a discharged unbounded contract (string formatting of finite maps).')}
ASSUMPTIONS = {'C08': [
    'structural grammar of the T4 file as in harness/t4file.py (written from the converter own output format)',
]}


@contract(CV.remove_empty_volumes, props=['C08', 'C01', 'C13'], name='ConstructVolumeT4.remove_empty_volumes', status='B')
class _RemoveEmpty:
    """Pruning of patently empty volumes: every volume that survives denotes what it denoted before, every removed
    volume denoted the empty set, no surviving volume lists a surface on both sides, and no operator refers to a
    removed volume (checked for every assignment of senses, the two helper planes denoting the empty set together)."""
    scope = ('dictionaries of 3 volumes: EQUA part in {none, +5, +5-5 (empty), +5-6, -6+6 (empty)} x operator in '
             '{none, INTE, UNION} over the later volumes (1-2 operands)')

    def bounded(tier):
        equas = [((), ()), ((5,), ()), ((5,), (5,)), ((5,), (6,)), ((6,), (6,))]
        opsets = {3: [None], 2: [None, ('INTE', (3,)), ('UNION', (3,))],
                  1: [None, ('INTE', (2,)), ('UNION', (2,)), ('INTE', (2, 3)), ('UNION', (2, 3)), ('UNION', (3,))]}
        for e1 in equas:
            for e2 in equas:
                for e3 in equas:
                    for o1 in opsets[1]:
                        for o2 in opsets[2]:
                            yield {'spec': {1: (e1, o1), 2: (e2, o2), 3: (e3, None)}}

    def call(spec):
        d = DictVolumeT4()
        for k, ((pl, mi), ops) in spec.items():
            d[k] = VolumeT4(pl, mi, ops=ops, fictive=(k != 1))
        before = {k: (set(v.pluses), set(v.minuses), v.ops) for k, v in d.items()}
        CV.remove_empty_volumes(d, (901, 902))
        after = {k: (set(v.pluses), set(v.minuses), v.ops) for k, v in d.items()}
        return before, after

    def ensures(result, spec):
        before, after = result

        def den(dic, k, sg):
            pl, mi, ops = dic[k]
            e = all(sg[s] for s in pl) and all(not sg[s] for s in mi)
            if ops is None:
                return e
            vals = [den(dic, a, sg) for a in ops[1]]
            return (e and all(vals)) if ops[0] == 'INTE' else (e or any(vals))
        ok_same = ok_removed = True
        for s5 in (False, True):
            for s6 in (False, True):
                for h in ((False, False), (False, True), (True, True)):       # never (901 and not 902)
                    sg = {5: s5, 6: s6, 901: h[0], 902: h[1]}
                    for k in before:
                        if k in after:
                            ok_same = ok_same and den(before, k, sg) == den(after, k, sg)
                        else:
                            ok_removed = ok_removed and not den(before, k, sg)
        yield 'survivors-keep-their-denotation', ok_same
        yield 'removed-volumes-were-empty', ok_removed
        yield 'no-surface-on-both-sides', all(not (pl & mi) for pl, mi, _ in after.values())
        yield 'no-dangling-operand', all(ops is None or all(a in after for a in ops[1]) for _, _, ops in after.values())
        yield 'no-empty-operator', all(ops is None or len(ops[1]) > 0 for _, _, ops in after.values())
