"""C12 -- exactly the zero-importance cells are left out."""
import itertools
from collections import OrderedDict

from MIP.mip import datacard as DC
from t4_geom_convert.Kernel.FileHandlers.Parser import ParseMCNPCell as PMC
from t4_geom_convert.Kernel.FileHandlers.Parser.ParseMCNPCell import ParseMCNPCell, ParseMCNPCellError

from MIP.geom import cells as MIPCELLS
from pyvc.contract import contract
from pyvc.interp import havoc
from pyvc.sym import And, Or, Not, implies, iff, is_sym, ite


def _bare_parser(importances=None, transforms=None):
    """A ParseMCNPCell object without running its constructor (the constructor reads the deck)."""
    p = ParseMCNPCell.__new__(ParseMCNPCell)
    p.mcnp_parser = None
    p.cell_cache_path = None
    p.lattice_params = {}
    p.importances = importances if importances is not None else []
    p.transforms = transforms if transforms is not None else OrderedDict()
    return p


def _max(vals):
    m = vals[0]
    for v in vals[1:]:
        m = ite(v > m, v, m)
    return m


@contract(ParseMCNPCell.parse_importance_cards, props=['C12', 'C17'], name='ParseMCNPCell.parse_importance_cards')
class _ImpCards:
    """IMP data cards: per cell rank the importance is the maximum over the particle types (zero iff zero for every
    type, importances being non-negative); cards of unequal length are rejected; no card -> empty list.
    get_cell_importances and expand_data_card are replaced by hooks (their own contracts are bounded)."""
    native = False

    def cases(S):
        for ncards in (0, 1, 2, 3):
            for lens in itertools.product((1, 2, 3), repeat=ncards):
                if ncards >= 2 and len(set(lens)) > 1 and lens != tuple(sorted(lens)):
                    continue
                yield f'{ncards}cards,lengths={lens}', {'lens': lens, 'S_': S}

    def call(lens, S_):
        cards = OrderedDict((f'imp:{"npe"[k]}', ['tok'] * n) for k, n in enumerate(lens))
        values = {f'imp:{"npe"[k]}': S_.reals([f'v{k}_{i}' for i in range(n)]) for k, n in enumerate(lens)}
        p = _bare_parser()
        return p.parse_importance_cards(), values, cards

    def _hooks():
        def get_imp(it, f, args, kw):
            env_cards = it.trace_cards
            return env_cards
        return {}

    hooks = {}

    raises = {ParseMCNPCellError: lambda lens, S_, calls=None: len(set(lens)) > 1}

    def ensures(result, lens, S_, calls):
        res, values, cards = result
        if not lens:
            yield 'no-card-no-importances', res == []
            return
        yield 'one-importance-per-cell', len(res) == lens[0]
        for r in range(lens[0]):
            yield f'rank{r}:maximum-over-particle-types', res[r] == _max([values[k][r] for k in values])


def _install_imp_hooks():
    state = {}

    def get_imp(it, f, args, kw):
        # the cards of the current case are found in the caller's environment (set by `call`)
        return state['cards']

    def expand(it, f, args, kw):
        tokens = args[0]
        for k, toks in state['cards'].items():
            if toks is tokens:
                return (list(state['values'][k]), len(toks))
        raise AssertionError('expand_data_card called on something that is not an importance card')

    def call(lens, S_):
        state['cards'] = OrderedDict((f'imp:{"npe"[k]}', ['tok'] * n) for k, n in enumerate(lens))
        state['values'] = {f'imp:{"npe"[k]}': S_.reals([f'v{k}_{i}' for i in range(n)]) for k, n in enumerate(lens)}
        p = _bare_parser()
        return p.parse_importance_cards(), state['values'], state['cards']
    _ImpCards.hooks = {PMC.get_cell_importances: get_imp, PMC.expand_data_card: expand}
    _ImpCards.call = staticmethod(call)


_install_imp_hooks()


# ------------------------------------------------------------------ expand_data_card (bounded)

def _tokens(maxlen):
    nums = ['0', '1', '2.5', '4']
    ops = ['r', '2r', 'i', '2i', '2m', '0.5m', 'j', '2j', 'R', '3M']
    for n in range(1, maxlen + 1):
        for combo in itertools.product(nums + ops, repeat=n):
            yield list(combo)


def _reference_expand(tokens):
    """Reference expansion written from the MCNP manual (nR repeat, nI linear interpolation, xM multiply, nJ jump)."""
    out = []
    i = 0
    toks = [t.lower() for t in tokens]
    while i < len(toks):
        t = toks[i]
        if t[-1] == 'r':
            n = int(t[:-1]) if len(t) > 1 else 1
            if not out:
                return None
            out += [out[-1]] * n          # repeating a jumped (defaulted) entry keeps it defaulted
        elif t[-1] == 'i':
            n = int(t[:-1]) if len(t) > 1 else 1
            if not out or out[-1] is None or i + 1 >= len(toks):
                return None
            try:
                hi = float(toks[i + 1])
            except ValueError:
                return None
            lo = out[-1]
            out += [lo + (hi - lo) * k / (n + 1) for k in range(1, n + 1)] + [hi]
            i += 1
        elif t[-1] == 'm':
            if len(t) == 1 or not out or out[-1] is None:
                return None
            out.append(out[-1] * float(t[:-1]))
        elif t[-1] == 'j':
            n = int(t[:-1]) if len(t) > 1 else 1
            out += [None] * n
        else:
            out.append(float(t))
        i += 1
    return out


@contract(DC.expand_data_card, props=['C12', 'C06', 'C14'], name='datacard.expand_data_card', status='B')
class _Expand:
    """Shorthand nR / nI / xM / nJ against a reference expansion (malformed sequences must raise, never return)."""
    scope = 'all token sequences of length <= 3 over 4 numbers and 10 shorthand spellings (14 + 196 + 2744 sequences)'

    def bounded(tier):
        for toks in _tokens(3):
            yield {'tokens': toks}

    def call(tokens):
        return DC.expand_data_card(list(tokens))

    may_raise = {Exception: lambda tokens: _reference_expand(tokens) is None}

    def ensures(result, tokens):
        ref = _reference_expand(tokens)
        vals, consumed = result
        if ref is None:
            yield 'malformed-sequence-must-not-expand', False
            return
        yield 'all-tokens-consumed', consumed == len(tokens)
        yield 'same-expansion', len(vals) == len(ref) and all(
            (a is None and b is None) or (a is not None and b is not None and abs(a - b) < 1e-12)
            for a, b in zip(vals, ref))


# ------------------------------------------------------------------ importance on the cell card / default by rank (bounded)

def _kw_lists():
    opts = ['imp:n', 'imp:p', 'imp:n,p']
    vals = ['0', '1', '2', '0.5']
    for n in (0, 1, 2):
        for ks in itertools.product(opts, repeat=n):
            for vs in itertools.product(vals, repeat=n):
                yield [(k, v) for k, v in zip(ks, vs)]


@contract(ParseMCNPCell.parse_one_cell_worker, props=['C12', 'C15', 'C01'], name='ParseMCNPCell.importance-of-a-cell',
          status='B')
class _CellImp:
    """Importance of a cell: from the IMP keywords of the card (zero iff zero for every particle type named on the
    card), otherwise from the data cards by cell position; missing in both -> ParseMCNPCellError."""
    scope = 'cards with 0..2 IMP keywords (3 spellings x 4 values) x rank 0..2 x data-card lists of length 0..2'

    def bounded(tier):
        for kws in _kw_lists():
            for rank in (0, 1, 2):
                for imps in ([], [0.0], [1.0, 0.0], [0.0, 3.0]):
                    yield {'kws': kws, 'rank': rank, 'imps': imps}

    def call(kws, rank, imps):
        from harness import shim
        shim.install()
        p = _bare_parser(importances=list(imps))
        opts = ' '.join(f'{k}={v}' for k, v in kws)
        return p.parse_one_cell_worker(rank, None, ('1 -1.0', '-1', opts)).importance

    raises = {ParseMCNPCellError: lambda kws, rank, imps: not kws and rank >= len(imps)}

    def ensures(result, kws, rank, imps):
        if kws:
            vals = [float(v) for _, v in kws]
            yield 'zero-iff-every-keyword-is-zero', (result == 0) == all(v == 0 for v in vals)
            yield 'is-one-of-the-given-values', result in vals
        else:
            yield 'from-the-data-card-by-position', result == imps[rank]


_IMP_LAYOUTS = ['{name} {body}', '{name}  {body}  $ importances', '{name} {b1} &\n     {b2}', '{name} {b1}\n      {b2}',
                '   {name} {body}']


@contract(MIPCELLS.get_cell_importances, props=['C12'], name='cells.get_cell_importances', status='B')
class _GetImp:
    """IMP data cards are found among the other data cards whatever their spelling (case, particle list, leading
    blanks, continuation lines, `$` comments) and handed over as the list of their tokens in order."""
    scope = '4 card names x 3 token lists x 5 layouts, between other data cards'

    def bounded(tier):
        for name in ('imp:n', 'IMP:N', 'imp:n,p', 'Imp:P'):
            for toks in (['1', '0'], ['1', '2r', '0'], ['1', '1', '3i', '5', '2m', '0']):
                for layout in _IMP_LAYOUTS:
                    yield {'name': name, 'toks': tuple(toks), 'layout': layout}

    def call(name, toks, layout):
        from contracts.c02 import _mip_of
        half = max(1, len(toks) // 2)
        card = layout.format(name=name, body=' '.join(toks), b1=' '.join(toks[:half]), b2=' '.join(toks[half:]))
        text = f'title\n1 0 -7 \n2 0 7 \n\n7 so 1.\n\nm1 1001 2 8016 1\n{card}\nmode n p\nnps 10\n'
        return dict(MIPCELLS.get_cell_importances(_mip_of(text)))

    def ensures(result, name, toks, layout):
        yield 'exactly-the-imp-card', [k.strip() for k in result] == [name.lower()]
        yield 'tokens-in-order', list(result.values()) == [list(toks)]


def _sweep_c12(tier, seed):
    from harness.sweeps import deck_sweep
    return deck_sweep('C12', tier, seed, families=('level0', 'fill'), n_quick=32, n_thorough=400)


BOUNDED = {'C12': [_sweep_c12]}
LEVEL = {'C12': 'other'}
EXPLANATION = {'C12': (
    'Proved for all importance values on the real parse_importance_cards (0-3 cards of every length pattern up to '
    '3; maximum over particle types per rank, unequal lengths rejected), on parse_keywords (IMP keywords of a cell '
    'card: maximum over the particle types, a BUT importance replaces; contracts in c15) and on the glue of '
    'parse_one_cell_worker (keyword importance, otherwise the data cards by rank, otherwise an error). Bounded, exhaustive within the stated '
    'scopes: expand_data_card against a reference expansion, importance of a cell card (keywords vs data cards by '
    'rank). Bounded (deck sweeps): the set of VOLU ids, the end-of-run NOTE and the absence of any volume in the '
    'region of zero-importance cells, on generated flat and filled decks with importances on cards or on an IMP card.')}
ASSUMPTIONS = {'C12': [
    'importances are non-negative, so max over particle types is zero iff all are zero',
    'get_cell_importances (regex card splitting): bounded contract only',
]}
