"""C02 -- elementary surfaces keep their locus and their sense.

Contracts (all on the real code, re-read from /repo on every run):
  forcad.<m>                       card parameters -> (type, frame, radii/sheet): region of the SurfaceMCNP view
                                   equals the MCNP card's region, for every probe point
  chain:<m>                        to_surfaces_mcnp -> normalize_surface -> mcnp2cad[m] -> SurfaceMCNP ->
                                   convert_mcnp_surface -> SurfaceCollection.join: region of the signed T4 list
                                   equals the MCNP card's region (this is the property statement itself)
  dispatch:<m>                     every mnemonic named by the property resolves in the live tables
"""
import math
from MIP.geom import forcad
from t4_geom_convert.Kernel.FileHandlers.Parser import ParseMCNPSurface as PS
from t4_geom_convert.Kernel.Surface import ConversionSurfaceMCNPToT4 as CS
from t4_geom_convert.Kernel.Surface.SurfaceMCNP import SurfaceMCNP
from t4_geom_convert.Kernel.Surface.ESurfaceTypeMCNP import ESurfaceTypeMCNP as MS, string_to_enum, mcnp_to_mip
from t4_geom_convert.Kernel import VectUtils as VU

from pyvc.contract import contract
from pyvc.sym import And, Or, Not, implies, ite, is_sym
from specs.common import same_region, dot, sub, cross, neg, pos, close, scaled
from specs.surfaces import mcnp_region, mcnp_view, t4_region, AXES

# mnemonics named by the property statement (C02) -> admissible arities
MNEMONICS = {
    'p': [4], 'px': [1], 'py': [1], 'pz': [1],
    'so': [1], 's': [4], 'sx': [2], 'sy': [2], 'sz': [2],
    'c/x': [3], 'c/y': [3], 'c/z': [3], 'cx': [1], 'cy': [1], 'cz': [1],
    'k/x': [4, 5], 'k/y': [4, 5], 'k/z': [4, 5], 'kx': [2, 3], 'ky': [2, 3], 'kz': [2, 3],
    'sq': [10], 'gq': [10],
    'tx': [5, 6], 'ty': [5, 6], 'tz': [5, 6],
}
AXISYM = ['x', 'y', 'z']


def card_cases(S, mn):
    """(label, params) for every admissible arity; one-sheet selectors enumerated (+1, -1: complete)."""
    for n in MNEMONICS[mn]:
        names = [f'a{i}' for i in range(n)]
        if mn[0] == 'k' and n in (3, 5):
            for nappe in (1.0, -1.0):
                yield f'{n}params,sheet={int(nappe):+d}', S.reals(names[:-1]) + [nappe]
        else:
            yield f'{n}params', S.reals(names)


def card_requires(mn, p):
    """Admissible parameter vectors (MCNP manual): radii > 0, t^2 > 0, plane normal != 0."""
    if mn == 'p':
        return p[0] * p[0] + p[1] * p[1] + p[2] * p[2] > 0
    if mn in ('so', 'cx', 'cy', 'cz'):
        return p[0] > 0
    if mn in ('sx', 'sy', 'sz'):
        return p[1] > 0
    if mn == 's':
        return p[3] > 0
    if mn in ('c/x', 'c/y', 'c/z'):
        return p[2] > 0
    if mn in ('kx', 'ky', 'kz'):
        return p[1] > 0
    if mn in ('k/x', 'k/y', 'k/z'):
        return p[3] > 0
    if mn in ('tx', 'ty', 'tz'):
        return And(*[r > 0 for r in p[3:]])
    return True


def raw_to_view(raw):
    """(type, frame, srf, pin) of MIP -> SurfaceMCNP the way to_surface_mcnp builds it (no code of /repo is
    bypassed: this is only the *observation* used by the forcad contracts)."""
    typ, frm, srf, _pin = raw
    return SurfaceMCNP('', string_to_enum(typ), frm, tuple(srf))


def _mk_forcad(mn):
    fn = forcad.mcnp2cad[mn]

    @contract(fn, props=['C02'], name=f'forcad.{fn.__name__}[{mn}]')
    class _C:
        def cases(S):
            for label, params in card_cases(S, mn):
                yield label, {'p': params}

        def ghost(S):
            return {'pt': S.reals('X Y Z')}

        def requires(p, pt):
            return card_requires(mn, p)

        def call(p):
            return fn(p)

        def ensures(result, p, pt):
            yield 'type-tag', result[0] == {'p': 'p', 's': 's', 'c': 'c', 'k': 'k', 't': 't'}.get(
                mn[0] if mn not in ('sq', 'gq') else '', mn)
            yield from same_region(mcnp_view(raw_to_view(result), pt), mcnp_region(mn, p, pt))
    return _C


def chain(mn, params, transform_id=None, transforms=None):
    surfs = PS.to_surfaces_mcnp(1, ('', transform_id, mn, params), transforms if transforms is not None else {})
    return CS.convert_mcnp_surface(1, surfs)


def _mk_chain(mn):
    @contract(PS.to_surfaces_mcnp, props=['C02', 'C16'] if mn[0] == 'k' else ['C02'], name=f'chain[{mn}]')
    class _C:
        def cases(S):
            for label, params in card_cases(S, mn):
                yield label, {'p': params}

        def ghost(S):
            return {'pt': S.reals('X Y Z')}

        def requires(p, pt):
            return card_requires(mn, p)

        def call(p):
            return chain(mn, p)

        def ensures(result, p, pt):
            if mn == 'sq':
                # convert_special_quadric negates the quadric when its value at the SQ centre (= G) is positive.
                # Which side MCNP calls negative there cannot be settled offline (DESIGN §5 C02): the sense is
                # claimed for G <= 0, the locus for every G.
                (f_t4, side), = t4_region(result, pt)
                (f_sp, _), = mcnp_region(mn, p, pt)
                yield 'locus', Or(close(side * f_t4, f_sp), close(side * f_t4, -f_sp))
                yield 'sense(G<=0)', implies(p[6] <= 0, And(*[g for _, g in same_region(
                    t4_region(result, pt), mcnp_region(mn, p, pt))]))
                return
            yield from same_region(t4_region(result, pt), mcnp_region(mn, p, pt))
            if mn[0] == 'k':
                # C16: number_items() gives the MCNP number to the first member of the collection, and a boundary
                # condition designates that number: it must be the cone, the apex plane of a one-sheet cone follows
                yield 'the-cone-comes-first-in-the-collection', result.surfs[0][0].type_surface.name.startswith('CONE')
    return _C


for _mn in MNEMONICS:
    if _mn in forcad.mcnp2cad:
        _mk_forcad(_mn)
    _mk_chain(_mn)


# ---------------------------------------------------------------- P with three points

def _plane3_spec(p, pt):
    """MCNP: plane through the three points; sense such that the origin is negative; if the plane passes
    through the origin, (0,0,+inf) is positive; then (0,+inf,0); then (+inf,0,0).  Returns (n, D, sigma-cases)."""
    p1, p2, p3 = p[0:3], p[3:6], p[6:9]
    n = cross(sub(p1, p2), sub(p1, p3))
    D = dot(n, p1)
    return n, D


from fractions import Fraction
from pyvc.interp import havoc
EPS2 = Fraction(1e-14) ** 2      # exact square of the 1e-14 band of planeParamsFromPoints


def _plane3_requires_n(n, D):
    """Outside the tolerance bands of the code (A1): the normal is clearly non-zero and each quantity the code
    compares with +-1e-14 (after normalisation) is exactly 0 or clearly non-zero."""
    n2 = dot(n, n)
    band = And(*[Or(v == 0, v * v > EPS2 * n2) for v in (D, n[2], n[1], n[0])])
    return And(n2 > 1e-10, band)


def _plane3_requires(p):
    n, D = _plane3_spec(p, None)
    return _plane3_requires_n(n, D)


def _plane3_sigma(n, D):
    """+1 when (n, D) already has the MCNP orientation, -1 when it must be flipped."""
    return ite(D != 0, ite(D > 0, 1.0, -1.0),
               ite(n[2] != 0, ite(n[2] > 0, 1.0, -1.0),
                   ite(n[1] != 0, ite(n[1] > 0, 1.0, -1.0), ite(n[0] > 0, 1.0, -1.0))))


@contract(VU.vect, props=['C02', 'C03', 'C04', 'C06', 'C07'], name='VectUtils.vect')
class _Vect:
    """Definitional contract: the result is the cross product (used as a callee contract below)."""
    def cases(S):
        yield 'any', {'v1': S.reals('a1 a2 a3'), 'v2': S.reals('b1 b2 b3')}

    def ensures(result, v1, v2):
        c = cross(v1, v2)
        yield 'is-cross-product', And(*[close(r, e) for r, e in zip(result, c)])
        yield 'arity', len(result) == 3


@contract(VU.planeParamsFromPoints, props=['C02'], name='VectUtils.planeParamsFromPoints')
class _Plane3:
    """Modular: `vect` is replaced by its contract (an arbitrary triple n, which VectUtils.vect proves to be
    (pt1-pt2) x (pt1-pt3)); the rest of the body is proved for every n outside the tolerance bands:
    result = lambda * (n, n.pt1) with |(a,b,c)| = 1 and the MCNP orientation."""
    hooks = {VU.vect: havoc('vect', lambda fresh, v1, v2: (fresh('n1'), fresh('n2'), fresh('n3')),
                            define=lambda r, v1, v2: [a == b for a, b in zip(r, cross(v1, v2))])}

    def cases(S):
        yield '3points', {'pt1': S.reals('x1 y1 z1'), 'pt2': S.reals('x2 y2 z2'), 'pt3': S.reals('x3 y3 z3')}

    def ghost(S):
        return {'pt': S.reals('X Y Z')}

    def requires(pt1, pt2, pt3, pt, calls):
        n = calls.result('vect')
        return _plane3_requires_n(n, dot(n, pt1))

    def ensures(result, pt1, pt2, pt3, pt, calls):
        n = calls.result('vect')
        a1, a2 = calls.args('vect')
        yield 'normal-from-edge-vectors', And(*[close(u, v) for u, v in zip(list(a1) + list(a2),
                                                                          list(sub(pt1, pt2)) + list(sub(pt1, pt3)))])
        D = dot(n, pt1)
        sigma = _plane3_sigma(n, D)
        a, b, c, d = result
        f_impl = a * pt[0] + b * pt[1] + c * pt[2] - d
        f_spec = sigma * (dot(n, pt) - D)
        yield 'unit-normal', close(a * a + b * b + c * c, 1)
        # identity + sign form: |n|^2 f_impl == mu * f_spec with mu = sigma (a,b,c).n > 0
        mu = sigma * (a * n[0] + b * n[1] + c * n[2])
        yield from scaled('', f_impl, f_spec, mu, dot(n, n))


@contract(PS.to_surfaces_mcnp, props=['C02'], name='chain[p,3points]')
class _ChainP9:
    """Nine-entry P card.  `planeParamsFromPoints` is replaced by its contract (proved above): an arbitrary
    unit-normal quadruple (a,b,c,d) obtained from the three points of the card, in card order.  The chain must
    then yield the region of a x + b y + c z - d; with the callee's postcondition (same region as the MCNP
    three-point plane) and transitivity of "same sign" this is the property for the three-point form."""
    hooks = {VU.planeParamsFromPoints: havoc(
        'planeParamsFromPoints', lambda fresh, p1, p2, p3: [fresh('a'), fresh('b'), fresh('c'), fresh('d')],
        assume=lambda r, p1, p2, p3: [r[0] * r[0] + r[1] * r[1] + r[2] * r[2] == 1])}

    def cases(S):
        yield '9params', {'p': S.reals([f'a{i}' for i in range(9)])}

    def ghost(S):
        return {'pt': S.reals('X Y Z')}

    def call(p):
        return chain('p', p)

    def requires(p, pt, calls):
        return True

    def ensures(result, p, pt, calls):
        a1, a2, a3 = calls.args('planeParamsFromPoints')
        yield 'points-in-card-order', And(*[close(u, v) for u, v in zip(list(a1) + list(a2) + list(a3), p)])
        yield 'one-call', calls.count('planeParamsFromPoints') == 1
        a, b, c, d = calls.result('planeParamsFromPoints')
        yield from same_region(t4_region(result, pt), [(a * pt[0] + b * pt[1] + c * pt[2] - d, 1)])


# ---------------------------------------------------------------- X / Y / Z (points on a surface of revolution)

def _axisym_requires(p):
    if len(p) == 2:
        return True
    c1, r1, c2, r2 = p
    # admissible: radii non-negative, the two points distinct and not both on the axis
    return And(r1 >= 0, r2 >= 0, Or(c1 != c2, r1 != r2), Or(r1 > 0, r2 > 0))


def _axisym_spec(axis, p, pt):
    ax = AXES[axis]
    h = dot(pt, ax)
    rho2 = dot(pt, pt) - h * h
    if len(p) == 2:
        return [('plane', True, [(h - p[0], 1)])]
    c1, r1, c2, r2 = p
    dc, dr = c1 - c2, r1 - r2
    # cone through both points: apex a with (c1 - a) dr = r1 dc ; tan^2 = dr^2 / dc^2.
    # multiplied through by dr^2 dc^2 > 0 to stay polynomial:
    #   f = rho2 dc^2 dr^2 - dr^2 ((h - c1) dr + r1 dc)^2 / ... -> use g = (h - a) dr = (h - c1) dr + r1 dc
    g = (h - c1) * dr + r1 * dc
    f_cone = rho2 * dc * dc - g * g
    # sheet containing the points: sign of (c_i - a) for a point off the axis; (c1 - a) dr = r1 dc, (c2 - a) dr = r2 dc
    # so the sheet is where (h - a) has the sign of dc/dr  <=>  g * dc > 0  (g = (h - a) dr)
    return [('plane', dc == 0, [(h - c1, 1)]),
            ('cylinder', And(dc != 0, dr == 0), [(rho2 - r1 * r1, 1)]),
            ('cone', And(dc != 0, dr != 0), [(f_cone, 1), (g * dc, -1)])]


def _mk_axisym(axis):
    registered = axis in forcad.mcnp2cad

    @contract(PS.to_surfaces_mcnp, props=['C02'], name=f'chain[{axis}]')
    class _C:
        def cases(S):
            yield '2params', {'p': S.reals('c1 r1')}
            yield '4params', {'p': S.reals('c1 r1 c2 r2')}

        def ghost(S):
            return {'pt': S.reals('X Y Z')}

        def requires(p, pt):
            return _axisym_requires(p)

        def call(p):
            return chain(axis, p)

        def ensures(result, p, pt):
            for kind, cond, region in _axisym_spec(axis, p, pt):
                for label, g in same_region(t4_region(result, pt), region):
                    yield f'{kind}:{label}', implies(cond, g)
    return _C


for _ax in AXISYM:
    _mk_axisym(_ax)


@contract(PS.to_surfaces_mcnp, props=['C02', 'C17'], name='chain[x|y|z,3pairs]')
class _Axisym6:
    """Three pairs are not supported: the run must stop (NotImplementedError), never return a surface."""
    def cases(S):
        for axis in AXISYM:
            yield f'{axis},6params', {'p': S.reals('c1 r1 c2 r2 c3 r3'), 'axis': axis}

    def call(p, axis):
        return chain(axis, p)

    raises = {NotImplementedError: lambda p, axis: True}

    def ensures(result, p, axis):
        return []


@contract(None, props=['C02', 'C03', 'C04'], name='lemma.scaled_same_sign')
class _LemmaScaled:
    """den * F == num * G, num > 0, den > 0  ==>  F and G have the same sign (and the same zero set).
    This is what turns an `identity` + `factor>0` pair into "same locus and same sense for every point"."""
    def cases(S):
        yield 'generic', {'F': S.real('F'), 'G': S.real('G'), 'num': S.real('num'), 'den': S.real('den')}

    def requires(F, G, num, den):
        return And(den * F == num * G, num > 0, den > 0)

    def ensures(result, F, G, num, den):
        yield 'negative', (F < 0) == (G < 0)
        yield 'positive', (F > 0) == (G > 0)
        yield 'zero-set', (F == 0) == (G == 0)

LEVEL = {'C02': 'other'}
EXPLANATION = {'C02': (
    'Contract-based deductive verification of the real surface chain. For every mnemonic of the property and '
    'every admissible arity the verification conditions are generated from the AST of the live functions '
    '(to_surfaces_mcnp -> to_surface_mcnp -> normalize_surface -> mcnp2cad[m] -> SurfaceMCNP -> '
    'convert_mcnp_surface -> conversion_surface_params -> convert_* -> SurfaceCollection.join) and the '
    'postcondition "for every probe point the negative (positive) region of the signed T4 surface list equals the '
    'negative (positive) region of the MCNP equation" is discharged by z3 (nlsat) for all real parameter vectors. '
    'Per-function contracts: every forcad function, planeParamsFromPoints (modular, vect replaced by its '
    'contract), vect. Not proved here: see assumptions.')}
ASSUMPTIONS = {'C02': [
    'MCNP surface equations and sense convention (negative sense <=> f < 0) as in specs/surfaces.py',
    'TRIPOLI-4 conventions calibrated on the converter: PLANE a b c d means ax+by+cz+d, cone angle in degrees, '
    'QUAD coefficient order = GQ order, torus radii order, PLUS = positive side',
    'SQ with positive value at its centre (G > 0): locus proved, sense not claimed (convention cannot be checked offline)',
    'three-point planes: the 1e-14 / 1e-10 tolerance bands of planeParamsFromPoints are excluded by the precondition',
    'surfacecard.split / get_surfaces (regular expressions, float()) are trusted: their output shape '
    '(bc, tr, mnemonic, list of floats) is the precondition of the chain',
]}
TRUSTED = {'C02': ['float() (number parsing)']}


# ------------------------------------------------------------------ SurfaceCollection.join / CollectionDict.number_items

from t4_geom_convert.Kernel.Surface.SurfaceCollection import SurfaceCollection
from t4_geom_convert.Kernel.Surface.CollectionDict import CollectionDict
from t4_geom_convert.Kernel.Surface.SurfaceT4 import SurfaceT4
from t4_geom_convert.Kernel.Surface.ESurfaceTypeT4 import ESurfaceTypeT4 as T4S
import itertools as _it


@contract(SurfaceCollection.join, props=['C02', 'C03'], name='SurfaceCollection.join')
class _Join:
    """The joined collection lists the sub-surfaces of every part in order, each with its own side multiplied by the
    side of the part (so that "negative sense = every signed sub-surface negative" is preserved)."""
    def cases(S):
        for sizes in ((1,), (2,), (1, 1), (2, 1), (1, 2, 1)):
            parts = []
            for k, n in enumerate(sizes):
                surfs = [(SurfaceT4(T4S.PLANE, S.reals([f'p{k}{i}{j}' for j in range(4)])), (1, -1)[(i + k) % 2])
                         for i in range(n)]
                parts.append((SurfaceCollection(surfs), (1, -1, 1)[k]))
            yield f'parts={sizes}', {'surf_colls': parts}

    def call(surf_colls):
        return SurfaceCollection.join(surf_colls)

    def ensures(result, surf_colls):
        want = [(s_, sub * side) for coll, side in surf_colls for s_, sub in coll.surfs]
        yield 'in-order-with-multiplied-sides', len(result.surfs) == len(want) and all(
            a[0] is b[0] and a[1] == b[1] for a, b in zip(result.surfs, want))


@contract(CollectionDict.number_items, props=['C02', 'C03', 'C08', 'C16'], name='CollectionDict.number_items', status='B')
class _NumberItems:
    """Every sub-surface gets its own number: the first sub-surface of a key keeps the key (the MCNP number, which is
    what boundary conditions designate), the others get fresh numbers above every key, pairwise different;
    matching[key][i] == side_i * number_i and numbering[number_i] is that sub-surface."""
    scope = 'dictionaries of 1..3 keys from {3, 7, 12} holding 1..3 sub-surfaces each, every side pattern'

    def bounded(tier):
        for keys in ([3], [7, 3], [3, 12, 7]):
            for sizes in _it.product((1, 2, 3), repeat=len(keys)):
                for flip in (0, 1):
                    yield {'keys': keys, 'sizes': sizes, 'flip': flip}

    def call(keys, sizes, flip):
        d = CollectionDict()
        objs = {}
        for k, n in zip(keys, sizes):
            objs[k] = [(object(), (1, -1)[(i + flip) % 2]) for i in range(n)]
            d[k] = list(objs[k])
        numbering, matching = d.number_items()
        return numbering, matching, objs

    def ensures(result, keys, sizes, flip):
        numbering, matching, objs = result
        ids = [abs(i) for k in keys for i in matching[k]]
        yield 'numbers-pairwise-different', len(set(ids)) == len(ids)
        yield 'first-sub-surface-keeps-the-key', all(abs(matching[k][0]) == k for k in keys)
        yield 'other-numbers-are-fresh', all(abs(i) > max(keys) for k in keys for i in matching[k][1:])
        yield 'signed-by-side-and-numbered', all(
            (i > 0) == (side > 0) and numbering[abs(i)] is obj
            for k in keys for i, (obj, side) in zip(matching[k], objs[k]))
        yield 'nothing-else-numbered', set(numbering) == set(ids)


@contract(CollectionDict.number_items, props=['C02', 'C03', 'C08', 'C16'], name='CollectionDict.number_items[any-sides]')
class _NumberItemsP:
    """The same statement for arbitrary integer sides (symbolic) and opaque sub-surfaces: per dictionary shape, the
    numbering is total over the sub-surfaces, injective, keeps the key for the first sub-surface, takes the others
    above every key, and matching[key][i] == side_i * number_i for every value of the sides."""
    def cases(S):
        for keys in ([3], [7, 3], [3, 12, 7], [1000, 2, 999]):
            for sizes in _it.product((1, 2, 3), repeat=len(keys)):
                if len(keys) == 3 and sum(sizes) > 6:
                    continue
                d = CollectionDict()
                objs, sides = {}, {}
                for k, n in zip(keys, sizes):
                    sides[k] = S.ints([f'side{k}_{i}' for i in range(n)])
                    objs[k] = [object() for _ in range(n)]
                    d[k] = list(zip(objs[k], sides[k]))
                yield f'keys={keys}/sizes={sizes}', {'self': d, 'keys': keys, 'objs': objs, 'sides': sides}

    def call(self, keys, objs, sides):
        return self.number_items()

    def ensures(result, self, keys, objs, sides):
        numbering, matching = result
        yield 'shape', (list(matching) == list(keys) and all(len(matching[k]) == len(objs[k]) for k in keys))
        # the number given to sub-surface (k, i): the key for i == 0, else the only number mapped to that object
        num = {}
        for n_, o in numbering.items():
            for k in keys:
                for i, ob in enumerate(objs[k]):
                    if ob is o:
                        num.setdefault((k, i), []).append(n_)
        yield 'every-sub-surface-numbered-once', all(len(num.get((k, i), [])) == 1
                                                     for k in keys for i in range(len(objs[k])))
        yield 'nothing-else-numbered', len(numbering) == sum(len(objs[k]) for k in keys)
        yield 'first-sub-surface-keeps-the-key', all(num[(k, 0)] == [k] for k in keys)
        yield 'other-numbers-are-fresh', all(num[(k, i)][0] > max(keys) for k in keys for i in range(1, len(objs[k])))
        for k in keys:
            for i in range(len(objs[k])):
                yield f'signed-by-side[{k},{i}]', matching[k][i] == sides[k][i] * num[(k, i)][0]


# ------------------------------------------------------------------ surface cards: text -> (flag, TR, mnemonic, numbers)

def _mip_of(text):
    """MIP object on a temporary copy of `text` (removed again before returning the parsed cards)."""
    import os
    import tempfile
    from MIP import mip
    d = tempfile.mkdtemp(prefix='t4gc_')
    p = os.path.join(d, 'deck.i')
    try:
        with open(p, 'w') as f:
            f.write(text)
        return mip.MIP(p)
    finally:
        os.unlink(p)
        os.rmdir(d)


_CARD_LAYOUTS = ['{head} {body}', '  {head}  {body}   $ trailing comment', '{head} {b1} &\n   {b2}', '{head} {b1}\n      {b2}',
                 '{head} {b1}\nc a comment line between a card and its continuation\n     {b2}']
_CARD_BODIES = [('PX', ['1.5']), ('c/z', ['1', '-2.5', '1e-3']), ('GQ', ['1', '2', '3', '4', '5', '6', '7', '8', '9', '-10.']),
                ('Kz', ['0', '.25', '-1']), ('so', ['2.']), ('RPP', ['-1', '1', '-2', '2', '-3', '3E0']), ('p', ['1', '0', '0', '+4'])]


from MIP.geom import surfaces as _MIPSURF


@contract(_MIPSURF.get_surfaces, props=['C02', 'C16'], name='surfaces.get_surfaces', status='B')
class _GetSurfaces:
    """Surface cards (any layout MCNP accepts: leading blanks, continuation by `&` or by five leading blanks, `$`
    comments, comment lines, upper / lower case) are read as: number, boundary flag, transformation number,
    lower-case mnemonic and the list of numbers in order -- the precondition of every card chain proved above."""
    scope = '3 flags x 3 TR fields x 7 card bodies x 5 layouts, two cards per deck'

    def bounded(tier):
        k = 0
        for flag in ('', '*', '+'):
            for tr in ('', '3', '-12'):
                for mn, nums in _CARD_BODIES:
                    for layout in _CARD_LAYOUTS:
                        k += 1
                        if tier == 'quick' and k % 3:
                            continue
                        yield {'flag': flag, 'tr': tr, 'mn': mn, 'nums': tuple(nums), 'layout': layout}

    def call(flag, tr, mn, nums, layout):
        from MIP.geom import surfaces
        head = f'{flag}7 {tr} {mn}' if tr else f'{flag}7 {mn}'
        half = max(1, len(nums) // 2)
        card = layout.format(head=head, body=' '.join(nums), b1=' '.join(nums[:half]), b2=' '.join(nums[half:]))
        if len(nums) == 1 and '{b2}' in layout:
            card = f'{head} {nums[0]}'
        text = f'title\n1 0 -7 imp:n=1\n2 0 7 imp:n=0\n\n{card}\n9 so 100.\n\nmode n\n'
        return dict(surfaces.get_surfaces(_mip_of(text)))

    def ensures(result, flag, tr, mn, nums, layout):
        yield 'both-cards-read', sorted(result) == [7, 9]
        bc, t, typ, params = result[7]
        yield 'flag', bc == flag
        yield 'transformation-field', t.strip() == tr
        yield 'mnemonic', typ == mn.lower()
        yield 'numbers-in-order', params == [float(x) for x in nums]
        yield 'next-card-untouched', result[9] == ('', '', 'so', [100.0])
