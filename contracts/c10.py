"""C10 -- material cards become compositions with the same nuclides and amounts;  C09 -- material and density per volume."""
import itertools
import math
import re
from collections import OrderedDict

from t4_geom_convert.Kernel.Composition.CCompositionMCNP import CCompositionMCNP
from t4_geom_convert.Kernel.Composition import CompositionConversionMCNPToT4 as CCONV
from t4_geom_convert.Kernel.Composition import ConstructCompositionT4 as CCT4
from t4_geom_convert.Kernel.Composition.ConvertIsotope import convert_isotope
from t4_geom_convert.Kernel.Composition.EIsotopeNameElementT4 import EIsotopeNameElement
from t4_geom_convert.Kernel.GeomComp.ConstructGeomCompT4 import constructGeomCompT4
from t4_geom_convert.Kernel.FileHandlers.Parser.ParseMCNPCell import ParseMCNPCell
from t4_geom_convert.Kernel.Volume.VolumeT4 import VolumeT4
from t4_geom_convert.Kernel.Volume.CellMCNP import CellMCNP
from t4_geom_convert.Kernel import Utils

from pyvc.contract import contract
from pyvc.sym import And, Or, Not, implies, iff, is_sym, NumStr
from pyvc.interp import havoc

SYMBOLS = ('H HE LI BE B C N O F NE NA MG AL SI P S CL AR K CA SC TI V CR MN FE CO NI CU ZN GA GE AS SE BR KR RB SR Y '
           'ZR NB MO TC RU RH PD AG CD IN SN SB TE I XE CS BA LA CE PR ND PM SM EU GD TB DY HO ER TM YB LU HF TA W RE '
           'OS IR PT AU HG TL PB BI PO AT RN FR RA AC TH PA U NP PU AM CM BK CF ES FM MD NO LR RF DB SG BH HS MT DS RG '
           'CN NH FL MC LV TS OG').split()      # periodic table, written independently of the repo's enum


@contract(convert_isotope, props=['C10'], name='ConvertIsotope.convert_isotope', status='B')
class _Isotope:
    """ZAID -> (element Z, mass number): element symbol of the periodic table, mass number A without leading zeros,
    library suffix ignored.  The admissible domain is finite and enumerated completely."""
    scope = 'every ZAID with Z = 1..118 and A = 0..299 (A = 0..999 in the thorough tier), with and without a library suffix'

    def bounded(tier):
        amax = 300 if tier == 'quick' else 1000
        for z in range(1, 119):
            for a in range(0, amax):
                yield {'zaid': f'{z}{a:03d}', 'z': z, 'a': a}
                if a % 50 == 1:
                    yield {'zaid': f'{z}{a:03d}.70c', 'z': z, 'a': a}

    def call(zaid, z, a):
        at, mass = convert_isotope(zaid)
        return EIsotopeNameElement(at.value).name, mass

    def ensures(result, zaid, z, a):
        yield 'element-and-mass-number', result == (SYMBOLS[z - 1], str(a))


def _mat_tokens():
    iso = ['1001', '8016.70c', '92235', '6000', '26056.80c']
    fr = ['1.0', '-0.5', '2', '1e-3', '-1.5E+1', ' 0.25']
    kw = ['nlib=70c', 'gas=1', 'ESTEP=3']
    base = [(i, f) for i in iso[:3] for f in fr[:3]]
    for n in (1, 2):
        for pairs in itertools.product(base, repeat=n):
            for kws in ([], ['nlib=70c'], ['gas=1', 'ESTEP=3']):
                for pos in range(0, n + 1):
                    toks = []
                    for k, (i, f) in enumerate(pairs):
                        if k == pos:
                            toks += kws
                        toks += [i, f]
                    if pos == n:
                        toks += kws
                    yield toks, list(pairs)


@contract(CCompositionMCNP.__init__, props=['C10'], name='CCompositionMCNP.__init__', status='B')
class _CompMCNP:
    """(ZAID, fraction) pairs in card order, keyword entries (containing '=') skipped wherever they stand, library
    suffix dropped."""
    scope = 'cards of 1..2 nuclides from 3 ZAIDs x 3 fractions with 0..2 keyword entries at every position'

    def bounded(tier):
        for toks, pairs in _mat_tokens():
            yield {'toks': toks, 'pairs': pairs}

    def call(toks, pairs):
        return CCompositionMCNP(list(toks)).materialCompositionParameters

    def ensures(result, toks, pairs):
        yield 'pairs-in-order', result == [(i.split('.')[0], f) for i, f in pairs]


@contract(CCONV.str_fabs, props=['C10'], name='CompositionConversionMCNPToT4.str_fabs', status='B')
class _StrFabs:
    scope = 'number spellings from a grammar of signs, digits, points and exponents (with surrounding blanks)'

    def bounded(tier):
        for sign in ('', '-'):
            for body in ('1', '1.5', '.5', '0.050', '1e-30', '1.0E24', '2.5d2', '7.'):
                for pad in ('', ' ', '  '):
                    yield {'s': pad + sign + body + pad, 'body': body}

    def call(s, body):
        return CCONV.str_fabs(s)

    def ensures(result, s, body):
        yield 'absolute-value-same-spelling', result == body


def _fake_parser(cards):
    class P:      # minimal stand-in for mip.MIP: only what get_material_composition reads
        def cards(self, blocks=None, skipcomments=True):
            for name, params in cards:
                yield type('C', (), {'parts': lambda self, n=name, p=params: (str(n), 'm', p)})()
    return P()


@contract(CCONV.compositionConversionMCNPToT4, props=['C10', 'C17'], name='CompositionConversionMCNPToT4.compositionConversionMCNPToT4',
          status='B')
class _CompConv:
    """Nuclides in card order with element symbol and mass number (000 -> -NAT), absolute values with the card's
    spelling, atom_fracs iff the entries are positive, mixed signs rejected (ValueError)."""
    scope = 'cards of 1..3 nuclides over 4 ZAIDs with every sign pattern'

    def bounded(tier):
        isos = ['1001', '8016.70c', '6000', '92235']
        for n in (1, 2, 3):
            for combo in itertools.product(isos, repeat=n):
                for signs in itertools.product(('', '-'), repeat=n):
                    yield {'combo': combo, 'signs': signs}

    def call(combo, signs):
        params = ' '.join(f'{z} {s}0.{k + 1}5' for k, (z, s) in enumerate(zip(combo, signs)))
        res = CCONV.compositionConversionMCNPToT4(_fake_parser([(4, params)]))
        ab = res[4]
        return [((el.name, a), fr) for (el, a), fr in ab.isotopes], ab.atom_fracs

    raises = {ValueError: lambda combo, signs: len(set(signs)) > 1}

    def ensures(result, combo, signs):
        isotopes, atom = result
        names = {'1001': ('H', '1'), '8016.70c': ('O', '16'), '6000': ('C', '-NAT'), '92235': ('U', '235')}
        want = [(names[z], f'0.{k + 1}5') for k, z in enumerate(combo)]
        yield 'nuclides-and-absolute-fractions-in-order', isotopes == want
        yield 'atom-fractions-iff-positive', atom == (signs[0] == '')


@contract(CCT4.rescale_fractions, props=['C10'], name='ConstructCompositionT4.rescale_fractions', status='B')
class _Rescale:
    """Concentrations proportional to the atom fractions and summing to the cell density (15 significant digits)."""
    scope = ('fraction lists of 1..3 entries from 5 spellings x 4 concentrations x every pattern of repeated nuclide '
             'names (a card may list a nuclide twice, e.g. with two library suffixes)')

    def bounded(tier):
        fr = ['1.0', '2', '0.25', '1e-3', '3.50']
        for n in (1, 2, 3):
            for combo in itertools.product(fr, repeat=n):
                for conc in (1.0, 0.05, 6.022e-2, 123.456):
                    for names in set(itertools.product(('U235', 'U238', 'O16'), repeat=n)):
                        if tier == 'quick' and n == 3 and conc != 0.05:
                            continue
                        yield {'fracs': combo, 'conc': conc, 'names': names}

    def call(fracs, conc, names):
        return CCT4.rescale_fractions(list(zip(names, fracs)), conc)

    def ensures(result, fracs, conc, names):
        vals = [float(v) for _, v in result]
        fs = [float(f) for f in fracs]
        yield 'names-in-order', [n for n, _ in result] == list(names)
        yield 'sum-is-the-density', abs(sum(vals) - conc) <= 1e-12 * conc
        yield 'proportional', all(abs(v * sum(fs) - f * conc) <= 1e-12 * conc * sum(fs) for v, f in zip(vals, fs))


def _spell(v):
    """symbolic run: an opaque spelling of the real v; concrete run (replay / sampling): its repr."""
    return NumStr(v) if is_sym(v) else repr(v)


def _val(s):
    return s.value if isinstance(s, NumStr) else float(s)


@contract(CCT4.rescale_fractions, props=['C10'], name='ConstructCompositionT4.rescale_fractions[all-amounts]')
class _RescaleP:
    """For *all* real atom fractions f_1..f_n (n <= 4; 5 in the thorough tier) with a non-zero sum and every
    concentration c: nuclide names kept in order, the concentrations sum to c and are proportional to the fractions.
    Numbers are opaque spellings (NumStr): normalize_float is replaced by its contract (the value is preserved,
    bounded contract above), float() of a spelling is its value, and the 15-digit formatting is taken as exact."""
    samples = 25

    def cases(S):
        import os
        for n in (1, 2, 3, 4) + ((5,) if os.environ.get('VERIF_TIER') == 'thorough' else ()):
            yield f'{n}nuclides', {'fr': S.reals([f'f{i}' for i in range(n)]), 'c': S.real('c')}

    def requires(fr, c):
        tot = fr[0]
        for f in fr[1:]:
            tot = tot + f
        return tot != 0

    def call(fr, c):
        return CCT4.rescale_fractions([(f'N{i}', _spell(f)) for i, f in enumerate(fr)], c)

    hooks = {Utils.normalize_float: havoc('normalize_float', lambda fresh, s: s if isinstance(s, NumStr) else s)}

    def ensures(result, fr, c):
        yield 'names-in-order', [n for n, _ in result] == [f'N{i}' for i in range(len(fr))]
        vals = [_val(v) for _, v in result]
        tot, sv = fr[0], vals[0]
        for f in fr[1:]:
            tot = tot + f
        for v in vals[1:]:
            sv = sv + v
        if is_sym(sv) or is_sym(tot):
            yield 'sum-is-the-density', sv == c
            for i, (v, f) in enumerate(zip(vals, fr)):
                yield f'proportional{i}', v * tot == f * c
        else:
            scale = max(abs(f) for f in fr) * max(1.0, abs(c)) / max(abs(tot), 1e-300)
            yield 'sum-is-the-density', abs(sv - c) <= 1e-11 * max(abs(c), scale)
            for i, (v, f) in enumerate(zip(vals, fr)):
                yield f'proportional{i}', abs(v * tot - f * c) <= 1e-11 * max(abs(f * c), abs(tot) * scale, 1e-300)


# ------------------------------------------------------------------ C09

def _number_spellings():
    for sign in ('', '-', '+'):
        for mant in ('1', '1.', '1.0', '1.00', '2.5', '2.50', '2.500', '.5', '0.5', '0.50', '10', '100', '7.80'):
            for exp in ('', 'e-1', 'E-1', 'd-1', '-1', 'e+2', '+2', 'e2', 'E02', 'e10', 'e-10', '-10', 'e00', 'D+20'):
                yield sign + mant + exp


def _value(s):
    t = s.lower().replace('d', 'e')
    m = re.fullmatch(r'([-+]?(?:\d+\.?\d*|\.\d+))([-+]\d+)', t)
    if m:
        t = m.group(1) + 'e' + m.group(2)
    return float(t)


@contract(Utils.normalize_float, props=['C09', 'C14'], name='Utils.normalize_float', status='B')
class _NormFloat:
    """The normal form is still a spelling of the same number (value preserved), and is idempotent."""
    scope = '3 signs x 13 mantissas x 14 exponent spellings (546 spellings)'

    def bounded(tier):
        for s in _number_spellings():
            yield {'s': s}

    def call(s):
        n = Utils.normalize_float(s)
        return n, Utils.normalize_float(n)

    def ensures(result, s):
        n, nn = result
        yield 'value-preserved', _value(n) == _value(s)
        yield 'idempotent', nn == n


@contract(Utils.normalize_float, props=['C09'], name='Utils.normalize_float[classes]', status='B')
class _NormClasses:
    """Spellings that differ only by trailing zeros of the mantissa or by the Fortran exponent form (e / E / d / D /
    bare sign) have one normal form; numerically different densities have different normal forms."""
    scope = 'pairs of the 546 spellings above (every third spelling in the quick tier)'

    def bounded(tier):
        sp = list(_number_spellings())
        step = 1 if tier == 'thorough' else 3
        for i in range(0, len(sp), step):
            for j in range(i + 1, len(sp), step):
                yield {'a': sp[i], 'b': sp[j]}

    def call(a, b):
        return Utils.normalize_float(a), Utils.normalize_float(b)

    def ensures(result, a, b):
        na, nb = result
        if _value(a) != _value(b):
            yield 'different-numbers-different-names', na != nb
        elif _canon_spelling(a) == _canon_spelling(b):
            yield 'same-number-same-spelling-class-same-name', na == nb


def _canon_spelling(s):
    """Spelling class of the property: trailing zeros of the fraction dropped, exponent marker unified."""
    t = s.lower().replace('d', 'e')
    m = re.fullmatch(r'([-+]?)(\d*)(?:\.(\d*))?(?:e?([-+]?\d+))?', t)
    sign, ip, fp, ex = m.group(1), m.group(2), m.group(3), m.group(4)
    fp = (fp or '').rstrip('0')
    return (sign, ip, fp if (fp or m.group(3) is None) else '0' if False else fp, ex, m.group(3) is not None)


@contract(ParseMCNPCell.parse_one_cell_worker, props=['C09', 'C15'], name='ParseMCNPCell.material-and-density-of-a-cell',
          status='B')
class _ParseMat:
    """Material number and *normalised* density of a parsed cell: from the card, or from the MAT= / RHO= overrides of a
    LIKE n BUT cell (same normal form, so that GEOMCOMP and COMPOSITION agree on the name); void cells have no density."""
    scope = ('material fields "0" and "<n> <rho>" for 3 numbers x 8 density spellings, with and without MAT= / RHO= '
             'overrides in 8 spellings')

    def bounded(tier):
        rhos = ('-1.0', '-2.50', '0.05', '1.0e-1', '-7.8', '6.40875-2', '-2.70', '-2.70-1')
        yield {'material': '0', 'opts': '', 'want': ('0', None)}
        for n in ('1', '12', '305'):
            for rho in rhos:
                yield {'material': f'{n} {rho}', 'opts': '', 'want': (n, Utils.normalize_float(rho))}
        for rho in rhos:
            yield {'material': '4 -1.0', 'opts': f'rho={rho}', 'want': ('4', Utils.normalize_float(rho))}
            yield {'material': '4 -1.0', 'opts': f'mat=9 rho={rho}', 'want': ('9', Utils.normalize_float(rho))}
        yield {'material': '4 -1.50', 'opts': 'mat=9', 'want': ('9', '-1.5')}

    def call(material, opts, want):
        from harness import shim
        from contracts.c12 import _bare_parser
        shim.install()
        c = _bare_parser(importances=[1.0]).parse_one_cell_worker(0, None, (material, '-1', 'imp:n=1 ' + opts))
        return c.materialID, c.density

    def ensures(result, material, opts, want):
        yield 'material-and-normalised-density', result == want


def _cell(mat, rho):
    return CellMCNP(mat, rho, None, 1.0, 0, None, (), None, [])


_RHO_SETS = [('-1.0', '-2.5', '-1.0'), ('-0.9982071', '-0.9982074', '-0.9982071'), ('1e-10', '1.0000001e-10', '1e-10'),
             ('-1.0', '-1.0', '-1.0'), ('123456.7', '123456.8', '123456.7')]


@contract(constructGeomCompT4, props=['C09', 'C08'], name='ConstructGeomCompT4.constructGeomCompT4', status='B')
class _GeomComp:
    """Every non-virtual volume appears exactly once, under the name material_density of the cell that owns it: the
    lowest-level filler recorded first in its provenance, else the cell of the same number; virtual volumes skipped;
    void cells go to the composition named by the bare material number 0; cells of one material whose (normalised)
    densities differ numerically -- however little -- never share a composition."""
    scope = ('4 volumes x (fictive or not) x (own cell | filler provenance) over 4 cells incl. void and equal materials x '
             '5 density triples (equal, clearly different, different in the 7th significant digit only)')

    def bounded(tier):
        for rhos in _RHO_SETS:
            for flags in itertools.product((True, False), repeat=3):
                for prov in itertools.product((None, 41, 42), repeat=3):
                    yield {'flags': flags, 'prov': prov, 'rhos': rhos}

    def call(flags, prov, rhos):
        cells = {1: _cell('3', rhos[0]), 2: _cell('3', rhos[1]), 3: _cell('0', None), 41: _cell('7', '0.05'),
                 42: _cell('3', rhos[2])}
        vols = OrderedDict()
        for k, (fl, pr) in enumerate(zip(flags, prov), start=1):
            vols[k] = VolumeT4([k], [], idorigin=[(pr, 9), (3, 1)] if pr else None, fictive=fl)
        res = constructGeomCompT4(vols, cells)
        return {name: (g.volumeNumberMaterial, g.listVolumeId) for name, g in res.items()}

    def ensures(result, flags, prov, rhos):
        names = {1: '3_' + rhos[0], 2: '3_' + rhos[1], 3: '0', 41: '7_0.05', 42: '3_' + rhos[2]}
        want = OrderedDict()
        for k, (fl, pr) in enumerate(zip(flags, prov), start=1):
            if fl:
                continue
            want.setdefault(names[pr if pr else k], []).append(k)
        yield 'groups', {n: v[1] for n, v in result.items()} == {n: ' '.join(map(str, ids)) for n, ids in want.items()}
        yield 'counts', all(v[0] == len(v[1].split()) for v in result.values())


@contract(constructGeomCompT4, props=['C09', 'C08'], name='ConstructGeomCompT4.constructGeomCompT4[any-flags]')
class _GeomCompP:
    """The same statement with the `fictive` flags symbolic (every combination decided by the solver, per shape of the
    provenance): a volume is listed iff it is not virtual, under the name of its owner (first provenance entry, else
    its own number), once, and the count of every composition is the number of volumes it lists."""
    def cases(S):
        for prov in itertools.product((None, 41, 42), repeat=3):
            for rhos in _RHO_SETS[:3]:
                yield f'prov={prov}/rhos={rhos}', {'prov': prov, 'rhos': rhos,
                                                   'flags': [S.bool(f'fictive{k}') for k in range(3)]}

    def call(flags, prov, rhos):
        cells = {1: _cell('3', rhos[0]), 2: _cell('3', rhos[1]), 3: _cell('0', None), 41: _cell('7', '0.05'),
                 42: _cell('3', rhos[2])}
        vols = OrderedDict()
        for k, (fl, pr) in enumerate(zip(flags, prov), start=1):
            vols[k] = VolumeT4([k], [], idorigin=[(pr, 9), (3, 1)] if pr else None, fictive=fl)
        res = constructGeomCompT4(vols, cells)
        return {name: (g.volumeNumberMaterial, g.listVolumeId.split()) for name, g in res.items()}

    def ensures(result, flags, prov, rhos):
        names = {1: '3_' + rhos[0], 2: '3_' + rhos[1], 3: '0', 41: '7_0.05', 42: '3_' + rhos[2]}
        for k, (fl, pr) in enumerate(zip(flags, prov), start=1):
            owner = names[pr if pr else k]
            listed_by = [n for n, v in result.items() if str(k) in v[1]]
            yield f'volume{k}:listed-iff-real-under-its-owner', iff(Not(fl), listed_by == [owner])
            yield f'volume{k}:virtual-not-listed', implies(fl, listed_by == [])
        for n, v in result.items():
            yield f'count[{n}]', And(v[0] == len(v[1]), len(set(v[1])) == len(v[1]), len(v[1]) >= 1)


_CC_RHOS = ['-1.0', '-2.5', '0.05', '-0.9982071', '-0.9982074']


@contract(CCT4.constructCompositionT4, props=['C09', 'C10', 'C08'], name='ConstructCompositionT4.constructCompositionT4', status='B')
class _ConstructCompo:
    """One composition per material card and per distinct density among the level-0, unfilled cells of non-zero
    importance that use the material (cells of filling universes count through the cells pot_fill makes of them, which
    are level-0 cells here); densities that differ numerically -- however little -- give different compositions; a
    negative density gives DENSITY, a positive one POINT_WISE with concentrations summing to the density; mass
    fractions with an atom density give the (warned) empty composition.  compositionConversionMCNPToT4 is replaced by
    two fixed material cards (its own contract is above)."""
    scope = ('3 cells x 2 materials (atom fractions / mass fractions) x 5 densities x {live, zero importance, in a '
             'universe, filled} (quick tier: every third combination)')

    def bounded(tier):
        k = 0
        states = ('live', 'imp0', 'universe', 'filled')
        for mats in itertools.product((1, 2), repeat=3):
            for rhos in itertools.product(_CC_RHOS, repeat=3):
                for st in (('live', 'live', 'live'), ('live', 'imp0', 'live'), ('universe', 'live', 'filled'),
                           ('live', 'live', 'imp0')):
                    k += 1
                    if tier == 'quick' and k % 3:
                        continue
                    yield {'mats': mats, 'rhos': rhos, 'states': st}

    def call(mats, rhos, states):
        import warnings
        from t4_geom_convert.Kernel.Composition.CompositionConversionMCNPToT4 import Abundances
        from t4_geom_convert.Kernel.Composition.EIsotopeNameElementT4 import EIsotopeNameElement as E
        cards = OrderedDict([(1, Abundances([((E.H, '1'), '2.0'), ((E.O, '016'), '1.0')], True)),
                             (2, Abundances([((E.FE, '56'), '0.9'), ((E.C, '0'), '0.1')], False))])
        cells = OrderedDict()
        for i, (m, r, st) in enumerate(zip(mats, rhos, states), start=1):
            cells[i] = CellMCNP(str(m), r, None, 0.0 if st == 'imp0' else 1.0, 3 if st == 'universe' else 0,
                                5 if st == 'filled' else None, (), None, [])
        orig = CCT4.compositionConversionMCNPToT4
        CCT4.compositionConversionMCNPToT4 = lambda parser: cards
        try:
            with warnings.catch_warnings():
                warnings.simplefilter('ignore')
                res = CCT4.constructCompositionT4(None, cells)
        finally:
            CCT4.compositionConversionMCNPToT4 = orig
        return {k: [(c.typeDensity, c.material, c.valueOfDensity, list(c.listMaterialComposition), c.nb_atom) for c in v]
                for k, v in res.items()}

    def ensures(result, mats, rhos, states):
        want = OrderedDict()
        for key in (1, 2):
            seen = []
            for m, r, st in zip(mats, rhos, states):
                if st != 'live' or m != key or r in seen:
                    continue
                seen.append(r)
            if seen:
                want[key] = seen
        yield 'one-composition-per-material-and-distinct-density', (
            list(result) == list(want) and all([c[2] for c in result[k]] == want[k] for k in want))
        yield 'named-after-the-material', all(c[1] == f'm{k}' for k, v in result.items() for c in v)
        yield 'density-kind', all(c[0] == ('DENSITY' if float(c[2]) < 0 else 'POINT_WISE') for v in result.values() for c in v)
        yield 'atom-fraction-flag-of-the-card', all(c[4] == (k == 1) for k, v in result.items() for c in v)
        for k, v in result.items():
            for c in v:
                if c[0] == 'DENSITY':
                    yield 'mass-density:fractions-of-the-card', c[3] == ([('H1', '2.0'), ('O16', '1.0')] if k == 1 else
                                                                        [('FE56', '0.9'), ('C0', '0.1')])
                elif k == 1:
                    tot = sum(float(x) for _, x in c[3])
                    yield 'atom-density:concentrations-sum-to-the-density', abs(tot - float(c[2])) <= 1e-12 * float(c[2])
                    yield 'atom-density:nuclides-of-the-card-in-order', [n for n, _ in c[3]] == ['H1', 'O16']
                else:
                    yield 'mass-fractions-with-atom-density:empty-composition', c[3] == []


from t4_geom_convert.Kernel.FileHandlers.Writer import WriteT4Composition as _WCOMP
from t4_geom_convert.Kernel.FileHandlers.Writer import WriteT4GeomComp as _WGC


@contract(_WCOMP.writeT4Composition, props=['C08', 'C10', 'C09'], name='WriteT4Composition.writeT4Composition', status='B')
class _WriteCompo:
    """The COMPOSITION block: the declared count equals the number of compositions that follow (the void composition
    m0 included), every composition line declares as many nuclides as follow it, names are m<material>_<density>,
    kinds and amounts are those constructCompositionT4 returned (its own contract is above) -- including the warned
    empty composition of mass fractions with an atom density."""
    scope = '3 cells x 2 materials x 4 densities (negative, positive, near-equal) x live / not live (every other combination)'

    def bounded(tier):
        k = 0
        for mats in itertools.product((1, 2), repeat=3):
            for rhos in itertools.product(('-1.0', '0.05', '-0.9982071', '-0.9982074'), repeat=3):
                for st in (('live', 'live', 'live'), ('live', 'imp0', 'live'), ('universe', 'filled', 'imp0')):
                    k += 1
                    if k % 2:
                        continue
                    yield {'mats': mats, 'rhos': rhos, 'states': st}

    def call(mats, rhos, states):
        import io
        import warnings
        import contextlib
        from t4_geom_convert.Kernel.Composition.CompositionConversionMCNPToT4 import Abundances
        from t4_geom_convert.Kernel.Composition.EIsotopeNameElementT4 import EIsotopeNameElement as E
        cards = OrderedDict([(1, Abundances([((E.H, '1'), '2.0'), ((E.O, '016'), '1.0')], True)),
                             (2, Abundances([((E.FE, '56'), '0.9'), ((E.C, '0'), '0.1')], False))])
        cells = OrderedDict()
        for i, (m, r, st) in enumerate(zip(mats, rhos, states), start=1):
            cells[i] = CellMCNP(str(m), r, None, 0.0 if st == 'imp0' else 1.0, 3 if st == 'universe' else 0,
                                5 if st == 'filled' else None, (), None, [])
        orig = CCT4.compositionConversionMCNPToT4
        CCT4.compositionConversionMCNPToT4 = lambda parser: cards
        buf = io.StringIO()
        try:
            with warnings.catch_warnings(), contextlib.redirect_stdout(io.StringIO()):
                warnings.simplefilter('ignore')
                _WCOMP.writeT4Composition(None, cells, buf)
        finally:
            CCT4.compositionConversionMCNPToT4 = orig
        return buf.getvalue()

    def ensures(result, mats, rhos, states):
        lines = [l for l in result.split('\n') if l.strip()]
        yield 'block-delimiters', lines[0] == 'COMPOSITION' and lines[-1] == 'END_COMPOSITION'
        heads = [(i, l.split()) for i, l in enumerate(lines) if l.split()[0] in ('DENSITY', 'POINT_WISE')]
        yield 'declared-count-is-the-number-of-compositions', lines[1].strip() == str(len(heads))
        ok = True
        for n, (i, h) in enumerate(heads):
            nxt = heads[n + 1][0] if n + 1 < len(heads) else len(lines) - 1
            ok = ok and int(h[-1]) == nxt - i - 1
        yield 'every-composition-declares-the-nuclides-that-follow', ok
        want = []
        for key in (1, 2):
            seen = []
            for m, r, st in zip(mats, rhos, states):
                if st == 'live' and m == key and r not in seen:
                    seen.append(r)
            want += [f'm{key}_{r}' for r in seen]
        yield 'names-are-material-and-density', [h[2] for _, h in heads] == want + ['m0']
        yield 'kind-follows-the-sign-of-the-density', all(
            h[0] == ('DENSITY' if h[2].split('_')[1].startswith('-') else 'POINT_WISE') for _, h in heads[:-1])


@contract(_WGC.writeT4GeomComp, props=['C08', 'C09'], name='WriteT4GeomComp.writeT4GeomComp', status='B')
class _WriteGeomComp:
    """The GEOMCOMP block: one line per composition that owns a volume, `m<name> <count> <ids>` with as many ids as
    declared, every non-virtual volume on exactly one line, closed by END_GEOMCOMP."""
    scope = '3 volumes x (fictive or not) x (own cell | filler provenance) x 3 density triples'

    def bounded(tier):
        for rhos in _RHO_SETS[:3]:
            for flags in itertools.product((True, False), repeat=3):
                for prov in itertools.product((None, 41, 42), repeat=3):
                    yield {'flags': flags, 'prov': prov, 'rhos': rhos}

    def call(flags, prov, rhos):
        import io
        cells = {1: _cell('3', rhos[0]), 2: _cell('3', rhos[1]), 3: _cell('0', None), 41: _cell('7', '0.05'),
                 42: _cell('3', rhos[2])}
        vols = OrderedDict()
        for k, (fl, pr) in enumerate(zip(flags, prov), start=1):
            vols[k] = VolumeT4([k], [], idorigin=[(pr, 9), (3, 1)] if pr else None, fictive=fl)
        buf = io.StringIO()
        _WGC.writeT4GeomComp(vols, cells, buf)
        return buf.getvalue()

    def ensures(result, flags, prov, rhos):
        lines = [l for l in result.split('\n') if l.strip()]
        yield 'block-delimiters', lines[0] == 'GEOMCOMP' and lines[-1] == 'END_GEOMCOMP'
        body = [l.split() for l in lines[1:-1]]
        yield 'counts-match-the-ids', all(int(b[1]) == len(b) - 2 for b in body)
        listed = [int(x) for b in body for x in b[2:]]
        real = [k for k, fl in enumerate(flags, start=1) if not fl]
        yield 'every-real-volume-on-exactly-one-line', sorted(listed) == real
        names = {1: 'm3_' + rhos[0], 2: 'm3_' + rhos[1], 3: 'm0', 41: 'm7_0.05', 42: 'm3_' + rhos[2]}
        yield 'under-the-owners-composition', all(
            b[0] == names[prov[int(x) - 1] if prov[int(x) - 1] else int(x)] for b in body for x in b[2:])


def _sweep_c09(tier, seed):
    from harness.sweeps import deck_sweep
    return deck_sweep('C09', tier, seed, families=('level0', 'fill', 'lattice'), n_quick=32, n_thorough=400)


def _sweep_c10(tier, seed):
    from harness.sweeps import deck_sweep
    return deck_sweep('C10', tier, seed, families=('level0', 'fill'), n_quick=32, n_thorough=400)


BOUNDED = {'C09': [_sweep_c09], 'C10': [_sweep_c10]}
LEVEL = {'C09': 'other', 'C10': 'other'}
EXPLANATION = {
    'C10': ('Bounded, exhaustive within stated scopes, on the real functions: convert_isotope over the complete ZAID '
            'domain, CCompositionMCNP (pairs, keywords, suffixes), compositionConversionMCNPToT4 (order, -NAT, sign '
            'rule, mixed signs rejected), str_fabs, rescale_fractions (proportional, sum = density). Deck sweep: the '
            'COMPOSITION block of the written file against the material cards of the deck (nuclides in order, '
            'amounts, NB_ATOM flag, DENSITY vs POINT_WISE, concentrations summing to the cell density). Nothing is '
            'under a discharged unbounded contract: the functions are string / table manipulations on finite domains.'),
    'C09': ('Bounded, exhaustive within stated scopes: normalize_float (value preserved, idempotent, spelling classes '
            'of the property, different numbers -> different names), parse_material, constructGeomCompT4 (owner = '
            'lowest-level filler of the provenance). The provenance bookkeeping of pot_fill is proved in C05. Deck '
            'sweeps: the GEOMCOMP name of the volume that owns each probe point against the material and density of '
            'the MCNP cell that owns it at the lowest universe level.')}
ASSUMPTIONS = {'C09': ['material numbers are written without leading zeros (m01 vs m1 would differ: GEOMCOMP uses the '
                       'card text, COMPOSITION uses int())'],
               'C10': ['float() parsing of fractions is trusted', 'rescale_fractions[all-amounts]: real arithmetic stands for IEEE doubles; f"{x:.15e}" is taken as an exact spelling of x (A-fmt); normalize_float replaced by its bounded value-preservation contract']}
