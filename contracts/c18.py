"""C18 -- conversion is deterministic and leaves no state between runs.

Decided by frame / effect obligations on the AST of every function of t4_geom_convert and MIP (pyvc/frames.py): no
store to module-level state, no read of a nondeterminism source, no order-sensitive consumption of a set -- each
(function, construct) pair found is an obligation that is discharged only if it is on the allow-list below with its
justification.  The analysis is syntactic (sets are recognised by construction within one function), so a bounded
replay complements it: the same deck converted in fresh processes under different PYTHONHASHSEED values and several
times within one process must give byte-identical files apart from the header."""
import hashlib
import os
import subprocess
import sys

from pyvc import frames

ALLOW = {
    ('nondeterminism-source', 't4_geom_convert/main.py::conversion', 'call of datetime.now'):
        'start / end time stamps printed on stdout only (not written to the file)',
    ('nondeterminism-source', 't4_geom_convert/main.py::writeHeader', 'read of sys.argv'):
        'command-line echo in the header comment, exempted by the property',
    ('nondeterminism-source', 't4_geom_convert/main.py::main', 'read of sys.argv'): 'command-line parsing',
    ('nondeterminism-source', 't4_geom_convert/Kernel/Surface/SurfaceCollection.py::__hash__', 'call of hash'):
        '__hash__ of a value object: only used for dict / set membership, never iterated in hash order',
    ('nondeterminism-source', 't4_geom_convert/Kernel/Surface/SurfaceT4.py::__hash__', 'call of hash'):
        '__hash__ of a value object (dict key in remove_duplicate_surfaces: dicts iterate in insertion order)',
    ('nondeterminism-source', 'MIP/geom/semantics.py::__hash__', 'call of hash'): '__hash__ of Surface (set / dict membership only)',
    ('set-order', 't4_geom_convert/Kernel/Volume/ConstructVolumeT4.py::construct_volume_t4', 'iteration over the set tr_surf_ids'):
        'set of ints built by a deterministic insertion sequence: CPython iterates it in an order that is a function of '
        'the insertion history (no hash randomisation for ints) -- assumption',
    ('set-order', 'MIP/geom/main.py::get_geom', 'iteration over the set used'): 'MIP helper not called by the converter',
}


def frame_obligations(tier, seed):
    import t4_geom_convert
    import MIP
    found, n_funcs = frames.analyse([os.path.dirname(t4_geom_convert.__file__), os.path.dirname(MIP.__file__)])
    fails = []
    listing = []
    for f in found:
        why = ALLOW.get(f.key())
        if why is None and f.kind == 'module-state':
            # state kept between calls (module-level / closure / class-level stores, memoising decorators) is not by
            # itself a violation: a cache with a complete key leaves every output unchanged.  It is recorded, and the
            # replay below (every deck converted twice per process, several orders) decides whether it shows.
            listing.append(f'{f.kind}: {f.where}: {f.what}: ADVISORY -- state between runs; decided by the replay')
            continue
        listing.append(f'{f.kind}: {f.where}: {f.what}: ' + (f'allowed -- {why}' if why else 'NOT ALLOWED'))
        if why is None:
            fails.append({'label': f'{f.kind}:{f.where.split("::")[1].split(":")[0]}', 'case': f.where,
                          'detail': f'{f.where}: {f.what}', 'no_input': True})
    # every function is one obligation ("its frame is clean") plus one per construct found
    n_obl = n_funcs + len(found)
    return {'name': 'frame-obligations', 'kind': 'static (AST of every function of t4_geom_convert and MIP)',
            'obligations': n_obl, 'discharged': n_obl - len(fails), 'functions': n_funcs, 'constructs': listing,
            'evaluations': 0, 'distinct_nontrivial': 0, 'failures': fails}


_CHILD = r'''
import sys, hashlib, json, os
sys.path[:0] = [sys.argv[1], sys.argv[2]]
from harness import run, sweeps
import random
out = {}
order = json.loads(sys.argv[3])
for rnd in (1, 2):          # every deck is converted a second time after all the others, in the same process
    for fam, seed in order:
        if fam == 'repo-deck':
            # a deck shipped with the repository (IntegrationTests/data), converted with the flags its header asks for
            import shlex
            path = os.path.join(sys.argv[1], 't4_geom_convert', 'IntegrationTests', 'data', seed)
            enc = 'latin1' if 'latin1' in seed else None
            text = open(path, encoding=enc).read()
            flags = []
            for line in text.split('\n')[:6]:
                pos = line.find('converter-flags:')
                if pos != -1:
                    flags = shlex.split(line[pos + len('converter-flags:'):])
            if enc:
                continue
            t4, so, exc = run.convert(text, flags=flags)
        else:
            deck, opts = sweeps.FAMILIES[fam](seed)
            text = deck.text(random.Random(f'fmt{seed}'))
            t4, so, exc = run.convert(text, lattice=opts.get('lattice', ()))
        body = None if t4 is None else '\n'.join(l for l in t4.split('\n') if not l.startswith('// t4_geom_convert command line'))
        out[f'{fam}/{seed}' + ('' if rnd == 1 else '#again')] = [None if body is None else hashlib.sha256(body.encode()).hexdigest(), repr(exc)[:80]]
print(json.dumps(out))
'''


def hashseed_runs(tier, seed):
    """Fresh processes under different PYTHONHASHSEED values; within each process every deck is converted after the
    previous ones (a sequence of other conversions), and the first deck once more at the end."""
    import json
    verif = os.path.dirname(os.path.dirname(os.path.abspath(__file__)))
    repo = os.environ.get('T4GC_REPO', '/repo')
    n = 6 if tier == 'quick' else 40
    decks = [(fam, seed * 100003 + i) for i in range(n) for fam in ('level0', 'fill', 'lattice', 'hexlattice')]
    from harness.decks import N_DIRECTED
    decks += [('directed', i) for i in range(N_DIRECTED)]
    # decks shipped with the repository (smallest first): macrobodies, LIKE cells, lattices, TRCL / FILL in shapes the
    # generators do not produce
    data = os.path.join(repo, 't4_geom_convert', 'IntegrationTests', 'data')
    if os.path.isdir(data):
        names = sorted((fn for fn in os.listdir(data) if fn.endswith('.imcnp')),
                       key=lambda fn: (os.path.getsize(os.path.join(data, fn)), fn))
        decks += [('repo-deck', fn) for fn in (names[:40] if tier == 'quick' else names)]
    seeds = ['0', '1', '2', '12345'] if tier == 'quick' else ['0', '1', '2', '3', '4', '12345', '999', 'random']
    results = {}
    procs = []
    for hs in seeds:
        env = dict(os.environ, PYTHONHASHSEED=hs, PYTHONDONTWRITEBYTECODE='1')
        order = decks if hs != '2' else list(reversed(decks))
        procs.append((hs, subprocess.Popen([sys.executable, '-c', _CHILD, repo, verif, json.dumps(order)], env=env,
                                           stdout=subprocess.PIPE, stderr=subprocess.PIPE, text=True)))
    fails = []
    for hs, p in procs:
        out, err = p.communicate(timeout=1200)
        try:
            results[hs] = json.loads(out.strip().splitlines()[-1])
        except Exception:
            fails.append({'label': 'harness-error', 'case': hs, 'detail': (err or out)[-500:]})
    ref = results.get(seeds[0], {})
    n_cmp = 0
    for hs, r in results.items():
        for k, (h, exc) in r.items():
            n_cmp += 1
            if ref.get(k.split('#')[0], [None])[0] != h:
                fails.append({'label': 'output-differs-between-processes-or-run-orders', 'case': k,
                              'detail': f'deck {k}: PYTHONHASHSEED={seeds[0]} -> {ref.get(k.split('#')[0])}, PYTHONHASHSEED={hs} -> {[h, exc]}'})
                break
    return {'name': 'hashseed-and-sequence-runs', 'kind': 'bounded replay (fresh processes, different hash seeds, '
            'different run orders, repeated conversion in one process)', 'evaluations': n_cmp,
            'distinct_nontrivial': len(decks), 'rule': f'{len(decks)} generated decks x {len(seeds)} processes; '
            'each process converts every deck twice (second pass after all the others)', 'failures': fails}


STATIC = {'C18': [frame_obligations]}
BOUNDED = {'C18': [hashseed_runs]}
LEVEL = {'C18': 'other'}
EXPLANATION = {'C18': (
    'Frame / effect obligations decided on the AST of every function of t4_geom_convert and MIP: no nondeterminism '
    'source, no order-sensitive consumption of a set (stores to module-level, closure or class-level state and '
    'memoising decorators are recorded as advisory: a correct cache does not violate the property, so they are decided '
    'by the replay); every construct found is discharged '
    'only through the allow-list with its justification (time stamps and command-line echo exempted by the property, '
    '__hash__ methods, one set of ints). The analysis is syntactic and intra-procedural (a set stored in a container '
    'and iterated elsewhere is not seen), hence the bounded replay: byte comparison of the written file across fresh '
    'processes with different PYTHONHASHSEED, different run orders and repeated conversion in one process; the input '
    'file is compared before / after every conversion of every deck sweep.')}
ASSUMPTIONS = {'C18': [
    'CPython set iteration order for ints is a function of the insertion history (no hash randomisation for ints)',
    'dicts iterate in insertion order (language guarantee)',
    'the module-level compiled TatSu grammar (MIP.geom.parsegeom.parser) is the only global object; replaced here by the stand-in',
    'set recognition is syntactic and per function: sets reaching an iteration through containers, attributes or '
    'return values of unlisted functions are not seen (covered only by the bounded replay)',
]}
