#!/bin/sh
# usage: tools/confirm_seed.sh <agent-out-dir> <seed-id> <property> "<needs>"
# Confirms a seeded change independently (fresh worktree of /repo HEAD): demo passes on the unchanged tree, fails with
# the patch, the 49 baseline tests still pass; then stores it under /verif/seeded/<seed-id>/.
OUT="$1"; ID="$2"; PROP="$3"; NEEDS="$4"
W=$(mktemp -d /tmp/confirm.XXXXXX)
git -C /repo worktree add -q --detach "$W/r" HEAD || exit 9
cd "$W/r"
/venv/bin/python "$OUT/demo.py" "$W/r" >"$W/demo_before.log" 2>&1; B=$?
if ! git apply "$OUT/patch.diff"; then echo "$ID: PATCH DOES NOT APPLY to HEAD"; cd /; git -C /repo worktree remove --force "$W/r"; rm -rf "$W"; exit 9; fi
/venv/bin/python "$OUT/demo.py" "$W/r" >"$W/demo_after.log" 2>&1; A=$?
rm -rf .hypothesis
T=$(/venv/bin/python -m pytest -q -p no:cacheprovider --timeout=900 --continue-on-collection-errors --hypothesis-seed=1 2>&1 | tail -1)
echo "$ID: demo unchanged=$B changed=$A tests: $T"
case "$T" in *"49 passed"*) OK=1;; *) OK=0;; esac
if [ "$B" = 0 ] && [ "$A" = 1 ] && [ "$OK" = 1 ]; then
  mkdir -p /verif/seeded/$ID
  cp "$OUT/patch.diff" "$OUT/demo.py" /verif/seeded/$ID/
  [ -f "$OUT/notes.md" ] && cp "$OUT/notes.md" /verif/seeded/$ID/
  python3 - "$ID" "$PROP" "$NEEDS" "$T" <<'PY'
import json, sys
i, p, needs, t = sys.argv[1:5]
json.dump({"id": i, "property": p, "needs_to_manifest": needs,
           "confirmed": {"demo_exit_unchanged_tree": 0, "demo_exit_changed_tree": 1, "baseline_tests_with_change": t.strip("= \n")},
           "ran": ["git -C /repo worktree add --detach <scratch> HEAD", "python demo.py <scratch>  (exit 0)", "git apply patch.diff", "python demo.py <scratch>  (exit 1)", "pytest -q -p no:cacheprovider --timeout=900 --continue-on-collection-errors --hypothesis-seed=1  (test_normalized is a randomised hypothesis test that is flaky on the unchanged tree without a pinned seed)"],
           "origin": "independent sub-agent given only the property text and a scratch worktree"},
          open(f"/verif/seeded/{i}/meta.json", "w"), indent=1)
PY
  echo "$ID: CONFIRMED and stored"
else
  echo "$ID: NOT confirmed"; tail -n 5 "$W/demo_before.log" "$W/demo_after.log"
fi
cd /; git -C /repo worktree remove --force "$W/r"; rm -rf "$W"
