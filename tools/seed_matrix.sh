#!/bin/sh
# usage: tools/seed_matrix.sh [seed-id ...]  -- runs the quick check of each seeded change's property on a scratch
# worktree with the change applied; prints CAUGHT / MISSED per seed (a seed may name extra properties in meta.json)
cd /verif
ids="$@"; [ -z "$ids" ] && ids=$(ls seeded)
for id in $ids; do
  prop=$(python3 -c "import json;print(json.load(open('/verif/seeded/$id/meta.json'))['property'])")
  out=$(LINES_MAX=40 tools/try_patch.sh /verif/seeded/$id/patch.diff $prop 2>&1)
  n=$(echo "$out" | grep -c "^VIOLATION")
  if [ "$n" -gt 0 ]; then echo "$id $prop CAUGHT ($n lines) $(echo "$out" | grep -m1 'failed obligation' | cut -c1-150)"; else echo "$id $prop MISSED $(echo "$out" | tail -1 | cut -c1-120)"; fi
done
