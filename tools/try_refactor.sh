#!/bin/sh
# usage: tools/try_refactor.sh <patch.diff> [prop ...]  -- a behaviour-preserving change must leave every check at exit 0
P="$1"; shift
PROPS="$@"; [ -z "$PROPS" ] && PROPS=$(python3 -c "import json; print(' '.join(c['property_id'] for c in json.load(open('/verif/MANIFEST.json'))['checks']))")
W=$(mktemp -d /tmp/tryrf.XXXXXX)
git -C /repo worktree add -q --detach "$W/r" HEAD || exit 9
if ! git -C "$W/r" apply "$P"; then echo "PATCH DOES NOT APPLY"; git -C /repo worktree remove --force "$W/r"; rm -rf "$W"; exit 9; fi
cd /verif
bad=0
for prop in $PROPS; do
  out=$(T4GC_REPO="$W/r" timeout 1500 ./check "$prop" --tier ${TIER:-quick} 2>&1); e=$?
  if [ $e -ne 0 ]; then bad=1; echo "ALARM $prop exit=$e"; echo "$out" | grep -E "VIOLATION|failed obligation|UNDECIDED|CHECKER" | cut -c1-300 | head -6; fi
done
[ $bad -eq 0 ] && echo "quiet: $(basename $(dirname $P))/$(basename $P) ($PROPS)"
git -C /repo worktree remove --force "$W/r"; rm -rf "$W"
exit $bad
