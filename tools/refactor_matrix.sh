#!/bin/sh
# usage: tools/refactor_matrix.sh  -- every stored refactoring that still applies to /repo HEAD is run through the quick
# checks of the properties whose anchor files it touches; each must stay quiet
cd /verif
for f in refactorings/*.diff; do
  W=$(mktemp -d /tmp/rfm.XXXXXX)
  git -C /repo worktree add -q --detach "$W/r" HEAD
  if ! git -C "$W/r" apply --check "/verif/$f" 2>/dev/null; then echo "stale: $f"; git -C /repo worktree remove --force "$W/r"; rm -rf "$W"; continue; fi
  git -C /repo worktree remove --force "$W/r"; rm -rf "$W"
  props=$(python3 - "$f" <<'PY'
import json,re,sys
touched=set(re.findall(r'^\+\+\+ b/(\S+)', open(sys.argv[1]).read(), re.M))
out=[]
for l in open('/verif/properties.jsonl'):
    p=json.loads(l)
    if touched & set(p['anchors'].get('files',[])): out.append(p['id'])
print(' '.join(out))
PY
)
  tools/try_refactor.sh "/verif/$f" $props 2>&1 | tail -8 | cut -c1-300
done
