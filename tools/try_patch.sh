#!/bin/sh
# usage: tools/try_patch.sh <patch.diff> <prop> [<prop> ...]   -- run checks against a scratch worktree with the patch applied
P="$1"; shift
W=$(mktemp -d /tmp/trypatch.XXXXXX)
git -C /repo worktree add -q --detach "$W/r" HEAD || exit 9
if ! git -C "$W/r" apply "$P"; then echo "PATCH DOES NOT APPLY"; git -C /repo worktree remove --force "$W/r"; rm -rf "$W"; exit 9; fi
cd /verif
for prop in "$@"; do
  T4GC_REPO="$W/r" timeout 1200 ./check "$prop" --tier ${TIER:-quick} 2>&1 | grep -v "conda" | grep -E "VIOLATION|failed obligation|UNDECIDED|CHECKER|KNOWN|^C[0-9]+ \[" | cut -c1-260 | head -${LINES_MAX:-14}
done
git -C /repo worktree remove --force "$W/r"; rm -rf "$W"
