"""Numbers for the status paragraph of DESIGN.md section 10, from the evidence files of the last run."""
import glob
import json
contracts = {}
obl = dis = ev = 0
for f in sorted(glob.glob('/verif/evidence/C*.json')):
    e = json.load(open(f))
    c = e['coverage']
    obl += c['obligations']
    dis += c['discharged']
    ev += c.get('evaluations', 0)
    for fn in c['functions_under_contract']:
        contracts[fn['contract']] = fn['status']
by = {}
for k, v in contracts.items():
    by[v] = by.get(v, 0) + 1
# obligations are counted once per property they are registered for; distinct ones:
print('contracts', len(contracts), by)
print('obligations (summed over properties)', obl, 'discharged', dis, 'bounded evaluations', ev)
seeds = len(glob.glob('/verif/seeded/*/meta.json'))
print('seeded changes', seeds, 'refactorings', len(glob.glob('/verif/refactorings/*.diff')))
