#!/bin/sh
# run every registered quick check on the unchanged tree; print one line per property; non-zero exit if any is not 0
cd /verif
rc=0
for p in $(python3 -c "import json; print(' '.join(c['property_id'] for c in json.load(open('MANIFEST.json'))['checks']))"); do
  out=$(timeout 1500 ./check $p --tier ${TIER:-quick} 2>&1); e=$?
  echo "$out" | grep -v conda | tail -1 | cut -c1-170 | sed "s/^/exit=$e /"
  [ $e -ne 0 ] && rc=1
done
exit $rc
