"""./check <property> --tier quick|thorough [--replay FILE] [--rebaseline]

Exit codes: 0 held on everything explored; 1 violation (stdout: VIOLATION property=<id> replay=<path>);
2 undecided (solver unknown / code outside the subset, no failing input found); 3 checker defect.
"""
import argparse
import importlib
import json
import os
import sys
import time
import traceback

VERIF = os.path.dirname(os.path.dirname(os.path.abspath(__file__)))
REPO = os.environ.get('T4GC_REPO', '/repo')

CONTRACT_MODULES = ['c02', 'c03', 'c04', 'c06', 'c07', 'c01', 'c11', 'c13', 'c05', 'c08', 'c09', 'c10', 'c12', 'c14',
                    'c15', 'c16', 'c17', 'c18']


def load_modules():
    loaded = []
    for m in CONTRACT_MODULES:
        path = os.path.join(VERIF, 'contracts', m + '.py')
        if os.path.exists(path):
            loaded.append(importlib.import_module('contracts.' + m))
    return loaded


def main(argv=None):
    ap = argparse.ArgumentParser()
    ap.add_argument('prop')
    ap.add_argument('--tier', default=os.environ.get('VERIF_TIER', 'quick'), choices=['quick', 'thorough'])
    ap.add_argument('--replay')
    ap.add_argument('--rebaseline', action='store_true')
    ap.add_argument('--only', default='')
    ap.add_argument('--jobs', type=int, default=int(os.environ.get('VERIF_JOBS', '16')))
    args = ap.parse_args(argv)
    seed = int(os.environ.get('VERIF_SEED', '0'))
    os.environ['VERIF_TIER'] = args.tier
    sys.path[:0] = [REPO, VERIF]
    os.environ.setdefault('T4GC_VERIF', '1')
    import t4_geom_convert
    if not os.path.abspath(t4_geom_convert.__file__).startswith(os.path.abspath(REPO) + os.sep):
        print(f'checker error: t4_geom_convert imported from {t4_geom_convert.__file__}, not from {REPO}')
        return 3
    from . import report
    t0 = time.time()
    try:
        mods = load_modules()
    except Exception:
        # the contracts import the real modules; an import failure of /repo code is reported as undecided
        print('checker error while importing contracts / repo modules:\n' + traceback.format_exc())
        return 3
    if args.replay:
        return report.replay(args.prop, args.replay)
    return report.run_property(args.prop, args.tier, seed, mods, jobs=args.jobs, only=args.only,
                               rebaseline=args.rebaseline, t0=t0)


if __name__ == '__main__':
    sys.exit(main())
