"""Aggregation of unit results into verdict lines, replay files and the evidence file."""
import json
import os
import re
import sys
import time

from .contract import REGISTRY, verify_unit, list_units, unjson, check_concrete, jsonable
from .runner import run_units

VERIF = os.path.dirname(os.path.dirname(os.path.abspath(__file__)))

ENGINE_ASSUMPTIONS = [
    'A1 floats are treated as mathematical reals (no rounding, NaN, inf); tolerance constants are read literally '
    'and contracts exclude the tolerance bands in their preconditions',
    'A2 Python ints are mathematical integers',
    'A3 x/y is a fresh q with q*y=x (+ obligation y!=0); sqrt(e) a fresh s>=0 with s*s=e (+ obligation e>=0); '
    'tan/atan/cos/sin uninterpreted with only: tan(atan t)=t, cos^2+sin^2=1',
    'A5 instances of repo classes are records; __init__ bodies are interpreted',
    'A6 the NumPy subset (array, reshape, T, @, dot, item, flat, ravel, abs, allclose, roll, zeros, identity) is '
    'modelled mathematically (pyvc/npmodel.py, trusted, cross-checked by pyvc.selftest)',
    'A8 every path ends in return or raise; exceptions raised by CPython in fully concrete sub-computations are '
    'taken as the program behaviour',
    'pyvc itself (AST interpreter, VC generation) is new, unverified code; its guards are the vacuity check, the '
    'CPython differential test and the seeded-defect self-test (pyvc/selftest.py)',
    'z3 5.1 (nlsat + default), cvc5 1.0.3 and sympy 1.14 (Groebner) are trusted as solvers',
    'termination of the verified functions is not proved',
    'induction hypotheses are opaque stand-ins for sub-trees: asking one for its kind (isinstance), for its truth '
    'value when its kind is unknown, or comparing it with another tree leaves the proved subset (the contract is '
    'then decided on concrete trees only); type() of a stand-in and comparisons inside natively executed helpers '
    'are answered by CPython',
    'dropped by the interpreter: docstrings, print(), warnings.warn(), Progress(...) context managers, text of '
    'f-strings that mention symbolic values',
]


def _safe(s):
    return re.sub(r'[^A-Za-z0-9_.+-]+', '_', s)[:120]


def load_known(prop):
    path = os.path.join(VERIF, 'known_findings.json')
    if not os.path.exists(path):
        return []
    with open(path) as f:
        data = json.load(f)
    return [e for e in data.get('findings', []) if e.get('property') == prop and e.get('status') == 'open']


def _match_known(known, contract, case, label):
    for e in known:
        if contract.startswith(e.get('contract', '\0')) and (e.get('case') in (None, '*', case)) and \
                any(label.startswith(l) for l in e.get('labels', [''])):
            return e
    return None


def run_property(prop, tier, seed, mods, jobs=16, only='', rebaseline=False, t0=None):
    t0 = t0 or time.time()
    units = []
    for name, C in REGISTRY.items():
        if prop not in C.props:
            continue
        if only and only not in name:
            continue
        try:
            cases = list_units(C)
        except Exception as exc:
            print(f'checker error: cannot enumerate cases of {name}: {exc}')
            return 3
        for case in cases:
            units.append(((name, case), (name, case, tier, seed)))
    bounded_fns, static_fns, level, notes, assumptions, trusted = [], [], 'other', '', [], []
    for m in mods:
        bounded_fns += getattr(m, 'BOUNDED', {}).get(prop, [])
        static_fns += getattr(m, 'STATIC', {}).get(prop, [])
        level = getattr(m, 'LEVEL', {}).get(prop, level)
        notes = getattr(m, 'EXPLANATION', {}).get(prop, notes)
        assumptions += getattr(m, 'ASSUMPTIONS', {}).get(prop, [])
        trusted += getattr(m, 'TRUSTED', {}).get(prop, [])
    if not units and not bounded_fns and not static_fns:
        print(f'checker error: no contract registered for {prop}')
        return 3
    unit_timeout = 180 if tier == 'quick' else 900
    results = run_units(units, verify_unit, nproc=jobs, unit_timeout=unit_timeout)
    # units that died or ran out of time (machine under load, memory pressure) get a second, less contended run
    again = [u for u in units if results.get(u[0], ('err',))[0] != 'ok']
    if again and len(again) <= max(8, len(units) // 4):
        results.update(run_units(again, verify_unit, nproc=max(2, jobs // 4), unit_timeout=2 * unit_timeout))

    known = load_known(prop)
    violations, undecided, checker_errors, known_hits = [], [], [], []
    n_obl = n_dis = 0
    functions = {}
    samples = []
    solver_s = 0.0
    backends = {}
    sampled_total = [0]
    sampled_units = [0]
    for key, (kind, r) in results.items():
        cname, case = key
        C = REGISTRY[cname]
        if kind != 'ok':
            (checker_errors if kind == 'err' else undecided).append(
                {'contract': cname, 'case': case, 'why': kind + (': ' + r[-800:] if r else '')})
            continue
        src = r.get('source', {})
        fkey = cname
        fe = functions.setdefault(fkey, {'contract': cname, 'source': src, 'status': C.status, 'cases': 0,
                                         'paths': 0, 'obligations': 0, 'discharged': 0, 'solver_s': 0.0,
                                         'backends': {}})
        fe['cases'] += 1
        fe['paths'] += r['feasible_paths']
        if r['status'] == 'sampled':
            sm = r.get('sampled') or {}
            fe['status'] = C.status if C.status in ('S', 'B') else 'S'
            if sm.get('scope'):
                fe['scope'] = sm['scope']
                fe['exhaustive_within_scope'] = True
            fe['sampled_evaluations'] = fe.get('sampled_evaluations', 0) + sm.get('evaluations', 0)
            sampled_total[0] += sm.get('evaluations', 0)
            sampled_units[0] += 1
            if sm.get('evaluations', 0) == 0:
                checker_errors.append({'contract': cname, 'case': case, 'why': 'sampling accepted no input'})
            seen_labels = set()
            for f in sm.get('failures', []):
                label = f['violated'][0] if f['violated'] else 'sampled'
                kid = f.get('known')
                if (label, kid) in seen_labels:
                    continue
                seen_labels.add((label, kid))
                entry = {'obligation': f'{prop}/{cname}/{case}/' + label,
                         'contract': cname, 'case': case, 'label': label,
                         'input': f, 'how': 'bounded / sampled evaluation of the contract on the real function'}
                k = next((e for e in known if e['id'] == kid), None) if kid else (
                    None if 'known' in f else _match_known(known, cname, case, label))
                if k:
                    known_hits.append((k, entry))
                else:
                    violations.append(entry)
            continue
        if r['status'] == 'checker-error':
            checker_errors.append({'contract': cname, 'case': case, 'why': '; '.join(r['notes'])[:1500]})
        elif r['status'] != 'ok':
            undecided.append({'contract': cname, 'case': case, 'why': r['status']})
        # aggregate obligations per label
        per_label = {}
        for o in r['obligations']:
            per_label.setdefault(o['label'], []).append(o)
            solver_s += o.get('s', 0)
            fe['solver_s'] += o.get('s', 0)
        for label, obs in per_label.items():
            n_obl += 1
            fe['obligations'] += 1
            oname = f'{prop}/{cname}/{case}/{label}'
            if all(o['verdict'] == 'unsat' for o in obs):
                n_dis += 1
                fe['discharged'] += 1
                for o in obs:
                    b = o.get('backend', '?')
                    backends[b] = backends.get(b, 0) + 1
                    fe['backends'][b] = fe['backends'].get(b, 0) + 1
                if len(samples) < 6:
                    samples.append({'obligation': oname, 'paths': len(obs), 'verdict': 'discharged',
                                    'backend': obs[0].get('backend'), 'seconds': round(sum(o.get('s', 0) for o in obs), 4)})
                continue
            confirmed = [o for o in obs if (o.get('cex') or {}).get('confirmed')]
            failing = [o for o in obs if o['verdict'] != 'unsat']
            sampled = (r.get('sampled') or {}).get('failures') or []
            sampled = [f for f in sampled if any(v.split(' ')[0] == label or v.startswith(label) for v in f['violated'])]
            entry = {'obligation': oname, 'contract': cname, 'case': case, 'label': label,
                     'verdicts': [o['verdict'] for o in obs], 'solver': [
                         {k: v for k, v in o.items() if k in ('verdict', 'backend', 's', 'why', 'ideal', 'smt_size', 'path')}
                         for o in failing]}
            k = _match_known(known, cname, case, label)
            if confirmed:
                entry['input'] = confirmed[0]['cex']
                entry['how'] = 'solver counter-model replayed on the real function'
            elif sampled:
                entry['input'] = sampled[0]
                entry['how'] = 'sampled evaluation of the same contract on the real function'
            if confirmed or sampled:
                if k:
                    known_hits.append((k, entry))
                else:
                    violations.append(entry)
            elif label.startswith('no-unexpected-exception') and any(
                    str((o.get('cex') or {}).get('native_outcome', '')).startswith('returned') for o in failing):
                # the exception exists only under the interpreter: the real function returns normally on the very
                # input the solver proposed -- an engine limitation, never a violation
                entry['why'] = ('exception raised only under the interpreter; the native run of the proposed input '
                                'returns normally (engine limitation): ' + label)
                undecided.append(entry)
            elif label.split(':')[0] == 'no-unexpected-exception' and label.split(':')[-1] in (
                    'TypeError', 'AttributeError', 'NameError', 'NotImplementedError') and not any(
                    (o.get('cex') or {}).get('confirmed') for o in failing) and not sampled:
                # exceptions of these kinds raised under the interpreter and not reproduced by any native run are, as a
                # rule, limits of the engine's models (an operation a model object does not support): undecided
                entry['why'] = ('raised only under the interpreter, no native run reproduces it (engine model '
                                'suspected): ' + label)
                undecided.append(entry)
            elif any(o['verdict'] == 'sat' for o in failing):
                whys = ' '.join(str((o.get('cex') or {}).get('why', '')) for o in failing)
                if 'no native replay' in whys or 'opaque' in whys:
                    entry['how'] = ('obligation refuted under the interpreter; this contract has no native replay '
                                    '(callees replaced by hooks / opaque induction hypotheses)')
                else:
                    entry['how'] = 'solver counter-model (exact real arithmetic) not reproduced in floating point'
                entry['unreplayed'] = [o.get('cex') for o in failing if o.get('cex')][:1]
                if k:
                    known_hits.append((k, entry))
                else:
                    entry['no_input'] = True
                    violations.append(entry)
            else:
                if k:
                    known_hits.append((k, entry))
                else:
                    undecided.append(entry)
        # sampled failures of the fallback that no symbolic obligation accounts for (e.g. the code left the
        # interpreter's subset, so only `within-subset` is listed): report them under their own clause label
        reported = {v['label'] for v in violations if v.get('contract') == cname and v.get('case') == case}
        for f in (r.get('sampled') or {}).get('failures', []) or []:
            for lab in f.get('violated', [])[:1]:
                lab0 = lab.split(' (')[0]
                if lab0 in reported or lab0 in per_label and all(o['verdict'] == 'unsat' for o in per_label[lab0]):
                    continue
                if any(lab0 == l for l in reported):
                    continue
                reported.add(lab0)
                entry = {'obligation': f'{prop}/{cname}/{case}/{lab0}', 'contract': cname, 'case': case, 'label': lab0,
                         'input': f, 'how': 'sampled evaluation of the same contract on the real function '
                         '(the symbolic run was undecided)'}
                k = _match_known(known, cname, case, lab0)
                if k:
                    known_hits.append((k, entry))
                else:
                    violations.append(entry)
        if r.get('vacuity') == 'undecided':
            fe.setdefault('notes', []).append(f'{case}: vacuity check undecided')

    bounded = []
    for fn in bounded_fns + static_fns:
        try:
            b = fn(tier, seed)
        except Exception as exc:
            import traceback
            checker_errors.append({'contract': getattr(fn, '__name__', '?'), 'case': '-',
                                   'why': traceback.format_exc()[-1500:]})
            continue
        for bb in (b if isinstance(b, list) else [b]):
            bounded.append({k: v for k, v in bb.items() if k != 'failures'} | {'failures': len(bb.get('failures', []))})
            if bb.get('obligations'):
                n_obl += bb['obligations']
                n_dis += bb.get('discharged', 0)
            for he in bb.get('harness_errors', []) or []:
                # a worker of the sweep died or ran out of time: nothing is known about that deck -- undecided, never
                # silently dropped and never a violation
                undecided.append({'contract': bb['name'], 'case': he.get('case', '-'), 'obligation':
                                  f'{prop}/{bb["name"]}/harness-error', 'why': 'sweep worker failed: ' + str(he.get('detail', ''))[-300:]})
            if bb.get('kind', '').startswith('bounded') and 'evaluations' in bb and bb['evaluations'] == 0 \
                    and not bb.get('obligations'):
                checker_errors.append({'contract': bb['name'], 'case': '-', 'why': 'the bounded check evaluated nothing'})
            for f in bb.get('failures', []):
                if f.get('label') == 'harness-error':
                    undecided.append({'contract': bb['name'], 'case': f.get('case', '-'), 'obligation':
                                      f'{prop}/{bb["name"]}/harness-error', 'why': 'sweep worker failed: ' + str(f.get('detail', ''))[-300:]})
                    continue
                entry = {'obligation': f'{prop}/{bb["name"]}/{f.get("label", "bounded")}', 'contract': bb['name'],
                         'case': f.get('case', '-'), 'label': f.get('label', 'bounded'), 'input': f,
                         'how': bb.get('kind', 'bounded') + ' check on the real code',
                         'no_input': bool(f.get('no_input'))}
                k = _match_known(known, bb['name'], entry['case'], entry['label'])
                if k:
                    known_hits.append((k, entry))
                else:
                    violations.append(entry)

    # ---- replay files and verdict lines
    rdir = os.path.join(VERIF, 'replay', prop)
    os.makedirs(rdir, exist_ok=True)
    seen_known = set()
    for k, entry in known_hits:
        if k['id'] not in seen_known:
            seen_known.add(k['id'])
            print(f'KNOWN-FINDING: property={prop} {k["id"]}: {k["what"]}')
    # print at most 20, but one per contract first (so that no failing contract is hidden behind the many cases of
    # another one), those that carry a failing input before those that do not
    by_contract = {}
    for v in violations:
        by_contract.setdefault(v.get('contract', '?'), []).append(v)
    ordered = []
    rank = 0
    while len(ordered) < len(violations):
        layer = [vs[rank] for vs in by_contract.values() if len(vs) > rank]
        layer.sort(key=lambda v: bool(v.get('no_input')))
        ordered += layer
        rank += 1
    for v in ordered[:20]:
        path = os.path.join(rdir, _safe(v['obligation']) + '.json')
        with open(path, 'w') as f:
            json.dump({'property': prop, **v}, f, indent=1, default=str)
        tail = ' no-failing-input-found' if v.get('no_input') else ''
        print(f'VIOLATION property={prop} replay={path}{tail}')
        print(f'  failed obligation: {v["obligation"]}  ({v.get("how", "")})')
    for u in undecided[:20]:
        print(f'UNDECIDED property={prop} {u.get("obligation") or (u["contract"] + "/" + u["case"])}: '
              f'{u.get("why") or u.get("solver")}')
    for c in checker_errors[:20]:
        print(f'CHECKER-ERROR property={prop} {c["contract"]}/{c["case"]}: {c["why"]}')

    wall = time.time() - t0
    explanation = notes or ''
    if sampled_total[0]:
        bounded.append({'name': 'sampled contracts (status S)', 'kind': 'sampled', 'evaluations': sampled_total[0],
                        'distinct_nontrivial': sampled_total[0], 'units': sampled_units[0], 'failures': 0,
                        'rule': 'contracts with status S: seeded random inputs satisfying the precondition, contract evaluated on the real function; every accepted input is distinct (seeded RNG) and non-trivial (precondition holds)'})
    n_eval = sum(b.get('evaluations', 0) for b in bounded)
    ev = {
        'property_id': prop, 'tier': tier, 'seed': seed, 'level': level,
        'coverage': {
            'obligations': n_obl, 'discharged': n_dis,
            'checker_cmd': f'./check {prop} --tier {tier}',
            'trusted_base': sorted(set(trusted + ['z3 5.1.0', 'cvc5 1.0.3', 'sympy 1.14 (Groebner)', 'pyvc (this repository)',
                                                  'CPython 3.12', 'specification base /verif/specs'])),
            'samples': samples or [{'note': 'no discharged obligation'}],
            'explanation': explanation,
            'functions_under_contract': sorted(functions.values(), key=lambda f: f['contract']),
            'backends': backends, 'solver_seconds': round(solver_s, 2),
            'bounded': bounded,
            'evaluations': n_eval,
            'undecided': len(undecided), 'known_findings_matched': sorted(seen_known),
        },
        'assumptions': ENGINE_ASSUMPTIONS + assumptions,
        'wall_s': round(wall, 2), 'violations': len(violations),
    }
    if n_eval:
        ev['coverage']['distinct_nontrivial'] = sum(b.get('distinct_nontrivial', 0) for b in bounded)
        ev['coverage']['rule'] = '; '.join(b.get('rule', '') for b in bounded if b.get('rule'))
    # the evidence file describes a full run on /repo; partial runs (--only) and runs on a scratch tree (T4GC_REPO, used
    # to try seeded changes) write theirs next to the replay files instead
    evdir = os.path.join(VERIF, 'evidence')
    if only or os.path.abspath(os.environ.get('T4GC_REPO', '/repo')) != '/repo':
        evdir = os.path.join(VERIF, 'replay', 'evidence-of-partial-or-scratch-runs')
    os.makedirs(evdir, exist_ok=True)
    evpath = os.path.join(evdir, f'{prop}.json')
    with open(evpath, 'w') as f:
        json.dump(ev, f, indent=1, default=str)
    try:
        import jsonschema
        with open('/root/.vp/EVIDENCE.schema.json') as f:
            jsonschema.validate(ev, json.load(f))
    except FileNotFoundError:
        pass
    except Exception as exc:
        print(f'CHECKER-ERROR evidence file does not validate: {str(exc)[:300]}')
        return 3
    print(f'{prop} [{tier}] units={len(units)} obligations={n_obl} discharged={n_dis} '
          f'bounded-evaluations={n_eval} violations={len(violations)} undecided={len(undecided)} '
          f'known={len(seen_known)} wall={wall:.1f}s')
    if violations:
        return 1
    if checker_errors:
        return 3
    if undecided:
        return 2
    if n_obl == 0 and n_eval == 0:
        print('CHECKER-ERROR zero obligations')
        return 3
    return 0


def replay(prop, path):
    with open(path) as f:
        data = json.load(f)
    print(f'replay of {data.get("obligation")}')
    inp = data.get('input') or {}
    cname = data.get('contract')
    if cname in REGISTRY and 'args' in inp:
        C = REGISTRY[cname]
        args = unjson(inp['args'])
        ghosts = unjson(inp.get('ghosts') or {'__dict__': []})
        bad, desc = check_concrete(C, args, ghosts)
        print('arguments:', args)
        print('ghosts:', ghosts)
        print('real function', desc)
        print('violated clauses:', bad)
        if bad:
            print(f'VIOLATION property={prop} replay={path}')
            return 1
        print('not reproduced')
        return 0
    print(json.dumps(data, indent=1)[:4000])
    if data.get('no_input'):
        print(f'VIOLATION property={prop} replay={path} no-failing-input-found')
        return 1
    return 1
