"""Path-sensitive symbolic interpreter over the AST of the *real* functions.

The source of a function is obtained from the live function object of the
imported /repo module on every run (`inspect.getsource`), parsed with `ast`
and walked here.  Any call whose arguments contain no symbolic value is
executed by CPython on the real callee, so Python semantics is only modelled
where a symbolic value is involved (DESIGN §3.2, Appendix C).

Dropped (never interpreted, see DESIGN §3.1): docstrings, print(), warn(),
Progress context managers / progress.update(), and the *contents* of f-strings
that mention symbolic values (kept as the placeholder '<sym>').
"""
import ast
import builtins
import functools
import itertools
import inspect
import math
import textwrap
import types
import hashlib
import z3
import numpy as np

from .sym import NumStr
from .sym import (Sym, is_sym, lift, CTX, sym_div, sym_sqrt, sym_pow, py_int, to_real, And, Or, Not, ite,
                  SymbolicTruthError, _simp, _b)
from . import npmodel
from .npmodel import SymArray


class OutsideSubset(Exception):
    """The code uses a construct the interpreter does not model."""


class Ret(Exception):
    def __init__(self, v):
        self.v = v


class Raised(Exception):
    """The interpreted program raised `exc` (a real exception instance)."""

    def __init__(self, exc):
        self.exc = exc


class _Break(Exception):
    pass


class _Continue(Exception):
    pass


PRUNE = {'on': False, 'assume': [], 'budget': 3.0, 'cache': {}}


class Path:
    def __init__(self, decisions=()):
        self.decisions = list(decisions)
        self.i = 0
        self.pc = []        # branch conditions
        self.extra = []     # defining equations of fresh symbols (hypotheses)
        self.defs = []      # ('div', q, x, y) / ('sqrt', s, x) / ('fn', sym, name, arg)
        self.obl = []       # (label, cond, n_pc, n_extra)
        self.calls = []     # records of hooked calls (callee replaced by its contract)
        self.call_defs = []  # what the hooked callees really compute; used only to search replayable counter-models
        self.parent = None   # spec / precondition paths share the definitional symbols of the code path
        self.memo = {}       # ('sqrt'|'div'|'abs', key) -> fresh symbol already introduced for that term
        self.notes = []

    def branch(self, cond):
        cond = _simp(cond)
        if z3.is_true(cond):
            return True
        if z3.is_false(cond):
            return False
        # a condition already decided on this path is not decided again (cheap syntactic pruning)
        ncond = _simp(z3.Not(cond))
        for c in self.pc:
            if c.eq(cond):
                return True
            if c.eq(ncond):
                return False
        # semantic pruning (contracts with `prune = True`): a side that the precondition and the path condition
        # exclude is not explored.  Verdicts are cached so that the re-executions of explore() decide alike.
        if PRUNE['on']:
            key = (tuple(str(c) for c in self.pc), str(cond))
            verdict = PRUNE['cache'].get(key)
            if verdict is None:
                from . import backend
                hyps = list(PRUNE['assume']) + list(self.pc) + list(self.extra)
                verdict = 'both'
                if backend.check(hyps, cond, PRUNE['budget'], want_model=False)[0] == 'unsat':
                    verdict = 'false'
                elif backend.check(hyps, ncond, PRUNE['budget'], want_model=False)[0] == 'unsat':
                    verdict = 'true'
                PRUNE['cache'][key] = verdict
            if verdict != 'both':
                self.pc.append(cond if verdict == 'true' else ncond)
                return verdict == 'true'
        if self.i < len(self.decisions):
            d = self.decisions[self.i]
        else:
            d = True
            self.decisions.append(True)
        self.i += 1
        self.pc.append(cond if d else ncond)
        return d

    def lookup_def(self, key):
        p = self
        while p is not None:
            if key in p.memo:
                return p.memo[key]
            p = p.parent
        return None

    def oblige(self, label, cond):
        self.obl.append((label, cond, len(self.pc), len(self.extra)))

    def hyps(self):
        return list(self.pc) + list(self.extra)


class DummyProgress:
    def update(self, *a, **k):
        pass

    def __enter__(self):
        return self

    def __exit__(self, *a):
        return False


_SRC_CACHE = {}


def fn_source(fn):
    """(FunctionDef node, filename, first line, last line, sha256 of the segment) of a live function."""
    fn = getattr(fn, '__func__', fn)
    key = fn.__code__
    if key not in _SRC_CACHE:
        src = inspect.getsource(fn)
        lines, first = inspect.getsourcelines(fn)
        node = ast.parse(textwrap.dedent(src)).body[0]
        _SRC_CACHE[key] = (node, inspect.getsourcefile(fn), first, first + len(lines) - 1,
                           hashlib.sha256(src.encode()).hexdigest())
    return _SRC_CACHE[key]


class Closure:
    """A function / lambda defined inside interpreted code."""

    def __init__(self, interp, node, env, name='<lambda>'):
        self.interp, self.node, self.env, self.__name__ = interp, node, env, name

    def __call__(self, *args, **kw):
        return self.interp.call_node(self.node, self.env, list(args), kw)


MATH_MODELS = {}
TRANSPARENT_NATIVE = {NumStr}   # callables that may be called natively even with symbolic args


class SymIter:
    """Iterator over already evaluated items of a generator expression, some of them symbolic."""
    def __init__(self, items):
        self.items = list(items)
        self.pos = 0

    def __iter__(self):
        return self

    def __next__(self):
        if self.pos >= len(self.items):
            raise StopIteration
        self.pos += 1
        return self.items[self.pos - 1]


def anysym(x, _seen=None, _depth=0):
    if is_sym(x) or isinstance(x, (SymArray, NumStr)):
        return True
    if isinstance(x, SymIter):
        return anysym(x.items[x.pos:], _seen, _depth + 1)
    if x is None or isinstance(x, (int, float, str, bool, bytes, types.ModuleType, types.FunctionType, type)):
        return False
    if _depth > 8:
        return False
    if _seen is None:
        _seen = set()
    if id(x) in _seen:
        return False
    _seen.add(id(x))
    if isinstance(x, (list, tuple, set, frozenset)):
        return any(anysym(y, _seen, _depth + 1) for y in x)
    if isinstance(x, dict):
        return any(anysym(y, _seen, _depth + 1) for y in x.values()) or any(anysym(y, _seen, _depth + 1) for y in x)
    if isinstance(x, np.ndarray):
        return x.dtype == object and any(anysym(y, _seen, _depth + 1) for y in x.ravel())
    d = getattr(x, '__dict__', None)
    if isinstance(d, dict) and not inspect.isroutine(x):
        return any(anysym(y, _seen, _depth + 1) for y in d.values())
    return False


def _py_dunder(obj, name):
    """The Python-level special method `name` of obj's class, if obj is an instance with symbolic parts."""
    if is_sym(obj) or isinstance(obj, (SymArray, int, float, str, list, tuple, dict, set)) and type(obj) in (
            int, float, str, list, tuple, dict, set):
        return None
    m = getattr(type(obj), name, None)
    if isinstance(m, types.FunctionType) and anysym(obj):
        return m
    return None


class SymSet:
    """A set display / comprehension with symbolic members (A4): a bag of terms in which two members may be equal.
    Supported: membership, union, intersection, and the truth value / emptiness of the result."""
    def __init__(self, items):
        self.items = list(items)

    def __and__(self, other):
        return SymInter(self, SymSet.of(other))

    def __or__(self, other):
        return SymSet(self.items + SymSet.of(other).items)

    @staticmethod
    def of(x):
        return x if isinstance(x, SymSet) else SymSet(list(x))

    def nonempty(self):
        return bool(self.items)

    def size(self):
        """number of distinct members: a member counts when it differs from all earlier ones"""
        total = 0
        for i, x in enumerate(self.items):
            earlier = [x != y for y in self.items[:i]]
            ind = And(*earlier) if earlier else True
            total = total + (ite(ind, 1, 0) if is_sym(ind) else (1 if ind else 0))
        return total

    def contains(self, item):
        return Or(*[x == item for x in self.items]) if self.items else False


class SymInter:
    """a & b for symbolic sets: only its emptiness is defined."""
    def __init__(self, a, b):
        self.a, self.b = a, b

    def nonempty(self):
        pairs = [x == y for x in self.a.items for y in self.b.items]
        return Or(*pairs) if pairs else False


def _short_repr(x):
    r = repr(x)
    return r if len(r) < 80 else r[:77] + '...'


class Interp:
    LOOP_FUEL = 64

    def __init__(self, path, hooks=None):
        self.p = path
        self.hooks = hooks or {}      # callable -> replacement(interp, args, kw)   (contracts at call sites, models)
        self.force = set()            # functions interpreted even when all their arguments are concrete
        self.depth = 0
        self.trace = []

    # ------------------------------------------------------------ calls
    def call_function(self, fn, args, kw):
        fn0 = getattr(fn, '__func__', fn)
        node = fn_source(fn0)[0]
        env = {'__globals__': fn0.__globals__, '__fn__': fn0}
        if fn0.__closure__:
            for name, cell in zip(fn0.__code__.co_freevars, fn0.__closure__):
                env[name] = cell.cell_contents
        return self.call_node(node, env, args, kw, defaults=(fn0.__defaults__, fn0.__kwdefaults__))

    def call_node(self, node, outer_env, args, kw, defaults=None):
        env = dict(outer_env)
        a = node.args
        params = [x.arg for x in a.posonlyargs + a.args]
        args = list(args)
        kw = dict(kw)
        # defaults
        if defaults is not None:
            dvals = list(defaults[0] or ())
            kwd = dict(defaults[1] or {})
        else:
            dvals = [self.ev(d, outer_env) for d in a.defaults]
            kwd = {k.arg: self.ev(d, outer_env) for k, d in zip(a.kwonlyargs, a.kw_defaults) if d is not None}
        bound = {}
        for name, v in zip(params, args):
            bound[name] = v
        rest = args[len(params):]
        if a.vararg:
            bound[a.vararg.arg] = tuple(rest)
        elif rest:
            raise Raised(TypeError(f'{node.name if hasattr(node, "name") else "<lambda>"}() takes {len(params)} '
                                   f'positional arguments but {len(args)} were given'))
        for name in list(kw):
            if name in params or name in [k.arg for k in a.kwonlyargs]:
                if name in bound:
                    raise Raised(TypeError(f'multiple values for argument {name!r}'))
                bound[name] = kw.pop(name)
        if a.kwarg:
            bound[a.kwarg.arg] = kw
        elif kw:
            raise Raised(TypeError(f'unexpected keyword argument {list(kw)[0]!r}'))
        for name, d in zip(params[len(params) - len(dvals):], dvals):
            bound.setdefault(name, d)
        for k in a.kwonlyargs:
            if k.arg not in bound and k.arg in kwd:
                bound[k.arg] = kwd[k.arg]
        missing = [n for n in params + [k.arg for k in a.kwonlyargs] if n not in bound]
        if missing:
            raise Raised(TypeError(f'missing required argument(s): {missing}'))
        env.update(bound)
        self.depth += 1
        if self.depth > 60:
            raise OutsideSubset('interpreter recursion depth')
        try:
            if isinstance(node, ast.Lambda):
                return self.ev(node.body, env)
            if _is_generator(node):
                out = []
                env['__yield__'] = out
                try:
                    self.block(node.body, env)
                except Ret:
                    pass
                return iter(out)
            try:
                self.block(node.body, env)
            except Ret as r:
                return r.v
            return None
        finally:
            self.depth -= 1

    _FN_INDEX = None

    @classmethod
    def _fn_index(cls):
        """name -> python functions of that name defined in the repository packages (module level and methods)."""
        import sys
        if cls._FN_INDEX is None:
            idx = {}
            for mname, mod in list(sys.modules.items()):
                if mod is None or not (mname.split('.')[0] in ('t4_geom_convert', 'MIP')):
                    continue
                for obj in list(vars(mod).values()):
                    if isinstance(obj, types.FunctionType) and obj.__module__ == mname:
                        idx.setdefault(obj.__name__, []).append(obj)
                    elif isinstance(obj, type) and obj.__module__ == mname:
                        for v in vars(obj).values():
                            v = getattr(v, '__func__', v)
                            if isinstance(v, types.FunctionType):
                                idx.setdefault(v.__name__, []).append(v)
            cls._FN_INDEX = idx
        return cls._FN_INDEX

    def reaches_hook(self, f):
        fn = getattr(f, '__func__', f)
        if not isinstance(fn, types.FunctionType) or fn.__module__.split('.')[0] not in ('t4_geom_convert', 'MIP'):
            return False
        names = getattr(self, '_hook_names', None)
        if names is None:
            names = self._hook_names = {getattr(h, '__name__', None) for h in self.hooks
                                        if isinstance(getattr(h, '__func__', h), types.FunctionType)}
            self._reach_memo = {}
        memo = self._reach_memo
        idx = self._fn_index()

        def go(g, depth):
            code = g.__code__
            if code in memo:
                return memo[code]
            memo[code] = False              # recursion guard
            used = set(code.co_names)
            for c in code.co_consts:        # nested code objects (comprehensions, lambdas, inner functions)
                if isinstance(c, types.CodeType):
                    used |= set(c.co_names)
            r = bool(used & names)
            if not r and depth < 6:
                for n in used:
                    for h in idx.get(n, ()):
                        if h is not g and go(h, depth + 1):
                            r = True
                            break
                    if r:
                        break
            memo[code] = r
            return r
        return go(fn, 0)

    def call(self, f, args, kw):
        hook = self.hooks.get(getattr(f, '__func__', f)) if _hashable(f) else None
        if hook is not None:
            # hooks always see the receiver as first argument, whether the method was called bound or unbound
            hargs = [f.__self__] + list(args) if inspect.ismethod(f) else list(args)
            hkw = kw
            try:       # keyword arguments are turned into positional ones (hooks index their arguments)
                ba = inspect.signature(getattr(f, '__func__', f)).bind(*hargs, **kw)
                hargs, hkw = list(ba.args), dict(ba.kwargs)
            except (TypeError, ValueError):
                pass
            r = hook(self, f, hargs, hkw)
            if r is not NotImplemented:     # a hook may decline (e.g. induction hypothesis only for opaque arguments)
                return r
        if isinstance(f, Closure):
            return f(*args, **kw)
        sym = anysym(args) or anysym(list(kw.values()))
        selfobj = getattr(f, '__self__', None)
        forced = _hashable(f) and getattr(f, '__func__', f) in self.force
        if not forced and self.hooks and self.reaches_hook(f):
            # a repository function that may (transitively, by name) call a hooked function must not run natively:
            # the hook -- the callee's contract -- would be bypassed by the real callee
            forced = True
        if not forced and not sym and not (selfobj is not None and not isinstance(selfobj, types.ModuleType)
                                           and anysym(selfobj) and inspect.ismethod(f)):
            return self.native(f, args, kw)
        # ---- symbolic arguments
        if f in (print,):
            return None
        m = MATH_MODELS.get(f) if _hashable(f) else None
        if m is not None:
            return m(*args, **kw)
        m = npmodel.MODELS.get(f) if _hashable(f) else None
        if m is not None:
            return m(*args, **kw)
        if f is float:
            return to_real(args[0])
        if f is int:
            m = _py_dunder(args[0], '__int__')
            return self.call_function(m, [args[0]], {}) if m else py_int(args[0])
        if f is bool:
            return self.truth(args[0])
        if f is abs:
            m = _py_dunder(args[0], '__abs__')
            return self.call_function(m, [args[0]], {}) if m else abs(args[0])
        if f is isinstance and is_sym(args[0]):
            want = args[1] if isinstance(args[1], tuple) else (args[1],)
            t = args[0].t
            return (z3.is_int(t) and int in want) or (z3.is_real(t) and float in want) or \
                (z3.is_bool(t) and bool in want)
        if f is len and isinstance(args[0], SymSet):
            return args[0].size()
        if f is isinstance and len(args) == 2 and (getattr(type(args[0]), 'unknown_kind', None)
                                                  or getattr(type(args[0]), 'node_kind', None)):
            # a stand-in for "any sub-tree" (induction hypothesis) does not know what kind of node it is: code that asks
            # leaves the proved subset (the contract is then decided on concrete trees only)
            want = args[1] if isinstance(args[1], tuple) else (args[1],)
            names = set(getattr(type(args[0]), 'unknown_kind', ()))
            asked = {getattr(w, '__name__', '') for w in want}
            node = set(getattr(type(args[0]), 'node_kind', ()))
            if node and asked >= node:
                return True                      # declared: an operator node (tuple / list / GeomExpression)
            if asked & (names | node):
                raise OutsideSubset(f'the kind of an opaque sub-tree is inspected: isinstance(<{type(args[0]).__name__}>, '
                                    f'{[getattr(w, "__name__", w) for w in want]})')
        if f in (len, tuple, list, zip, enumerate, reversed, iter, next, range, dict, isinstance, type, id, repr,
                 hasattr, getattr, setattr):
            return self.native(f, args, kw)
        if f is str:
            return '<sym>'
        if f is sum:
            it = list(args[0])
            r = args[1] if len(args) > 1 else 0
            for x in it:
                r = self.binop(ast.Add(), r, x)
            return r
        if f in (max, min):
            vals = list(args[0]) if len(args) == 1 else list(args)
            keyf = kw.get('key')
            if not vals:
                if 'default' in kw:
                    return kw['default']
                raise Raised(ValueError(f'{f.__name__}() iterable argument is empty'))
            keys = [self.call(keyf, [v], {}) for v in vals] if keyf is not None else vals
            r, rk = vals[0], keys[0]
            for x, xk in zip(vals[1:], keys[1:]):
                c = self.cmp(ast.Gt() if f is max else ast.Lt(), xk, rk)
                if self.truth(c):
                    r, rk = x, xk
            return r
        if f in (all, any):
            for x in args[0]:
                t = self.truth(x)
                if f is all and not t:
                    return False
                if f is any and t:
                    return True
            return f is all
        if f is sorted:
            try:
                return f(*args, **kw)
            except SymbolicTruthError:
                raise OutsideSubset('sorted() of symbolic values')
        if f in (itertools.chain, itertools.islice, itertools.product, itertools.zip_longest, itertools.starmap) or (
                getattr(f, '__self__', None) is itertools.chain and getattr(f, '__name__', '') == 'from_iterable'):
            # itertools that only regroup their items (no comparison, no arithmetic): run natively, handed on as an
            # iterator the engine can look into
            if f is itertools.starmap:
                return SymIter([self.call(args[0], list(xs), {}) for xs in args[1]])
            items = list(f(*[list(a) if isinstance(a, SymIter) else a for a in args], **kw))
            return SymIter(items) if anysym(items) else iter(items)
        if f is functools.reduce:
            seq = list(args[1])
            if len(args) > 2:
                acc = args[2]
            elif seq:
                acc, seq = seq[0], seq[1:]
            else:
                raise Raised(TypeError('reduce() of empty iterable with no initial value'))
            for x in seq:
                acc = self.call(args[0], [acc, x], {})
            return acc
        if f is map:
            return [self.call(args[0], list(xs), {}) for xs in zip(*args[1:])]
        if f is filter:
            return [x for x in args[1] if self.truth(self.call(args[0], [x], {}))]
        if _hashable(f) and f in TRANSPARENT_NATIVE:
            return self.native(f, args, kw)
        if inspect.isbuiltin(f) or isinstance(f, (types.MethodDescriptorType, types.BuiltinMethodType)):
            s = getattr(f, '__self__', None)
            if isinstance(s, SymArray):
                return f(*args, **kw)
            if isinstance(s, (list, dict, tuple, set)) or s is None:
                return self.container_method(f, s, args, kw)
            raise OutsideSubset(f'builtin {f!r} with symbolic arguments')
        if inspect.ismethod(f) and isinstance(f.__self__, SymArray):
            return f(*args, **kw)
        if inspect.isclass(f):
            if f in (tuple, list):
                return f(*args)
            if f in (set, frozenset, dict):
                try:       # fine as long as no symbolic value has to be hashed / compared
                    return f(*args, **kw)
                except SymbolicTruthError:
                    if f in (set, frozenset) and len(args) == 1 and not kw and isinstance(args[0], (list, tuple)) and all(
                            is_sym(a) or isinstance(a, (int, float)) for a in args[0]):
                        return SymSet(list(args[0]))      # A4: a bag of terms, queried through membership / size only
                    raise OutsideSubset(f'constructor of {f.__name__} needs equality of symbolic values')
            if issubclass(f, BaseException):
                return f(*[('<sym>' if anysym(a) else a) for a in args])
            if issubclass(f, tuple) and f.__new__ is tuple.__new__ and f.__init__ is object.__init__:
                return f(*args)
            obj = f.__new__(f)
            init = f.__init__
            if isinstance(init, types.FunctionType):
                self.call_function(init, [obj] + list(args), kw)
            else:
                raise OutsideSubset(f'constructor of {f.__name__} with symbolic arguments')
            return obj
        mod = getattr(getattr(f, '__func__', f), '__module__', '') or ''
        if mod.split('.')[0] in ('pyvc', 'specs', 'z3', 'sympy'):
            # verification-side code (specification helpers, z3 API) is never interpreted
            return self.native(f, args, kw)
        if mod in ('_collections_abc', 'collections.abc') and getattr(f, '__name__', '') in ('keys', 'items', 'values'):
            # mixin views of a Mapping defined in the repository: they only wrap the mapping; iterating them goes
            # through its own __iter__ / __getitem__ and tests no value
            return self.native(f, args, kw)
        if inspect.isfunction(f):
            return self.call_function(f, args, kw)
        if inspect.ismethod(f):
            return self.call_function(f.__func__, [f.__self__] + list(args), kw)
        if isinstance(f, (staticmethod, classmethod)):
            return self.call(f.__func__, args, kw)
        raise OutsideSubset(f'call of {f!r} with symbolic arguments')

    def container_method(self, f, s, args, kw):
        name = f.__name__
        if name in ('append', 'extend', 'copy', 'pop', 'insert', 'setdefault', 'update', 'items', 'keys', 'values',
                    'get', 'reverse', 'clear') and not (name in ('get', 'setdefault', 'pop') and args and anysym(args[0])):
            return f(*args, **kw)
        if name == 'add' and isinstance(s, set) and is_sym(args[0]):
            # A4: a set with symbolic members is only ever queried through `in` (modelled as a disjunction of
            # equalities), so keeping two symbols that may be equal is harmless
            return f(*args)
        if isinstance(s, dict) and name in ('get', 'setdefault', '__contains__') and args:
            # a dictionary looked up with a symbolic key (or holding symbolic keys): the key is compared with the
            # existing keys one after the other, each comparison being a branch of the path
            key = args[0]
            for k in list(s):
                eq = self.cmp(ast.Eq(), k, key)
                if self.truth(eq):
                    return True if name == '__contains__' else s[k]
            if name == '__contains__':
                return False
            default = args[1] if len(args) > 1 else None
            if name == 'setdefault':
                s[key] = default
            return default
        if name in ('index', 'count', 'remove', '__contains__', 'add', 'discard', 'get', 'setdefault', 'pop', 'sort'):
            raise OutsideSubset(f'{type(s).__name__}.{name} needs equality of symbolic values')
        return f(*args, **kw)

    def native(self, f, args, kw):
        try:
            return f(*args, **kw)
        except SymbolicTruthError:
            raise
        except (OutsideSubset, Raised, Ret):
            raise
        except Exception as exc:      # the real callee raised: that is the program's behaviour
            if isinstance(exc, (TypeError, AttributeError)) and any(
                    w in str(exc) for w in ("'Sym'", "'SymSet'", "'SymInter'", "'SymArray'", "Opaque", "'Closure'")):
                # ... unless it was raised because a model object of the engine does not support the operation
                raise OutsideSubset(f'{type(exc).__name__}: {exc}') from None
            raise Raised(exc) from None

    # --------------------------------------------------------- statements
    def block(self, stmts, env):
        for s in stmts:
            self.stmt(s, env)

    def lookup(self, name, env):
        if name in env:
            return env[name]
        g = env.get('__globals__', {})
        if name in g:
            return g[name]
        if hasattr(builtins, name):
            return getattr(builtins, name)
        raise Raised(NameError(f"name '{name}' is not defined"))

    def assign(self, tgt, val, env):
        if isinstance(tgt, ast.Name):
            env[tgt.id] = val
        elif isinstance(tgt, (ast.Tuple, ast.List)):
            try:
                vals = list(val)
            except TypeError as exc:
                raise Raised(exc) from None
            star = [i for i, t in enumerate(tgt.elts) if isinstance(t, ast.Starred)]
            if star:
                i = star[0]
                n_after = len(tgt.elts) - i - 1
                if len(vals) < len(tgt.elts) - 1:
                    raise Raised(ValueError(f'not enough values to unpack (expected at least {len(tgt.elts) - 1}, '
                                            f'got {len(vals)})'))
                for t, v in zip(tgt.elts[:i], vals[:i]):
                    self.assign(t, v, env)
                self.assign(tgt.elts[i].value, list(vals[i:len(vals) - n_after]), env)
                for t, v in zip(tgt.elts[i + 1:], vals[len(vals) - n_after:]):
                    self.assign(t, v, env)
                return
            if len(vals) != len(tgt.elts):
                kind = 'too many values to unpack' if len(vals) > len(tgt.elts) else 'not enough values to unpack'
                raise Raised(ValueError(f'{kind} (expected {len(tgt.elts)}, got {len(vals)})'))
            for t, v in zip(tgt.elts, vals):
                self.assign(t, v, env)
        elif isinstance(tgt, ast.Subscript):
            obj = self.ev(tgt.value, env)
            idx = self.ev_slice(tgt.slice, env)
            if anysym(idx):
                raise OutsideSubset('store through a symbolic index')
            try:
                obj[idx] = val
            except Exception as exc:
                raise Raised(exc) from None
        elif isinstance(tgt, ast.Attribute):
            setattr(self.ev(tgt.value, env), tgt.attr, val)
        else:
            raise OutsideSubset(f'assignment target {type(tgt).__name__}')

    def stmt(self, s, env):
        if isinstance(s, ast.Expr):
            if isinstance(s.value, ast.Constant):
                return
            if isinstance(s.value, (ast.Yield, ast.YieldFrom)):
                self.ev(s.value, env)
                return
            self.ev(s.value, env)
        elif isinstance(s, ast.Assign):
            v = self.ev(s.value, env)
            for t in s.targets:
                self.assign(t, v, env)
        elif isinstance(s, ast.AnnAssign):
            if s.value is not None:
                self.assign(s.target, self.ev(s.value, env), env)
        elif isinstance(s, ast.AugAssign):
            load = _as_load(s.target)
            cur = self.ev(load, env)
            val = self.ev(s.value, env)
            if isinstance(cur, list) and isinstance(s.op, ast.Add):
                cur.extend(val)
                new = cur
            elif isinstance(cur, set) and isinstance(s.op, ast.BitOr) and not anysym(val):
                cur |= val
                new = cur
            else:
                new = self.binop(s.op, cur, val)
            self.assign(s.target, new, env)
        elif isinstance(s, ast.Return):
            raise Ret(self.ev(s.value, env) if s.value is not None else None)
        elif isinstance(s, ast.If):
            c = self.truth(self.ev(s.test, env))
            self.block(s.body if c else s.orelse, env)
        elif isinstance(s, ast.Raise):
            if s.exc is None:
                exc = env.get('__active_exc__')
                if exc is None:
                    raise Raised(RuntimeError('No active exception to re-raise'))
                raise Raised(exc)
            exc = self.ev(s.exc, env)
            if inspect.isclass(exc):
                exc = exc()
            raise Raised(exc)
        elif isinstance(s, ast.Try):
            self.try_stmt(s, env)
        elif isinstance(s, ast.For):
            it = self.ev(s.iter, env)
            try:
                items = list(it)
            except TypeError as exc:
                raise Raised(exc) from None
            broke = False
            for item in items:
                self.assign(s.target, item, env)
                try:
                    self.block(s.body, env)
                except _Break:
                    broke = True
                    break
                except _Continue:
                    continue
            if not broke:
                self.block(s.orelse, env)
        elif isinstance(s, ast.While):
            fuel = self.LOOP_FUEL
            broke = False
            while self.truth(self.ev(s.test, env)):
                fuel -= 1
                if fuel < 0:
                    raise OutsideSubset('while loop exceeded the unrolling fuel (needs an invariant)')
                try:
                    self.block(s.body, env)
                except _Break:
                    broke = True
                    break
                except _Continue:
                    continue
            if not broke:
                self.block(s.orelse, env)
        elif isinstance(s, ast.Break):
            raise _Break()
        elif isinstance(s, ast.Continue):
            raise _Continue()
        elif isinstance(s, ast.Pass):
            return
        elif isinstance(s, ast.Assert):
            if not self.truth(self.ev(s.test, env)):
                raise Raised(AssertionError(ast.unparse(s.test)))
        elif isinstance(s, ast.With):
            managers = []
            for item in s.items:
                ctx_src = ast.unparse(item.context_expr)
                if ctx_src.startswith('Progress('):
                    if item.optional_vars is not None:
                        self.assign(item.optional_vars, DummyProgress(), env)
                    continue
                # a context manager object built from concrete values (e.g. a @contextmanager helper that turns one
                # exception into another): entered and left natively, the body is interpreted
                cm = self.ev(item.context_expr, env)
                if anysym(cm) or not (hasattr(cm, '__enter__') and hasattr(cm, '__exit__')):
                    raise OutsideSubset(f'with {ctx_src[:40]}')
                try:
                    entered = cm.__enter__()
                except Exception as exc:
                    raise Raised(exc) from None
                managers.append(cm)
                if item.optional_vars is not None:
                    self.assign(item.optional_vars, entered, env)
            try:
                self.block(s.body, env)
            except Raised as r:
                exc = r.exc
                for cm in reversed(managers):
                    try:
                        if cm.__exit__(type(exc), exc, None):
                            exc = None
                            break
                    except Exception as exc2:
                        exc = exc2
                if exc is not None:
                    raise Raised(exc) from None
            except (Ret, _Break, _Continue):
                for cm in reversed(managers):
                    cm.__exit__(None, None, None)
                raise
            else:
                for cm in reversed(managers):
                    try:
                        cm.__exit__(None, None, None)
                    except Exception as exc2:
                        raise Raised(exc2) from None
        elif isinstance(s, ast.Delete):
            for t in s.targets:
                if isinstance(t, ast.Subscript):
                    obj = self.ev(t.value, env)
                    idx = self.ev_slice(t.slice, env)
                    if anysym(idx):
                        raise OutsideSubset('del through a symbolic index')
                    try:
                        del obj[idx]
                    except Exception as exc:
                        raise Raised(exc) from None
                elif isinstance(t, ast.Name):
                    env.pop(t.id, None)
                else:
                    raise OutsideSubset('del target')
        elif isinstance(s, (ast.FunctionDef,)):
            env[s.name] = Closure(self, s, env, s.name)
        elif isinstance(s, (ast.Import, ast.ImportFrom)):
            mod = ast.Module(body=[s], type_ignores=[])
            g = dict(env.get('__globals__', {}))
            loc = {}
            exec(compile(mod, '<pyvc-import>', 'exec'), g, loc)
            env.update(loc)
        elif isinstance(s, (ast.Global, ast.Nonlocal)):
            raise OutsideSubset(type(s).__name__)
        else:
            raise OutsideSubset(f'statement {type(s).__name__}')

    def try_stmt(self, s, env):
        try:
            try:
                self.block(s.body, env)
            except Raised as r:
                for h in s.handlers:
                    if h.type is None:
                        match = True
                    else:
                        ht = self.ev(h.type, env)
                        match = isinstance(r.exc, ht)
                    if match:
                        if h.name:
                            env[h.name] = r.exc
                        saved = env.get('__active_exc__')
                        env['__active_exc__'] = r.exc
                        try:
                            self.block(h.body, env)
                        finally:
                            env['__active_exc__'] = saved
                        break
                else:
                    raise
            else:
                self.block(s.orelse, env)
        finally:
            if s.finalbody:
                self.block(s.finalbody, env)

    # -------------------------------------------------------- expressions
    def truth(self, v):
        if is_sym(v):
            t = v.t
            if z3.is_bool(t):
                return self.p.branch(t)
            return self.p.branch(t != 0)
        if isinstance(v, (SymSet, SymInter)):
            t = v.nonempty()
            return self.p.branch(t.t) if is_sym(t) else bool(t)
        if isinstance(v, SymArray):
            raise OutsideSubset('truth value of an array')
        if getattr(type(v), 'opaque_standin', False) and getattr(type(v), 'unknown_kind', None):
            raise OutsideSubset(f'truth value of an opaque sub-tree of unknown kind is asked ({v!r})')
        try:
            return bool(v)
        except SymbolicTruthError:
            raise OutsideSubset('truth value of a container comparison with symbolic parts')

    def binop(self, op, a, b):
        if isinstance(a, SymSet) or isinstance(b, SymSet):
            if isinstance(op, ast.BitAnd):
                return SymSet.of(a) & SymSet.of(b)
            if isinstance(op, ast.BitOr):
                return SymSet.of(a) | SymSet.of(b)
            raise OutsideSubset('operation on a set with symbolic members')
        if isinstance(a, np.ndarray) and anysym(b):
            a = SymArray.of(a)
        if isinstance(b, np.ndarray) and anysym(a):
            b = SymArray.of(b)
        if isinstance(op, ast.Div) and (is_sym(a) or is_sym(b)) and not isinstance(a, SymArray) \
                and not isinstance(b, SymArray):
            return sym_div(a, b)
        if isinstance(op, ast.Pow) and (is_sym(a) or is_sym(b)):
            return sym_pow(a, b)
        if isinstance(op, ast.MatMult):
            if isinstance(a, SymArray) or isinstance(b, SymArray):
                return npmodel.matmul(a, b)
        fn = {ast.Add: lambda: a + b, ast.Sub: lambda: a - b, ast.Mult: lambda: a * b, ast.Div: lambda: a / b,
              ast.Pow: lambda: a ** b, ast.FloorDiv: lambda: a // b, ast.Mod: lambda: a % b,
              ast.MatMult: lambda: a @ b, ast.BitAnd: lambda: a & b, ast.BitOr: lambda: a | b,
              ast.BitXor: lambda: a ^ b, ast.LShift: lambda: a << b, ast.RShift: lambda: a >> b}[type(op)]
        try:
            return fn()
        except (SymbolicTruthError, OutsideSubset, NotImplementedError):
            raise
        except Exception as exc:
            raise Raised(exc) from None

    def cmp(self, op, a, b):
        """One comparison; returns bool or Sym(bool)."""
        if isinstance(op, ast.Is):
            return a is b
        if isinstance(op, ast.IsNot):
            return a is not b
        if isinstance(op, (ast.In, ast.NotIn)):
            r = self.contains(b, a)
            if isinstance(op, ast.NotIn):
                return Not(r) if is_sym(r) else (not r)
            return r
        if isinstance(op, (ast.Eq, ast.NotEq)):
            r = self.equal(a, b)
            if isinstance(op, ast.NotEq):
                return Not(r) if is_sym(r) else (not r)
            return r
        dn = {ast.Lt: '__lt__', ast.LtE: '__le__', ast.Gt: '__gt__', ast.GtE: '__ge__'}[type(op)]
        m = _py_dunder(a, dn)
        if m is not None:
            return self.call_function(m, [a, b], {})
        rn = {ast.Lt: '__gt__', ast.LtE: '__ge__', ast.Gt: '__lt__', ast.GtE: '__le__'}[type(op)]
        m = _py_dunder(b, rn)
        if m is not None:
            return self.call_function(m, [b, a], {})
        if is_sym(a) or is_sym(b):
            if a is None or b is None:
                raise Raised(TypeError('ordering comparison with None'))
            f = {ast.Lt: lambda: a < b, ast.LtE: lambda: a <= b, ast.Gt: lambda: a > b, ast.GtE: lambda: a >= b}
            return f[type(op)]()
        try:
            return {ast.Lt: lambda: a < b, ast.LtE: lambda: a <= b, ast.Gt: lambda: a > b,
                    ast.GtE: lambda: a >= b}[type(op)]()
        except SymbolicTruthError:
            raise OutsideSubset('ordering of containers with symbolic parts')
        except Exception as exc:
            raise Raised(exc) from None

    def equal(self, a, b):
        oa, ob = getattr(type(a), 'opaque_standin', False), getattr(type(b), 'opaque_standin', False)
        if (oa or ob) and a is not b:
            # a stand-in for "any sub-tree" may stand for a tree equal to another stand-in's, or to a concrete tree
            other = b if oa else a
            if (oa and ob) or isinstance(other, (list, tuple)) or type(other).__name__ in (
                    'Surface', 'GeomExpression', 'CellRef', 'Cell'):
                raise OutsideSubset(f'equality of an opaque sub-tree with another tree is asked ({a!r} == {_short_repr(b)})')
        if is_sym(a) or is_sym(b):
            if isinstance(a, SymArray) or isinstance(b, SymArray):
                return SymArray.of(a) == b
            return a == b if is_sym(a) else b == a
        if isinstance(a, SymArray) or isinstance(b, SymArray):
            return SymArray.of(a) == b
        if isinstance(a, (list, tuple)) and isinstance(b, (list, tuple)) and (anysym(a) or anysym(b)):
            if type(a) is not type(b) and not (isinstance(a, tuple) and isinstance(b, tuple)):
                return False
            if len(a) != len(b):
                return False
            return And(*[self.equal(x, y) for x, y in zip(a, b)])
        if anysym(a) or anysym(b):
            eq = getattr(type(a), '__eq__', None)
            if isinstance(eq, types.FunctionType):
                r = self.call_function(eq, [a, b], {})
                if r is NotImplemented:
                    return a is b
                return r
            return False if type(a) is not type(b) else (_ for _ in ()).throw(
                OutsideSubset(f'equality of {type(a).__name__} objects with symbolic parts'))
        try:
            return a == b
        except Exception as exc:
            raise Raised(exc) from None

    def contains(self, container, item):
        if isinstance(container, SymSet):
            return container.contains(item)
        if isinstance(container, (list, tuple)) and (anysym(container) or anysym(item)):
            return Or(*[self.equal(item, x) for x in container]) if container else False
        if isinstance(container, (set, frozenset, dict)) and anysym(item):
            if is_sym(item):
                return Or(*[self.equal(item, x) for x in container]) if container else False
            raise OutsideSubset('membership of a structured symbolic value in a set/dict')
        if isinstance(container, str) and anysym(item):
            raise OutsideSubset('substring test with symbolic value')
        if isinstance(container, (list, tuple)) and (getattr(type(item), 'opaque_standin', False) or any(
                getattr(type(x), 'opaque_standin', False) for x in container)):
            for x in container:
                if x is item:
                    return True
            for x in container:
                if self.truth(self.equal(item, x)):
                    return True
            return False
        try:
            return item in container
        except SymbolicTruthError:
            raise OutsideSubset('membership needs symbolic equality')
        except Exception as exc:
            raise Raised(exc) from None

    def ev_slice(self, sl, env):
        if isinstance(sl, ast.Slice):
            return slice(self.ev(sl.lower, env) if sl.lower else None,
                         self.ev(sl.upper, env) if sl.upper else None,
                         self.ev(sl.step, env) if sl.step else None)
        if isinstance(sl, ast.Tuple):
            return tuple(self.ev_slice(e, env) for e in sl.elts)
        return self.ev(sl, env)

    def ev(self, e, env):
        if isinstance(e, ast.Constant):
            return e.value
        if isinstance(e, ast.Name):
            return self.lookup(e.id, env)
        if isinstance(e, (ast.Tuple, ast.List, ast.Set)):
            out = []
            for x in e.elts:
                if isinstance(x, ast.Starred):
                    out.extend(self.ev(x.value, env))
                else:
                    out.append(self.ev(x, env))
            if isinstance(e, ast.Tuple):
                return tuple(out)
            if isinstance(e, ast.Set):
                if anysym(out):
                    raise OutsideSubset('set display with symbolic members')
                return set(out)
            return out
        if isinstance(e, ast.Dict):
            d = {}
            for k, v in zip(e.keys, e.values):
                if k is None:
                    d.update(self.ev(v, env))
                else:
                    kk = self.ev(k, env)
                    if anysym(kk):
                        raise OutsideSubset('dict display with symbolic key')
                    d[kk] = self.ev(v, env)
            return d
        if isinstance(e, ast.BinOp):
            return self.binop(e.op, self.ev(e.left, env), self.ev(e.right, env))
        if isinstance(e, ast.UnaryOp):
            v = self.ev(e.operand, env)
            if isinstance(e.op, ast.Not):
                return not self.truth(v)
            if isinstance(e.op, ast.USub):
                m = _py_dunder(v, '__neg__')
                return self.call_function(m, [v], {}) if m else -v
            if isinstance(e.op, ast.UAdd):
                return +v
            if isinstance(e.op, ast.Invert):
                return ~v
        if isinstance(e, ast.BoolOp):
            v = None
            for x in e.values:
                v = self.ev(x, env)
                t = self.truth(v)
                if isinstance(e.op, ast.And) and not t:
                    return v if not is_sym(v) else False
                if isinstance(e.op, ast.Or) and t:
                    return v if not is_sym(v) else True
            return v if not is_sym(v) else isinstance(e.op, ast.And)
        if isinstance(e, ast.Compare):
            left = self.ev(e.left, env)
            if len(e.ops) == 1:
                return self.cmp(e.ops[0], left, self.ev(e.comparators[0], env))
            for op, r in zip(e.ops, e.comparators):
                rv = self.ev(r, env)
                if not self.truth(self.cmp(op, left, rv)):
                    return False
                left = rv
            return True
        if isinstance(e, ast.IfExp):
            return self.ev(e.body if self.truth(self.ev(e.test, env)) else e.orelse, env)
        if isinstance(e, ast.Subscript):
            o = self.ev(e.value, env)
            idx = self.ev_slice(e.slice, env)
            if anysym(idx):
                raise OutsideSubset('load through a symbolic index')
            try:
                return o[idx]
            except SymbolicTruthError:
                raise OutsideSubset('subscript needs symbolic equality')
            except (OutsideSubset, Raised):
                raise
            except Exception as exc:
                gi = getattr(type(o), '__getitem__', None)
                if isinstance(gi, types.FunctionType) and anysym(o):
                    return self.call_function(gi, [o, idx], {})
                raise Raised(exc) from None
        if isinstance(e, ast.Attribute):
            o = self.ev(e.value, env)
            try:
                return getattr(o, e.attr)
            except AttributeError as exc:
                raise Raised(exc) from None
        if isinstance(e, ast.Call):
            f = self.ev(e.func, env)
            args = []
            for a in e.args:
                if isinstance(a, ast.Starred):
                    args.extend(self.ev(a.value, env))
                else:
                    args.append(self.ev(a, env))
            kw = {}
            for k in e.keywords:
                if k.arg is None:
                    kw.update(self.ev(k.value, env))
                else:
                    kw[k.arg] = self.ev(k.value, env)
            if f is print or getattr(f, '__name__', '') == 'warn' and getattr(f, '__module__', '') == '_warnings':
                return None
            return self.call(f, args, kw)
        if isinstance(e, ast.JoinedStr):
            if len(e.values) == 1 and isinstance(e.values[0], ast.FormattedValue) and e.values[0].conversion == -1:
                v0 = e.values[0]
                val = self.ev(v0.value, env)
                spec = self.ev(v0.format_spec, env) if v0.format_spec else ''
                if (is_sym(val) or isinstance(val, NumStr)) and isinstance(spec, str):
                    import re as _re
                    m_ = _re.fullmatch(r'\.(\d+)[eE]', spec)
                    if m_ and int(m_.group(1)) >= 14:
                        return NumStr(to_real(val))
            parts = []
            for v in e.values:
                if isinstance(v, ast.Constant):
                    parts.append(str(v.value))
                else:
                    val = self.ev(v.value, env)
                    if anysym(val):
                        parts.append('<sym>')
                    else:
                        try:
                            conv = {-1: lambda x: x, 115: str, 114: repr, 97: ascii}[v.conversion](val)
                            spec = self.ev(v.format_spec, env) if v.format_spec else ''
                            parts.append(format(conv, spec))
                        except Exception as exc:
                            raise Raised(exc) from None
            return ''.join(parts)
        if isinstance(e, (ast.ListComp, ast.GeneratorExp, ast.SetComp)):
            out = []
            self.comp(e.generators, 0, dict(env), lambda env2: out.append(self.ev(e.elt, env2)))
            if isinstance(e, ast.SetComp):
                if anysym(out):
                    return SymSet(out)
                return set(out)
            # a generator with symbolic items is handed over as an iterator the engine can look into (anysym)
            return out if isinstance(e, ast.ListComp) else (SymIter(out) if anysym(out) else iter(out))
        if isinstance(e, ast.DictComp):
            out = {}

            def put(env2):
                k = self.ev(e.key, env2)
                if anysym(k):
                    raise OutsideSubset('dict comprehension with symbolic key')
                out[k] = self.ev(e.value, env2)
            self.comp(e.generators, 0, dict(env), put)
            return out
        if isinstance(e, ast.Lambda):
            return Closure(self, e, env)
        if isinstance(e, ast.Starred):
            raise OutsideSubset('starred expression')
        if isinstance(e, ast.NamedExpr):
            v = self.ev(e.value, env)
            self.assign(e.target, v, env)
            return v
        if isinstance(e, ast.Yield):
            env['__yield__'].append(self.ev(e.value, env) if e.value else None)
            return None
        if isinstance(e, ast.YieldFrom):
            env['__yield__'].extend(list(self.ev(e.value, env)))
            return None
        raise OutsideSubset(f'expression {type(e).__name__}')

    def comp(self, gens, gi, env, emit):
        if gi == len(gens):
            emit(env)
            return
        g = gens[gi]
        for item in list(self.ev(g.iter, env)):
            env2 = dict(env)
            self.assign(g.target, item, env2)
            if all(self.truth(self.ev(c, env2)) for c in g.ifs):
                self.comp(gens, gi + 1, env2, emit)


def _is_generator(node):
    for n in ast.walk(node):
        if isinstance(n, (ast.Yield, ast.YieldFrom)):
            # yields inside nested defs/lambdas do not count
            return _owns(node, n)
    return False


def _owns(fn, target):
    stack = list(fn.body) if not isinstance(fn, ast.Lambda) else [fn.body]
    while stack:
        n = stack.pop()
        if n is target:
            return True
        if isinstance(n, (ast.FunctionDef, ast.Lambda, ast.AsyncFunctionDef)):
            continue
        stack.extend(ast.iter_child_nodes(n))
    return False


def _as_load(t):
    t2 = ast.parse(ast.unparse(t), mode='eval').body
    return t2


def _hashable(f):
    try:
        hash(f)
        return True
    except TypeError:
        return False


# ---- math models ------------------------------------------------------------

def _unary_uf(name):
    fn = z3.Function(name, z3.RealSort(), z3.RealSort())

    def model(x):
        t = lift(x)
        if z3.is_int(t):
            t = z3.ToReal(t)
        r = fn(t)
        if CTX.path is not None:
            CTX.path.defs.append(('fn', name, r, t))
        return Sym(r)
    model.uf = fn
    return model


UF = {n: _unary_uf(n) for n in ('atan', 'tan', 'cos', 'sin', 'acos')}
PI_SYM = None


def _radians(x):
    return x * (math.pi / 180.0)


def _fabs(x):
    return abs(to_real(x))


def _isclose(a, b, rel_tol=1e-09, abs_tol=0.0):
    d = abs(a - b)
    m1 = abs(a) * rel_tol
    m2 = abs(b) * rel_tol
    return Or(d <= m1, d <= m2, d <= abs_tol)


MATH_MODELS.update({
    math.sqrt: sym_sqrt, np.sqrt: sym_sqrt, math.atan: UF['atan'], math.tan: UF['tan'], math.cos: UF['cos'],
    math.sin: UF['sin'], math.acos: UF['acos'], math.radians: _radians, math.fabs: _fabs, math.isclose: _isclose,
    math.fsum: lambda xs: sum(xs),
})


def havoc(name, shape, assume=None, requires=None, define=None):
    """Hook replacing a callee by (part of) its contract at the call site: the result is a fresh value built by
    `shape(fresh, *args, **kw)`; `requires(*args)` becomes an obligation of the caller and `assume(result, *args)`
    (facts from the callee's proved postcondition) a hypothesis.  Every application is recorded in path.calls."""
    def hook(it, f, args, kw):
        n = len(it.p.calls)

        def fresh(base='r', sort='real'):
            return Sym(CTX.fresh(f'{name}#{n}.{base}', sort))
        if requires is not None:
            it.p.oblige(f'callee-precondition:{name}', _b(requires(*args, **kw)))
        res = shape(fresh, *args, **kw)
        if assume is not None:
            for fact in assume(res, *args, **kw):
                it.p.extra.append(_b(fact))
        if define is not None:
            for fact in define(res, *args, **kw):
                it.p.call_defs.append(_b(fact))
        it.p.calls.append({'callee': name, 'args': list(args), 'kw': dict(kw), 'result': res})
        return res
    hook.callee_name = name
    return hook


def explore(run, max_paths=1500, parent=None):
    """Enumerate the paths of `run(interp)` by re-execution with decision prefixes.
    Returns a list of (Path, outcome) with outcome = ('ret', value) | ('raise', exc) | ('outside', msg)."""
    todo = [[]]
    out = []
    while todo:
        dec = todo.pop()
        p = Path(dec)
        p.parent = parent
        CTX.path = p
        it = Interp(p)
        try:
            try:
                res = ('ret', run(it))
            except Raised as r:
                res = ('raise', r.exc)
            except OutsideSubset as o:
                res = ('outside', str(o))
            except SymbolicTruthError as o:
                res = ('outside', 'native code needed a symbolic truth value: ' + str(o))
        finally:
            CTX.path = None
        out.append((p, res))
        if len(out) > max_paths:
            raise OutsideSubset(f'more than {max_paths} paths')
        for j in range(len(dec), len(p.decisions)):
            todo.append(p.decisions[:j] + [False])
    return out
