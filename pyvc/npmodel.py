"""Model of the NumPy subset used by t4_geom_convert (DESIGN A6, trusted, cross-checked
against NumPy by `pyvc.selftest`).  A `SymArray` is a dense array of Python/Sym scalars
with a concrete shape; every operation is the mathematical one."""
import itertools
import numpy as np
from .sym import Sym, is_sym, And, sym_div, sabs, lift


def _shape(data):
    if isinstance(data, (list, tuple)):
        if not data:
            return (0,)
        return (len(data),) + _shape(data[0])
    return ()


def _flatten(data):
    if isinstance(data, (list, tuple)):
        out = []
        for d in data:
            out.extend(_flatten(d))
        return out
    return [data]


def _unflatten(flat, shape):
    if not shape:
        return flat[0]
    if len(shape) == 1:
        return list(flat)
    step = 1
    for s in shape[1:]:
        step *= s
    return [_unflatten(flat[i * step:(i + 1) * step], shape[1:]) for i in range(shape[0])]


class SymArray:
    __array_priority__ = 1000
    __array_ufunc__ = None

    def __init__(self, flat, shape):
        self.f = list(flat)
        self.shape = tuple(shape)
        n = 1
        for s in self.shape:
            n *= s
        assert n == len(self.f), (shape, len(self.f))

    @classmethod
    def of(cls, obj):
        if isinstance(obj, SymArray):
            return obj
        if isinstance(obj, np.ndarray):
            return cls([x.item() if hasattr(x, 'item') else x for x in obj.ravel().tolist()] if obj.dtype != object
                       else list(obj.ravel()), obj.shape)
        if isinstance(obj, (list, tuple)):
            obj2 = [o.tolist() if isinstance(o, SymArray) else (o.tolist() if isinstance(o, np.ndarray) else o)
                    for o in obj]
            obj2 = [list(o) if isinstance(o, tuple) else o for o in obj2]
            return cls(_flatten(obj2), _shape(obj2))
        return cls([obj], ())

    def tolist(self):
        return _unflatten(self.f, self.shape)

    @property
    def ndim(self):
        return len(self.shape)

    @property
    def T(self):
        if self.ndim < 2:
            return self
        r, c = self.shape
        return SymArray([self.f[i * c + j] for j in range(c) for i in range(r)], (c, r))

    @property
    def flat(self):
        return iter(list(self.f))

    def ravel(self):
        return SymArray(self.f, (len(self.f),))

    def flatten(self, order='C'):
        assert order == 'C'
        return self.ravel()

    def reshape(self, *shape):
        if len(shape) == 1 and isinstance(shape[0], (tuple, list)):
            shape = tuple(shape[0])
        return SymArray(self.f, shape)

    def item(self, *idx):
        if len(idx) == 1 and isinstance(idx[0], tuple):
            idx = idx[0]
        return self[tuple(idx)] if len(idx) > 1 else self[idx[0]]

    def copy(self):
        return SymArray(self.f, self.shape)

    def __len__(self):
        return self.shape[0]

    def __iter__(self):
        if self.ndim == 1:
            return iter(list(self.f))
        step = len(self.f) // self.shape[0]
        return iter([SymArray(self.f[i * step:(i + 1) * step], self.shape[1:]) for i in range(self.shape[0])])

    def __getitem__(self, idx):
        nested = np.empty(self.shape, dtype=object)
        flat_idx = np.arange(len(self.f)).reshape(self.shape) if self.shape else np.array(0)
        sel = flat_idx[idx]
        if isinstance(sel, np.ndarray):
            return SymArray([self.f[i] for i in sel.ravel().tolist()], sel.shape)
        return self.f[int(sel)]

    def __setitem__(self, idx, val):
        flat_idx = np.arange(len(self.f)).reshape(self.shape)
        sel = flat_idx[idx]
        if isinstance(sel, np.ndarray):
            vals = SymArray.of(val).f
            ids = sel.ravel().tolist()
            if len(vals) == 1:
                vals = vals * len(ids)
            assert len(vals) == len(ids)
            for i, v in zip(ids, vals):
                self.f[i] = v
        else:
            self.f[int(sel)] = val

    # element-wise arithmetic with broadcasting of scalars and equal shapes
    def _ew(self, o, fn):
        if isinstance(o, (SymArray, np.ndarray, list, tuple)):
            o = SymArray.of(o)
            if o.shape == self.shape:
                return SymArray([fn(a, b) for a, b in zip(self.f, o.f)], self.shape)
            if o.shape == ():
                return SymArray([fn(a, o.f[0]) for a in self.f], self.shape)
            if self.ndim == 2 and o.ndim == 1 and o.shape[0] == self.shape[1]:
                c = self.shape[1]
                return SymArray([fn(a, o.f[i % c]) for i, a in enumerate(self.f)], self.shape)
            raise NotImplementedError(f'broadcast {self.shape} with {o.shape}')
        return SymArray([fn(a, o) for a in self.f], self.shape)

    def __add__(self, o):
        return self._ew(o, lambda a, b: a + b)

    def __radd__(self, o):
        return self._ew(o, lambda a, b: b + a)

    def __sub__(self, o):
        return self._ew(o, lambda a, b: a - b)

    def __rsub__(self, o):
        return self._ew(o, lambda a, b: b - a)

    def __mul__(self, o):
        return self._ew(o, lambda a, b: a * b)

    def __rmul__(self, o):
        return self._ew(o, lambda a, b: b * a)

    def __truediv__(self, o):
        return self._ew(o, lambda a, b: sym_div(a, b))

    def __neg__(self):
        return SymArray([-a for a in self.f], self.shape)

    def __eq__(self, o):
        return self._ew(o, lambda a, b: a == b)

    __hash__ = object.__hash__

    def __matmul__(self, o):
        return matmul(self, o)

    def __rmatmul__(self, o):
        return matmul(o, self)

    def dot(self, o):
        return matmul(self, o)

    def __repr__(self):
        return f'SymArray(shape={self.shape})'


def has_sym(obj, _depth=0):
    if is_sym(obj) or isinstance(obj, SymArray):
        return True
    if isinstance(obj, (list, tuple)) and _depth < 6:
        return any(has_sym(o, _depth + 1) for o in obj)
    return False


def matmul(a, b):
    a, b = SymArray.of(a), SymArray.of(b)
    if a.ndim == 2 and b.ndim == 2:
        n, k = a.shape
        k2, m = b.shape
        assert k == k2
        return SymArray([_sum(a.f[i * k + l] * b.f[l * m + j] for l in range(k))
                         for i in range(n) for j in range(m)], (n, m))
    if a.ndim == 2 and b.ndim == 1:
        n, k = a.shape
        assert k == b.shape[0]
        return SymArray([_sum(a.f[i * k + l] * b.f[l] for l in range(k)) for i in range(n)], (n,))
    if a.ndim == 1 and b.ndim == 2:
        k, m = b.shape
        assert k == a.shape[0]
        return SymArray([_sum(a.f[l] * b.f[l * m + j] for l in range(k)) for j in range(m)], (m,))
    if a.ndim == 1 and b.ndim == 1:
        assert a.shape == b.shape
        return _sum(x * y for x, y in zip(a.f, b.f))
    raise NotImplementedError((a.shape, b.shape))


def _sum(it):
    it = list(it)
    r = it[0]
    for x in it[1:]:
        r = r + x
    return r


def np_array(obj, *a, **k):
    return SymArray.of(obj)


def np_abs(x):
    if isinstance(x, (SymArray, list, tuple, np.ndarray)):
        x = SymArray.of(x)
        return SymArray([sabs(v) for v in x.f], x.shape)
    return sabs(x)


def np_allclose(a, b, rtol=1e-05, atol=1e-08):
    a, b = SymArray.of(a), SymArray.of(b)
    if b.shape == () and a.shape != ():
        b = SymArray(b.f * len(a.f), a.shape)
    assert a.shape == b.shape, (a.shape, b.shape)
    return And(*[sabs(x - y) <= atol + rtol * sabs(y) for x, y in zip(a.f, b.f)])


def np_all(x):
    x = SymArray.of(x)
    return And(*x.f)


def np_roll(a, shift, axis=None):
    a = SymArray.of(a)
    idx = np.arange(len(a.f)).reshape(a.shape)
    sel = np.roll(idx, shift=shift, axis=axis)
    return SymArray([a.f[i] for i in sel.ravel().tolist()], a.shape)


def np_dot(a, b):
    return matmul(a, b)


MODELS = {
    np.array: np_array, np.asarray: np_array, np.abs: np_abs, np.absolute: np_abs, np.allclose: np_allclose,
    np.all: np_all, np.roll: np_roll, np.dot: np_dot, np.matmul: matmul,
}
