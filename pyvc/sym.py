"""Symbolic values for pyvc.

`Sym` wraps a z3 term (Real, Int or Bool sort).  It overloads the Python
operators so that *contract* code (plain Python, run natively) can combine
symbolic and concrete numbers with the same text; the interpreter of
`interp.py` uses the same primitives when it walks the AST of the real code.

Semantics assumed (DESIGN A1-A3): float == mathematical real, int == Z,
`x / y` is a fresh q with q*y == x (side obligation y != 0), `sqrt(e)` is a
fresh s with s >= 0, s*s == e (side obligation e >= 0).  Side conditions are
collected on the *current path* (`CTX.path`), which `interp.explore` installs.
"""
import z3
from fractions import Fraction


class SymbolicTruthError(Exception):
    """A symbolic value was used as a Python truth value in native code."""


class _Ctx:
    path = None          # current interp.Path (collects extra / obligations / fresh names)
    counter = 0

    def fresh(self, base, sort='real'):
        self.counter += 1
        name = f'{base}!{self.counter}'
        if sort == 'real':
            return z3.Real(name)
        if sort == 'int':
            return z3.Int(name)
        if sort == 'bool':
            return z3.Bool(name)
        raise ValueError(sort)


CTX = _Ctx()


def is_sym(v):
    return isinstance(v, Sym)


def lift(v, like=None):
    """Python number / Sym -> z3 term."""
    if isinstance(v, Sym):
        return v.t
    if isinstance(v, bool):
        return z3.BoolVal(v)
    if isinstance(v, int):
        return z3.IntVal(v)
    if isinstance(v, float):
        if v != v or v in (float('inf'), float('-inf')):
            raise ValueError('non-finite float in symbolic arithmetic')
        fr = Fraction(v)          # exact value of the double
        return z3.RealVal(f'{fr.numerator}/{fr.denominator}')
    if isinstance(v, Fraction):
        return z3.RealVal(f'{v.numerator}/{v.denominator}')
    if z3.is_expr(v):
        return v
    try:
        import numpy as np
        if isinstance(v, np.floating):
            return lift(float(v))
        if isinstance(v, np.integer):
            return lift(int(v))
    except ImportError:
        pass
    raise TypeError(f'cannot lift {type(v).__name__}: {v!r}')


def _num2(a, b):
    x, y = lift(a), lift(b)
    if z3.is_bool(x):
        x = z3.If(x, z3.IntVal(1), z3.IntVal(0))
    if z3.is_bool(y):
        y = z3.If(y, z3.IntVal(1), z3.IntVal(0))
    if z3.is_int(x) and z3.is_real(y):
        x = z3.ToReal(x)
    if z3.is_real(x) and z3.is_int(y):
        y = z3.ToReal(y)
    return x, y


def _simp(t):
    return z3.simplify(t, som=False)


class Sym:
    __slots__ = ('t',)

    def __init__(self, t):
        self.t = t

    def __repr__(self):
        s = str(self.t)
        return f'Sym({s if len(s) < 80 else s[:77] + "..."})'

    # a Sym is never silently coerced
    def __bool__(self):
        if z3.is_bool(self.t):
            st = _simp(self.t)
            if z3.is_true(st):
                return True
            if z3.is_false(st):
                return False
        raise SymbolicTruthError(f'symbolic truth value used natively: {self!r}')

    __hash__ = object.__hash__

    def is_bool(self):
        return z3.is_bool(self.t)

    def is_int(self):
        return z3.is_int(self.t)

    # arithmetic -------------------------------------------------------
    def __add__(self, o):
        if isinstance(o, (list, tuple, str)):
            return NotImplemented
        x, y = _num2(self, o)
        return Sym(x + y)

    def __radd__(self, o):
        x, y = _num2(o, self)
        return Sym(x + y)

    def __sub__(self, o):
        x, y = _num2(self, o)
        return Sym(x - y)

    def __rsub__(self, o):
        x, y = _num2(o, self)
        return Sym(x - y)

    def __mul__(self, o):
        if isinstance(o, (list, tuple, str)):
            return NotImplemented
        x, y = _num2(self, o)
        return Sym(x * y)

    def __rmul__(self, o):
        if isinstance(o, (list, tuple, str)):
            return NotImplemented
        x, y = _num2(o, self)
        return Sym(x * y)

    def __neg__(self):
        return Sym(-lift(self))

    def __pos__(self):
        return self

    def __abs__(self):
        x = lift(self)
        if CTX.path is None or z3.is_int(x):
            return Sym(z3.If(x >= 0, x, -x))
        # |x| as a fresh a >= 0 with a*a == x*x (keeps the defining equations polynomial for the ideal back end)
        a = CTX.fresh('abs')
        CTX.path.extra += [a >= 0, a * a == x * x, z3.Or(a == x, a == -x)]
        CTX.path.defs.append(('abs', a, x))
        return Sym(a)

    def __truediv__(self, o):
        return sym_div(self, o)

    def __rtruediv__(self, o):
        return sym_div(o, self)

    def __floordiv__(self, o):
        x, y = _num2(self, o)
        if z3.is_int(x) and z3.is_int(y):
            # Python floor division; z3 div is Euclidean: equal for y > 0
            _oblige('floordiv-divisor>0 (engine models // only for positive divisors)', y > 0)
            return Sym(x / y)
        raise NotImplementedError('// on reals')

    def __mod__(self, o):
        x, y = _num2(self, o)
        if z3.is_int(x) and z3.is_int(y):
            _oblige('mod-divisor>0 (engine models % only for positive divisors)', y > 0)
            return Sym(x % y)
        raise NotImplementedError('% on reals')

    def __pow__(self, o):
        return sym_pow(self, o)

    def __rpow__(self, o):
        raise NotImplementedError('symbolic exponent')

    # comparisons --------------------------------------------------------
    def _cmp(self, o, op):
        if o is None or isinstance(o, (str, tuple, list)):
            if op == 'eq':
                return False
            if op == 'ne':
                return True
            raise TypeError('ordering Sym with non-number')
        if z3.is_bool(self.t) or isinstance(o, bool) or (is_sym(o) and z3.is_bool(o.t)):
            x, y = lift(self), lift(o)
            if z3.is_bool(x) and z3.is_bool(y):
                return Sym(x == y) if op == 'eq' else Sym(x != y)
        x, y = _num2(self, o)
        return Sym({'eq': x == y, 'ne': x != y, 'lt': x < y, 'le': x <= y,
                    'gt': x > y, 'ge': x >= y}[op])

    def __eq__(self, o):
        return self._cmp(o, 'eq')

    def __ne__(self, o):
        return self._cmp(o, 'ne')

    def __lt__(self, o):
        return self._cmp(o, 'lt')

    def __le__(self, o):
        return self._cmp(o, 'le')

    def __gt__(self, o):
        return self._cmp(o, 'gt')

    def __ge__(self, o):
        return self._cmp(o, 'ge')

    # boolean connectives for contract code
    def __and__(self, o):
        return And(self, o)

    def __rand__(self, o):
        return And(o, self)

    def __or__(self, o):
        return Or(self, o)

    def __ror__(self, o):
        return Or(o, self)

    def __invert__(self):
        return Not(self)

    def __float__(self):
        raise SymbolicTruthError('float() of a symbolic value in native code')

    def __int__(self):
        raise SymbolicTruthError('int() of a symbolic value in native code')

    def __index__(self):
        raise SymbolicTruthError('symbolic value used as an index in native code')


def _oblige(label, cond):
    if CTX.path is None:
        raise RuntimeError('symbolic side condition outside a path: ' + label)
    CTX.path.oblige(label, cond)


def _assume(cond):
    if CTX.path is None:
        raise RuntimeError('symbolic definition outside a path')
    CTX.path.extra.append(cond)


def _canon(t):
    """Canonical text of a polynomial term (sum of monomials, sorted) -- only used as a memo key, so that the code
    and the specification share one fresh symbol for the same square root / quotient / absolute value."""
    try:
        return z3.simplify(t, som=True, sort_sums=True, mul_to_power=True).sexpr()
    except z3.Z3Exception:
        return _simp(t).sexpr()


def sym_div(a, b):
    if not is_sym(a) and not is_sym(b):
        return a / b
    x, y = _num2(a, b)
    if z3.is_int(x):
        x = z3.ToReal(x)
    if z3.is_int(y):
        y = z3.ToReal(y)
    ys = _simp(y)
    if z3.is_rational_value(ys):
        if ys.numerator_as_long() == 0:
            raise ZeroDivisionError('float division by zero')
        return Sym(x / ys)
    key = ('div', _canon(x), _canon(ys))
    known = CTX.path.lookup_def(key) if CTX.path is not None else None
    if known is not None:
        return Sym(known)
    _oblige('division: denominator != 0', y != 0)
    q = CTX.fresh('q')
    _assume(q * y == x)
    CTX.path.defs.append(('div', q, x, y))
    CTX.path.memo[key] = q
    return Sym(q)


def sym_sqrt(a):
    if not is_sym(a):
        import math
        return math.sqrt(a)
    x = lift(a)
    if z3.is_int(x):
        x = z3.ToReal(x)
    key = ('sqrt', _canon(x))
    known = CTX.path.lookup_def(key) if CTX.path is not None else None
    if known is not None:
        return Sym(known)
    _oblige('sqrt: radicand >= 0', x >= 0)
    s = CTX.fresh('sqrt')
    _assume(s >= 0)
    _assume(s * s == x)
    CTX.path.defs.append(('sqrt', s, x))
    CTX.path.memo[key] = s
    return Sym(s)


def sym_pow(a, b):
    if not is_sym(a) and not is_sym(b):
        return a ** b
    if is_sym(b):
        raise NotImplementedError('symbolic exponent')
    if isinstance(b, int) and not isinstance(b, bool) and b >= 0:
        x = lift(a)
        r = z3.RealVal(1) if z3.is_real(x) else z3.IntVal(1)
        for _ in range(b):
            r = r * x
        return Sym(r)
    if isinstance(b, float) and b == int(b) and b >= 0:
        return sym_pow(a * 1.0, int(b))
    if b == 0.5:
        return sym_sqrt(a)
    if isinstance(b, int) and b < 0:
        return sym_div(1.0, sym_pow(a, -b))
    raise NotImplementedError(f'power {b!r}')


# -------- connectives usable on symbolic and concrete operands -------------

def _b(v):
    if isinstance(v, Sym):
        if not z3.is_bool(v.t):
            raise TypeError(f'not a boolean: {v!r}')
        return v.t
    if z3.is_expr(v):
        return v
    return z3.BoolVal(bool(v))


def _all_concrete(vs):
    return not any(isinstance(v, Sym) or z3.is_expr(v) for v in vs)


def And(*vs):
    vs = _flat(vs)
    if _all_concrete(vs):
        return all(vs)
    return Sym(z3.And(*[_b(v) for v in vs]))


def Or(*vs):
    vs = _flat(vs)
    if _all_concrete(vs):
        return any(vs)
    return Sym(z3.Or(*[_b(v) for v in vs]))


def Not(v):
    if _all_concrete([v]):
        return not v
    return Sym(z3.Not(_b(v)))


def implies(a, b):
    if _all_concrete([a, b]):
        return (not a) or bool(b)
    return Sym(z3.Implies(_b(a), _b(b)))


def iff(a, b):
    if _all_concrete([a, b]):
        return bool(a) == bool(b)
    return Sym(_b(a) == _b(b))


def ite(c, a, b):
    if not is_sym(c):
        return a if c else b
    if a is None or b is None or isinstance(a, (str, tuple, list)) or isinstance(b, (str, tuple, list)):
        raise TypeError('ite over non-numeric values')
    if (is_sym(a) and a.is_bool()) or isinstance(a, bool):
        return Sym(z3.If(_b(c), _b(a), _b(b)))
    x, y = _num2(a, b)
    return Sym(z3.If(_b(c), x, y))


def _flat(vs):
    out = []
    for v in vs:
        if isinstance(v, (list, tuple)) or hasattr(v, '__next__'):
            out.extend(_flat(list(v)))
        else:
            out.append(v)
    return out


def sabs(v):
    return abs(v)


class NumStr(str):
    """Opaque spelling of a real number: a string whose only observable content is the number it spells.
    float(NumStr) is its value; a float formatted with >= 15 significant digits (f'{x:.15e}') is modelled as a
    NumStr of the same value (assumption A-fmt: the relative rounding 5e-16 of the formatting is ignored)."""
    _n = 0

    def __new__(cls, value):
        NumStr._n += 1
        o = super().__new__(cls, f'<number#{NumStr._n}>')
        o.value = value
        return o


def to_real(v):
    if isinstance(v, NumStr):
        return to_real(v.value)
    if is_sym(v) and z3.is_int(v.t):
        return Sym(z3.ToReal(v.t))
    if isinstance(v, int) and not isinstance(v, bool):
        return float(v)
    return v


def py_int(v):
    """Python int(x): truncation toward zero."""
    if not is_sym(v):
        return int(v)
    if z3.is_int(v.t):
        return v
    x = v.t
    return Sym(z3.If(x >= 0, z3.ToInt(x), -z3.ToInt(-x)))


class Ident:
    """Goal `lhs == rhs` meant as a polynomial identity modulo the path's
    equational hypotheses; routed to the ideal-membership back end first."""

    def __init__(self, lhs, rhs, when=None):
        self.when = None if when is None else _b(when)
        self.lhs = lift(lhs)
        self.rhs = lift(rhs)
        if z3.is_int(self.lhs):
            self.lhs = z3.ToReal(self.lhs)
        if z3.is_int(self.rhs):
            self.rhs = z3.ToReal(self.rhs)

    def formula(self):
        if self.when is not None:
            return z3.Implies(self.when, self.lhs == self.rhs)
        return self.lhs == self.rhs


def ident(lhs, rhs, when=None):
    """lhs == rhs as a polynomial identity (optionally only under the condition `when`)."""
    if not is_sym(lhs) and not is_sym(rhs) and not is_sym(when):
        if when is not None and not when:
            return True
        return abs(lhs - rhs) <= 1e-7 * max(1.0, abs(lhs), abs(rhs))
    return Ident(lhs, rhs, when)
