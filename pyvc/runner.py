"""Process-per-unit scheduler with hard deadlines (a stuck solver call can only lose its own unit)."""
import multiprocessing as mp
import os
import time
import traceback


def _child(conn, fn, args):
    try:
        conn.send(('ok', fn(*args)))
    except BaseException as exc:      # noqa
        conn.send(('err', ''.join(traceback.format_exception(type(exc), exc, exc.__traceback__))[-3000:]))
    finally:
        conn.close()


def run_units(units, fn, nproc=None, unit_timeout=120, on_result=None):
    """units: list of (key, args).  Returns {key: ('ok', result) | ('err', text) | ('timeout', None)}."""
    nproc = nproc or min(16, os.cpu_count() or 4)
    ctx = mp.get_context('fork')
    pending = list(units)
    running = {}
    results = {}
    while pending or running:
        while pending and len(running) < nproc:
            key, args = pending.pop(0)
            parent, child = ctx.Pipe(duplex=False)
            pr = ctx.Process(target=_child, args=(child, fn, args), daemon=True)
            pr.start()
            child.close()
            running[key] = (pr, parent, time.time())
        done = []
        for key, (pr, conn, t0) in running.items():
            if conn.poll(0):
                try:
                    results[key] = conn.recv()
                except EOFError:
                    results[key] = ('err', 'worker died without a result')
                pr.join(5)
                done.append(key)
            elif not pr.is_alive():
                # the worker may have sent its result and exited between the two tests above: look once more
                if conn.poll(0.2):
                    try:
                        results[key] = conn.recv()
                    except EOFError:
                        results[key] = ('err', 'worker died without a result')
                else:
                    results[key] = ('err', f'worker exited with code {pr.exitcode}')
                done.append(key)
            elif time.time() - t0 > unit_timeout:
                pr.kill()
                pr.join(5)
                results[key] = ('timeout', None)
                done.append(key)
        for key in done:
            running.pop(key)[1].close()
            if on_result:
                on_result(key, results[key])
        if not done:
            time.sleep(0.02)
    return results
