"""pyvc: verification-condition generator for the real t4_geom_convert sources (see /verif/DESIGN.md §3)."""
