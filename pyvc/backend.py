"""Back ends: z3 (Python API), cvc5 (CLI on the SMT-LIB dump of the same query) and
ideal membership (sympy Groebner bases) for polynomial identities modulo equational hypotheses.

Verdicts: 'unsat' (obligation discharged), 'sat' (counter-model returned), 'unknown'.
Every call has a time budget; nothing runs without one.
"""
import os
import subprocess
import tempfile
import time
from fractions import Fraction

import z3

CVC5 = '/usr/bin/cvc5'


def axioms_for(terms):
    """Instances of the trigonometric axioms of DESIGN A3 for the applications occurring in `terms`:
    tan(atan t) = t;  cos(x)^2 + sin(x)^2 = 1.  Explicit instances, no quantifiers."""
    from .interp import UF
    apps = {}

    def walk(t, seen):
        if t.get_id() in seen:
            return
        seen.add(t.get_id())
        if z3.is_app(t) and t.decl().kind() == z3.Z3_OP_UNINTERPRETED and t.num_args() == 1:
            apps.setdefault(t.decl().name(), {})[t.get_id()] = t
        for c in t.children():
            walk(c, seen)
    seen = set()
    for t in terms:
        walk(t, seen)
    ax = []
    tan, atan, cos, sin = (UF[n].uf for n in ('tan', 'atan', 'cos', 'sin'))
    for t in apps.get('atan', {}).values():
        ax.append(tan(t) == t.arg(0))
    args = {}
    for name in ('cos', 'sin'):
        for t in apps.get(name, {}).values():
            args[t.arg(0).get_id()] = t.arg(0)
    import math as _m
    from fractions import Fraction as _F
    s3 = z3.Real('sqrt3!const')
    special = {_F(_m.pi / 3.): ((1, 2), +1), _F(2. * _m.pi / 3.): ((-1, 2), +1)}      # cos = +-1/2, sin = sqrt(3)/2
    for a in args.values():
        ax.append(cos(a) * cos(a) + sin(a) * sin(a) == 1)
        if z3.is_rational_value(a):
            fr = _F(a.numerator_as_long(), a.denominator_as_long())
            if fr in special:
                (cn, cd), _ = special[fr]
                # the double nearest to pi/3 (2pi/3) is read as the exact angle (A3)
                ax += [cos(a) == z3.RealVal(f'{cn}/{cd}'), sin(a) == s3 / 2, s3 > 0, s3 * s3 == 3]
    return ax


def _has_kind(terms, pred):
    seen = set()
    stack = list(terms)
    while stack:
        t = stack.pop()
        if t.get_id() in seen:
            continue
        seen.add(t.get_id())
        if pred(t):
            return True
        if z3.is_quantifier(t):
            return True
        stack.extend(t.children())
    return False


def abstract_uf(terms):
    """Replace every application of an uninterpreted function by a fresh real constant (keyed by the
    simplified argument).  This only forgets congruence, so `unsat` of the abstraction is `unsat` of the
    original; a model of the abstraction is only a candidate (replayed natively before it is believed)."""
    table = {}
    subs = []

    def collect(t, seen):
        if t.get_id() in seen:
            return
        seen.add(t.get_id())
        for c in t.children():
            collect(c, seen)
        if z3.is_app(t) and t.decl().kind() == z3.Z3_OP_UNINTERPRETED and t.num_args() > 0 and z3.is_real(t):
            key = t.sexpr()
            if key not in table:
                table[key] = z3.Real(f'uf!{len(table)}!{t.decl().name()}')
                subs.append((t, table[key]))
    terms = [z3.simplify(t, som=False) for t in terms]
    seen = set()
    for t in terms:
        collect(t, seen)
    if not subs:
        return terms
    # innermost applications were collected first; substitute outermost first so that nested ones resolve
    out = terms
    for pair in reversed(subs):
        out = [z3.substitute(t, pair) for t in out]
    return out


def nlsat_check(hyps, neg_goal, timeout_s):
    """Pure QF_NRA route (z3's nlsat tactic) on the UF-abstracted query; 'unknown' when not applicable."""
    terms = abstract_uf(list(hyps) + [neg_goal])
    if _has_kind(terms, lambda t: z3.is_int(t) and not z3.is_int_value(t) or
                 (z3.is_app(t) and t.decl().kind() == z3.Z3_OP_UNINTERPRETED and t.num_args() > 0)):
        return 'unknown', None, 0.0, None
    s = z3.Tactic('qfnra-nlsat').solver()
    s.set('timeout', int(timeout_s * 1000))
    for t in terms:
        s.add(t)
    import threading
    wd = threading.Timer(timeout_s + 2.0, lambda: z3.main_ctx().interrupt())
    wd.daemon = True
    wd.start()
    t0 = time.time()
    try:
        r = s.check()
    except z3.Z3Exception:
        r = z3.unknown
    finally:
        wd.cancel()
    dt = time.time() - t0
    if r == z3.unsat:
        return 'unsat', None, dt, s
    if r == z3.sat:
        return 'sat', s.model(), dt, s
    return 'unknown', None, dt, s


def check(hyps, neg_goal, timeout_s, want_model=True):
    """Portfolio: nlsat on the abstraction, then z3's default solver.  Returns (verdict, model, seconds, solver, who)."""
    v, m, dt, s = nlsat_check(hyps, neg_goal, max(1.0, timeout_s / 2))
    if v == 'unsat':
        return v, m, dt, s, 'z3-nlsat'
    v2, m2, dt2, s2 = z3_check(hyps, neg_goal, timeout_s, want_model)
    if v2 != 'unknown':
        return v2, m2, dt + dt2, s2, 'z3'
    if v == 'sat':
        return v, m, dt + dt2, s2, 'z3-nlsat(abstracted)'
    return v2, m2, dt + dt2, s2, 'z3'


def z3_check(hyps, neg_goal, timeout_s, want_model=True):
    s = z3.Solver()
    s.set('timeout', int(timeout_s * 1000))
    for h in hyps:
        s.add(h)
    s.add(neg_goal)
    t0 = time.time()
    # z3's own timeout is not always honoured inside nlsat: a watchdog interrupts the context
    import threading
    wd = threading.Timer(timeout_s + 2.0, lambda: z3.main_ctx().interrupt())
    wd.daemon = True
    wd.start()
    try:
        r = s.check()
    except z3.Z3Exception:
        r = z3.unknown
    finally:
        wd.cancel()
    dt = time.time() - t0
    if r == z3.unsat:
        return 'unsat', None, dt, s
    if r == z3.sat:
        return 'sat', (s.model() if want_model else None), dt, s
    return 'unknown', None, dt, s


def cvc5_check(solver, timeout_s):
    """Run /usr/bin/cvc5 on the SMT-LIB dump of a z3 solver.  Returns 'unsat' | 'sat' | 'unknown'."""
    if not os.path.exists(CVC5):
        return 'unknown', 0.0
    smt = '(set-logic ALL)\n' + solver.to_smt2()
    t0 = time.time()
    with tempfile.NamedTemporaryFile('w', suffix='.smt2', delete=False, dir=os.environ.get('TMPDIR')) as f:
        f.write(smt)
        name = f.name
    try:
        out = subprocess.run([CVC5, '--lang', 'smt2', f'--tlimit={int(timeout_s * 1000)}', name],
                             capture_output=True, text=True, timeout=timeout_s + 5)
        first = (out.stdout.strip().splitlines() or ['unknown'])[0].strip()
    except subprocess.TimeoutExpired:
        first = 'unknown'
    finally:
        os.unlink(name)
    if first not in ('sat', 'unsat'):
        first = 'unknown'
    return first, time.time() - t0


def model_value(model, term):
    v = model.eval(term, model_completion=True)
    if z3.is_rational_value(v):
        return Fraction(v.numerator_as_long(), v.denominator_as_long())
    if z3.is_int_value(v):
        return v.as_long()
    if z3.is_algebraic_value(v):
        a = v.approx(20)
        return Fraction(a.numerator_as_long(), a.denominator_as_long())
    if z3.is_true(v):
        return True
    if z3.is_false(v):
        return False
    return str(v)


# ---------------------------------------------------------------- ideal membership

class NotPolynomial(Exception):
    pass


def z3_to_sympy(t, symtab):
    import sympy as sp
    if z3.is_rational_value(t):
        return sp.Rational(t.numerator_as_long(), t.denominator_as_long())
    if z3.is_int_value(t):
        return sp.Integer(t.as_long())
    if z3.is_algebraic_value(t):
        raise NotPolynomial('algebraic number')
    k = t.decl().kind()
    ch = t.children()
    if k == z3.Z3_OP_ADD:
        return sp.Add(*[z3_to_sympy(c, symtab) for c in ch])
    if k == z3.Z3_OP_MUL:
        return sp.Mul(*[z3_to_sympy(c, symtab) for c in ch])
    if k == z3.Z3_OP_SUB:
        r = z3_to_sympy(ch[0], symtab)
        for c in ch[1:]:
            r = r - z3_to_sympy(c, symtab)
        return r
    if k == z3.Z3_OP_UMINUS:
        return -z3_to_sympy(ch[0], symtab)
    if k == z3.Z3_OP_TO_REAL:
        return z3_to_sympy(ch[0], symtab)
    if k == z3.Z3_OP_POWER:
        e = ch[1]
        if z3.is_int_value(e) or (z3.is_rational_value(e) and e.denominator_as_long() == 1):
            n = e.as_long() if z3.is_int_value(e) else e.numerator_as_long()
            if n >= 0:
                return z3_to_sympy(ch[0], symtab) ** n
        raise NotPolynomial('power')
    if k == z3.Z3_OP_DIV:
        d = ch[1]
        if z3.is_rational_value(d) or z3.is_int_value(d):
            return z3_to_sympy(ch[0], symtab) / z3_to_sympy(d, symtab)
        raise NotPolynomial('division by a term')
    if k == z3.Z3_OP_UNINTERPRETED:
        key = t.sexpr()
        if key not in symtab:
            symtab[key] = sp.Symbol(f'v{len(symtab)}', real=True)
        return symtab[key]
    raise NotPolynomial(t.decl().name())


def _equalities(hyps):
    """Polynomial equalities among the hypotheses (conjunctions are flattened)."""
    out = []
    stack = list(hyps)
    while stack:
        h = stack.pop()
        if z3.is_and(h):
            stack.extend(h.children())
        elif z3.is_eq(h) and not z3.is_bool(h.arg(0)):
            out.append(h)
    return out


def _collect_atoms(terms):
    atoms = {}
    seen = set()
    stack = list(terms)
    while stack:
        t = stack.pop()
        if t.get_id() in seen:
            continue
        seen.add(t.get_id())
        if z3.is_app(t) and t.decl().kind() == z3.Z3_OP_UNINTERPRETED:
            atoms.setdefault(t.sexpr(), len(atoms))
            continue
        stack.extend(t.children())
    return atoms


def _z3_to_ring(t, R, gens, atoms, cache):
    key = t.get_id()
    if key in cache:
        return cache[key]
    from sympy import QQ
    if z3.is_rational_value(t):
        r = R(QQ(t.numerator_as_long(), t.denominator_as_long()))
    elif z3.is_int_value(t):
        r = R(t.as_long())
    else:
        k = t.decl().kind()
        ch = t.children()
        if k == z3.Z3_OP_UNINTERPRETED:
            r = gens[atoms[t.sexpr()]]
        elif k == z3.Z3_OP_ADD:
            r = R(0)
            for c in ch:
                r = r + _z3_to_ring(c, R, gens, atoms, cache)
        elif k == z3.Z3_OP_MUL:
            r = R(1)
            for c in ch:
                r = r * _z3_to_ring(c, R, gens, atoms, cache)
        elif k == z3.Z3_OP_SUB:
            r = _z3_to_ring(ch[0], R, gens, atoms, cache)
            for c in ch[1:]:
                r = r - _z3_to_ring(c, R, gens, atoms, cache)
        elif k == z3.Z3_OP_UMINUS:
            r = -_z3_to_ring(ch[0], R, gens, atoms, cache)
        elif k == z3.Z3_OP_TO_REAL:
            r = _z3_to_ring(ch[0], R, gens, atoms, cache)
        elif k == z3.Z3_OP_POWER and (z3.is_int_value(ch[1]) or z3.is_rational_value(ch[1])):
            n = ch[1].as_long() if z3.is_int_value(ch[1]) else ch[1].numerator_as_long()
            if n < 0 or (z3.is_rational_value(ch[1]) and ch[1].denominator_as_long() != 1):
                raise NotPolynomial('power')
            r = _z3_to_ring(ch[0], R, gens, atoms, cache) ** n
        elif k == z3.Z3_OP_DIV and (z3.is_rational_value(ch[1]) or z3.is_int_value(ch[1])):
            d = ch[1]
            num, den = (d.numerator_as_long(), d.denominator_as_long()) if z3.is_rational_value(d) else (d.as_long(), 1)
            if num == 0:
                raise NotPolynomial('division by zero')
            r = _z3_to_ring(ch[0], R, gens, atoms, cache) * R(QQ(den, num))
        else:
            raise NotPolynomial(t.decl().name())
    cache[key] = r
    return r


def _reduce_by(c, R, idx, k, lc, rest):
    """Pseudo-reduce polynomial c by the relation  lc * g^k == rest  (g = generator idx, k in (1, 2))."""
    by_deg = {}
    for mon, coef in c.terms():
        d = mon[idx]
        m2 = list(mon)
        m2[idx] = 0
        by_deg.setdefault(d, []).append((tuple(m2), coef))
    if not by_deg or max(by_deg) < k:
        return c
    dmax = max(by_deg)
    g = R.gens[idx]
    out = R(0)
    powers_rest = {0: R(1)}
    powers_lc = {0: R(1)}

    def pw(table, base, n):
        if n not in table:
            table[n] = pw(table, base, n - 1) * base
        return table[n]
    top = dmax // k
    for d, terms in by_deg.items():
        part = R.from_terms(terms) if hasattr(R, 'from_terms') else sum((R({m: cf}) for m, cf in terms), R(0))
        j, rem = divmod(d, k)
        # g^d = (g^k)^j g^rem  ->  (rest/lc)^j g^rem ; multiply everything by lc^top
        out = out + part * pw(powers_rest, rest, j) * pw(powers_lc, lc, top - j) * (g ** rem)
    return out


def triangular_check(defs, hyps, lhs, rhs):
    """Cheap complete reduction for the triangular system of defining equations collected on a path
    (q*y == x for quotients, s*s == e for square roots / absolute values; each symbol defined from earlier ones).
    The goal lhs - rhs is pseudo-reduced by the relations, latest definition first (each relation has its leading
    term in its own fresh symbol, so the set is a Groebner basis).  Sparse polynomial arithmetic over QQ
    (sympy.polys.rings).  'unsat' = the identity holds wherever the definitions hold and the denominators (proved
    non-zero by the side obligations) do not vanish; never 'sat'."""
    import sympy as sp
    goal_t = z3.simplify(lhs - rhs, som=False)
    terms = [goal_t]
    dd = []
    for d in defs:
        if d[0] == 'div':
            dd.append(('div', d[1], z3.simplify(d[2], som=False), z3.simplify(d[3], som=False)))
            terms += [d[1], dd[-1][2], dd[-1][3]]
        elif d[0] in ('sqrt', 'abs'):
            dd.append((d[0], d[1], z3.simplify(d[2], som=False)))
            terms += [d[1], dd[-1][2]]
    def _order(d):
        name = d[1].decl().name()
        try:
            return int(name.rsplit('!', 1)[1])
        except (IndexError, ValueError):
            return 0
    dd.sort(key=_order)          # definition order = order of the fresh-symbol counter
    atoms = _collect_atoms(terms)
    if not atoms:
        return 'unknown', {'why': 'triangular: no symbols'}
    names = [f'v{i}' for i in range(len(atoms))]
    R, *gens = sp.ring(names, sp.QQ)
    cache = {}
    c = _z3_to_ring(goal_t, R, gens, atoms, cache)
    if c == 0:
        return 'unsat', {'why': 'triangular: expands to 0'}
    rels = []
    for d in dd:
        idx = atoms[d[1].sexpr()]
        if d[0] == 'div':
            rels.append((idx, 1, _z3_to_ring(d[3], R, gens, atoms, cache), _z3_to_ring(d[2], R, gens, atoms, cache)))
        else:
            e = _z3_to_ring(d[2], R, gens, atoms, cache)
            rels.append((idx, 2, R(1), e if d[0] == 'sqrt' else e * e))
    # relations themselves may mention later-eliminated symbols only of *earlier* definitions: reduce latest first
    for idx, k, lc, rest in reversed(rels):
        c = _reduce_by(c, R, idx, k, lc, rest)
        if c == 0:
            return 'unsat', {'why': 'triangular: remainder 0', 'relations': len(rels)}
    return 'unknown', {'why': 'triangular: non-zero remainder', 'terms': len(c.terms())}


def ideal_check(hyps, lhs, rhs, timeout_s=20, defs=None):
    """Is lhs - rhs in the ideal generated by the polynomial equalities among hyps?
    Returns ('unsat', info) if the remainder is 0 (identity holds wherever the hypotheses hold),
    ('unknown', info) otherwise.  Never answers 'sat'."""
    import sympy as sp
    import signal
    t0 = time.time()

    class _TO(Exception):
        pass

    def _h(signum, frame):
        raise _TO()
    old = signal.signal(signal.SIGALRM, _h)
    signal.alarm(int(timeout_s))
    try:
        if defs:
            try:
                v, info = triangular_check(defs, hyps, lhs, rhs)
            except NotPolynomial as e:
                v, info = 'unknown', {'why': f'triangular: {e}'}
            if v == 'unsat':
                info['s'] = time.time() - t0
                return v, info
        return _ideal_check(hyps, lhs, rhs, t0)
    except _TO:
        return 'unknown', {'why': f'ideal back end timed out after {timeout_s}s', 's': time.time() - t0}
    finally:
        signal.alarm(0)
        signal.signal(signal.SIGALRM, old)


def _ideal_check(hyps, lhs, rhs, t0):
    import sympy as sp
    symtab = {}
    try:
        goal = sp.expand(z3_to_sympy(z3.simplify(lhs - rhs, som=False), symtab))
    except NotPolynomial as e:
        return 'unknown', {'why': f'goal not polynomial: {e}', 's': time.time() - t0}
    if goal == 0:
        return 'unsat', {'why': 'expands to 0', 'gens': 0, 's': time.time() - t0}
    gens_polys = []
    for h in _equalities(hyps):
        try:
            p = sp.expand(z3_to_sympy(h.arg(0), symtab) - z3_to_sympy(h.arg(1), symtab))
        except NotPolynomial:
            continue
        if p != 0:
            gens_polys.append(p)
    if not gens_polys:
        return 'unknown', {'why': 'non-zero and no polynomial hypotheses', 's': time.time() - t0}
    # only hypotheses connected to the goal's symbols (transitively) are useful; keeps the basis small
    rel = set(goal.free_symbols)
    changed = True
    used = []
    pool = list(gens_polys)
    while changed:
        changed = False
        for p in list(pool):
            if p.free_symbols & rel:
                rel |= p.free_symbols
                used.append(p)
                pool.remove(p)
                changed = True
    if not used:
        return 'unknown', {'why': 'hypotheses unrelated to goal', 's': time.time() - t0}
    hyp_syms = set()
    for p in used:
        hyp_syms |= p.free_symbols
    gens = sorted(hyp_syms, key=lambda s: s.name)
    params = sorted((goal.free_symbols | hyp_syms) - set(gens), key=lambda s: s.name)
    try:
        domain = sp.QQ.frac_field(*params) if params else sp.QQ
        G = sp.groebner(used, *gens, order='grevlex', domain=domain)
        _, rem = sp.reduced(goal, list(G.exprs), *gens, order='grevlex', domain=domain)
    except Exception as e:      # sympy failure is "undecided", never a verdict
        return 'unknown', {'why': f'sympy: {type(e).__name__}: {e}', 's': time.time() - t0}
    info = {'gens': len(used), 'basis': len(G.exprs), 's': time.time() - t0}
    if sp.expand(rem) == 0:
        return 'unsat', info
    info['why'] = 'non-zero remainder'
    return 'unknown', info
