"""Contracts on the real functions, obligation generation, discharge, replay.

A contract is a small class registered with `@contract(target, ...)`:

    cases(S)      -> iterable of (case_label, {arg_name: value}); values are built with the factory S, which
                     yields z3-backed `Sym`s in proof mode and concrete numbers in sampling / replay mode
                     ("one contract text, two evaluations", DESIGN §3.3)
    ghost(S)      -> {name: value}         universally quantified auxiliaries (e.g. the probe point)
    requires(**a) -> bool | Sym            precondition over args and ghosts
    ensures(result, **a) -> iterable of (label, formula | Ident)       postconditions at a normal return
    raises        = {ExcType: lambda **a: cond}   the exception is the *required* outcome exactly when cond
                     (both directions are obligations: raise => cond, return => not cond)
    may_raise     = {ExcType: lambda **a: cond}   the exception is allowed when cond (one direction)
    call(**a)     -> invoke the target (default target(**args)); runs under the interpreter
    hooks         = {callee: hook}          callee contracts applied at call sites (modular verification)

One *unit* = (contract, case).  Its obligations, per feasible path of the real code:
    side conditions (denominator != 0, radicand >= 0, ...), each `ensures` clause, the `raises` clauses.
An obligation is discharged when `pre /\\ path /\\ defs /\\ not goal` is unsat (z3, then cvc5), or, for an
`Ident`, when the polynomial is in the ideal of the path's equalities (sympy Groebner).
"""
import copy
import inspect
import json
import os
import random
import signal
import time
import traceback
import enum
import importlib
from fractions import Fraction

import z3

from .sym import Sym, is_sym, lift, CTX, Ident, And, Not, _b
from .interp import explore, fn_source, Path, Interp, OutsideSubset, anysym, Raised
from . import backend
from .npmodel import SymArray

REGISTRY = {}


def contract(target, props, name=None, status='P'):
    def deco(cls):
        cls.target = target
        cls.props = list(props)
        if target is not None:
            t0 = getattr(target, '__func__', target)
            cls.cname = name or f'{t0.__module__.split(".")[-1]}.{t0.__qualname__}'
        else:
            cls.cname = name
        cls.status = status
        for attr, default in (('ghost', None), ('requires', None), ('hooks', {}), ('raises', {}),
                              ('may_raise', {}), ('call', None), ('samples', 40), ('budget', None),
                              ('native', True), ('max_paths', 1500)):
            if not hasattr(cls, attr):
                setattr(cls, attr, default)
        REGISTRY[cls.cname] = cls
        return cls
    return deco


# ----------------------------------------------------------------- factories

class SymFactory:
    mode = 'sym'

    def __init__(self):
        self.symbols = {}

    def real(self, name):
        s = Sym(z3.Real(name))
        self.symbols[name] = s
        return s

    def reals(self, names):
        if isinstance(names, str):
            names = names.split()
        return [self.real(n) for n in names]

    def int(self, name):
        s = Sym(z3.Int(name))
        self.symbols[name] = s
        return s

    def ints(self, names):
        if isinstance(names, str):
            names = names.split()
        return [self.int(n) for n in names]

    def bool(self, name):
        s = Sym(z3.Bool(name))
        self.symbols[name] = s
        return s

    def unit3(self, names):
        """Three reals meant as a unit vector (the contract's `requires` states |u| = 1)."""
        return self.reals(names)

    def ortho3(self, names):
        """Nine reals meant as three mutually perpendicular vectors (stated by the contract's `requires`)."""
        return self.reals(names)


POOL = [0.0, 1.0, -1.0, 2.0, -2.0, 0.5, -0.5, 3.0, -3.0, 1.5, 0.25, 4.0, -1.5, 0.75, 5.0, -4.0, 2.5, 7.0, -0.25, 10.0]


class SampleFactory:
    mode = 'sample'

    def __init__(self, rng, values=None):
        self.rng = rng
        self.values = values      # replay: name -> concrete value
        self.symbols = {}

    def real(self, name):
        if name in self.symbols:
            return self.symbols[name]
        if self.values is not None:
            v = float(self.values[name])
        else:
            r = self.rng.random()
            if r < 0.6:
                v = self.rng.choice(POOL)
            elif r < 0.9:
                v = round(self.rng.uniform(-6, 6), 3)
            else:
                v = self.rng.uniform(-100, 100)
        self.symbols[name] = v
        return v

    def reals(self, names):
        if isinstance(names, str):
            names = names.split()
        return [self.real(n) for n in names]

    def int(self, name):
        if name in self.symbols:
            return self.symbols[name]
        v = int(self.values[name]) if self.values is not None else self.rng.randint(-4, 6)
        self.symbols[name] = v
        return v

    def ints(self, names):
        if isinstance(names, str):
            names = names.split()
        return [self.int(n) for n in names]

    def bool(self, name):
        if name in self.symbols:
            return self.symbols[name]
        v = bool(self.values[name]) if self.values is not None else self.rng.random() < 0.5
        self.symbols[name] = v
        return v

    def ortho3(self, names):
        """Three mutually perpendicular vectors, either handedness, exactly representable (signed permutation
        matrices and 3-4-5 rotations scaled by small dyadic lengths)."""
        if isinstance(names, str):
            names = names.split()
        if self.values is not None:
            return [float(self.values[n]) for n in names]
        rng = self.rng
        perm = rng.sample(range(3), 3)
        M = [[0.0] * 3 for _ in range(3)]
        for i, j in enumerate(perm):
            M[i][j] = rng.choice([1.0, -1.0])
        if rng.random() < 0.5:
            c, s_ = rng.choice([(0.6, 0.8), (0.8, 0.6), (-0.6, 0.8), (0.28, 0.96)])
            k = rng.randrange(3)
            i, j = (k + 1) % 3, (k + 2) % 3
            R = [[1.0 if a == b else 0.0 for b in range(3)] for a in range(3)]
            R[i][i], R[i][j], R[j][i], R[j][j] = c, -s_, s_, c
            M = [[sum(R[a][x] * M[r][x] for x in range(3)) for a in range(3)] for r in range(3)]
        out = []
        for r in range(3):
            L = rng.choice([0.5, 1.0, 2.0, 3.0, 1.5, 4.0])
            out += [L * x for x in M[r]]
        for n_, x in zip(names, out):
            self.symbols[n_] = x
        return out

    def unit3(self, names):
        if isinstance(names, str):
            names = names.split()
        if self.values is not None:
            return [float(self.values[n]) for n in names]
        r = self.rng.random()
        if r < 0.45:
            v = [0.0, 0.0, 0.0]
            v[self.rng.randrange(3)] = self.rng.choice([1.0, -1.0])
        elif r < 0.6:
            k = self.rng.randrange(3)
            c, s_ = self.rng.choice([(0.6, 0.8), (0.8, -0.6), (-0.6, 0.8), (0.28, 0.96)])
            v = [0.0, 0.0, 0.0]
            v[k] = c
            v[(k + 1) % 3] = s_
        else:
            import math
            w = [self.rng.gauss(0, 1) for _ in range(3)]
            n = math.sqrt(sum(x * x for x in w)) or 1.0
            v = [x / n for x in w]
        for n_, x in zip(names, v):
            self.symbols[n_] = x
        return v


# ----------------------------------------------------------------- helpers

class _Timeout(Exception):
    pass


def _alarm(sec):
    def handler(signum, frame):
        raise _Timeout()
    signal.signal(signal.SIGALRM, handler)
    signal.alarm(int(max(1, sec)))


def concretize(obj, model, memo=None):
    """Deep copy of `obj` with every Sym replaced by its value in `model` (float / int / bool)."""
    if memo is None:
        memo = {}
    if is_sym(obj):
        v = backend.model_value(model, obj.t)
        if isinstance(v, Fraction):
            return float(v)
        return v
    if isinstance(obj, SymArray):
        import numpy as np
        return np.array(concretize(obj.tolist(), model, memo), dtype=float)
    if isinstance(obj, (int, float, str, bool, type(None), enum.Enum, type)) or inspect.isroutine(obj) \
            or inspect.ismodule(obj):
        return obj
    if id(obj) in memo:
        return memo[id(obj)]
    if isinstance(obj, list):
        out = []
        memo[id(obj)] = out
        out.extend(concretize(x, model, memo) for x in obj)
        return out
    if isinstance(obj, tuple):
        vals = [concretize(x, model, memo) for x in obj]
        try:
            return type(obj)(vals) if type(obj) is not tuple else tuple(vals)
        except TypeError:
            return tuple(vals)
    if isinstance(obj, dict):
        out = type(obj)() if type(obj) in (dict,) else {}
        memo[id(obj)] = out
        for k, v in obj.items():
            out[concretize(k, model, memo)] = concretize(v, model, memo)
        return out
    if isinstance(obj, (set, frozenset)):
        return type(obj)(concretize(x, model, memo) for x in obj)
    if hasattr(obj, '__dict__'):
        new = copy.copy(obj)
        memo[id(obj)] = new
        for k, v in list(vars(obj).items()):
            setattr(new, k, concretize(v, model, memo))
        return new
    return obj


def jsonable(obj, depth=0):
    import numpy as np
    if depth > 12:
        return '...'
    if isinstance(obj, (bool, int, str, type(None))):
        return obj
    if isinstance(obj, float):
        return obj if obj == obj and abs(obj) != float('inf') else repr(obj)
    if isinstance(obj, Fraction):
        return float(obj)
    if isinstance(obj, enum.Enum):
        return {'__enum__': f'{type(obj).__module__}:{type(obj).__name__}', 'name': obj.name}
    if isinstance(obj, (list,)):
        return [jsonable(x, depth + 1) for x in obj]
    if isinstance(obj, tuple):
        return {'__tuple__': [jsonable(x, depth + 1) for x in obj], '__class__': _clsref(obj)}
    if isinstance(obj, dict):
        return {'__dict__': [[jsonable(k, depth + 1), jsonable(v, depth + 1)] for k, v in obj.items()]}
    if isinstance(obj, (set, frozenset)):
        return {'__set__': [jsonable(x, depth + 1) for x in sorted(obj, key=repr)]}
    if isinstance(obj, np.ndarray):
        return {'__ndarray__': obj.tolist()}
    if isinstance(obj, (np.floating, np.integer)):
        return obj.item()
    if is_sym(obj):
        return {'__sym__': str(obj.t)}
    if isinstance(obj, BaseException):
        return {'__exception__': type(obj).__name__, 'message': str(obj)}
    if hasattr(obj, '__dict__') and not inspect.isroutine(obj) and not inspect.isclass(obj):
        return {'__object__': _clsref(obj), 'fields': {k: jsonable(v, depth + 1) for k, v in vars(obj).items()}}
    return repr(obj)


def _clsref(obj):
    return f'{type(obj).__module__}:{type(obj).__qualname__}'


def unjson(o):
    import numpy as np
    if isinstance(o, list):
        return [unjson(x) for x in o]
    if isinstance(o, dict):
        if '__enum__' in o:
            mod, cls = o['__enum__'].split(':')
            return getattr(importlib.import_module(mod), cls)[o['name']]
        if '__tuple__' in o:
            vals = [unjson(x) for x in o['__tuple__']]
            mod, cls = o['__class__'].split(':')
            if cls == 'tuple':
                return tuple(vals)
            c = importlib.import_module(mod)
            for part in cls.split('.'):
                c = getattr(c, part)
            return c(vals)
        if '__dict__' in o:
            return {_hashify(unjson(k)): unjson(v) for k, v in o['__dict__']}
        if '__set__' in o:
            return set(_hashify(unjson(x)) for x in o['__set__'])
        if '__ndarray__' in o:
            return np.array(o['__ndarray__'])
        if '__object__' in o:
            mod, cls = o['__object__'].split(':')
            c = importlib.import_module(mod)
            for part in cls.split('.'):
                c = getattr(c, part)
            obj = c.__new__(c)
            for k, v in o['fields'].items():
                setattr(obj, k, unjson(v))
            return obj
        return {k: unjson(v) for k, v in o.items()}
    return o


def _hashify(x):
    return tuple(x) if isinstance(x, list) else x


def _goals(it):
    out = []
    if it is None:
        return out
    for item in it:
        label, f = item
        out.append((label, f))
    return out


def _formula(f):
    """goal -> z3 Bool (Ident -> equality)."""
    if isinstance(f, Ident):
        return f.formula()
    if isinstance(f, (list, tuple)):
        return z3.And(*[_formula(x) for x in f]) if f else z3.BoolVal(True)
    return _b(f)


def _concrete_ok(f):
    if isinstance(f, (list, tuple)):
        return all(_concrete_ok(x) for x in f)
    return bool(f)


# ----------------------------------------------------------------- running the real function natively

def run_native(C, args, record=None):
    """Call the real target on concrete arguments.  Returns ('ret', value) | ('raise', exc).
    With `record` (a list), the callees that the contract replaces by hooks in proof mode are wrapped so that
    their actual arguments and results are recorded (the concrete counterpart of path.calls)."""
    patched = []
    if record is not None and C.hooks:
        fn = getattr(C.target, '__func__', C.target)
        g = fn.__globals__
        for callee, hook in C.hooks.items():
            cname = getattr(hook, 'callee_name', getattr(callee, '__name__', '?'))
            for k, v in list(g.items()):
                if v is callee:
                    def wrap(*a, __callee=callee, __name=cname, **kw):
                        r = __callee(*a, **kw)
                        record.append({'callee': __name, 'args': list(a), 'kw': kw, 'result': r})
                        return r
                    g[k] = wrap
                    patched.append((g, k, v))
    try:
        if C.call is not None:
            return 'ret', C.call(**args)
        return 'ret', C.target(**args)
    except Exception as exc:      # noqa: the target's behaviour
        return 'raise', exc
    finally:
        for g, k, v in patched:
            g[k] = v


def check_concrete(C, args, ghosts):
    """Evaluate the contract on concrete inputs.  Returns (list of violated labels, outcome description)."""
    allargs = dict(args)
    allargs.update(ghosts)
    run_args = copy.deepcopy(args)
    record = [] if _wants_calls(C) else None
    kind, val = run_native(C, run_args, record)
    if record is not None:
        allargs['calls'] = _Calls(record)
        try:
            if C.requires and not C.requires(**allargs):
                return [], 'precondition (over callee results) not met'
        except _NoSuchCall:
            pass
    bad = []
    if kind == 'raise':
        declared = False
        for exc_t, cond in list(C.raises.items()) + list(C.may_raise.items()):
            if isinstance(val, exc_t):
                declared = True
                if not cond(**allargs):
                    bad.append(f'raises:{exc_t.__name__}')
        if not declared:
            bad.append(f'no-unexpected-exception:{type(val).__name__}')
        return bad, f'raised {type(val).__name__}: {val}'
    for exc_t, cond in C.raises.items():
        if cond(**allargs):
            bad.append(f'must-raise:{exc_t.__name__}')
    try:
        for label, f in _goals(C.ensures(result=val, **allargs)):
            try:
                if not _concrete_ok(f):
                    bad.append(label)
            except _NoSuchCall as exc:
                # the contract talks about a call of a hooked callee that the native run did not record (the wrapper is
                # installed by name in the target's module only): that says nothing about the code
                return [], f'not evaluable natively: {label}: {exc}'
            except Exception as exc:
                bad.append(f'{label} (evaluation error: {type(exc).__name__}: {exc})')
    except _NoSuchCall as exc:
        return [], f'not evaluable natively: ensures: {exc}'
    except Exception as exc:
        bad.append(f'ensures (evaluation error: {type(exc).__name__}: {exc})')
    return bad, f'returned {_short(val)}'


def _short(v):
    s = repr(v)
    return s if len(s) < 300 else s[:300] + '...'


# ----------------------------------------------------------------- one unit

class _NoSuchCall(Exception):
    pass


class _Calls:
    """The hooked calls of one path, for contracts that state their pre/postcondition over a callee's result."""

    def __init__(self, calls):
        self.calls = calls

    def result(self, callee, k=0):
        hits = [c for c in self.calls if c['callee'] == callee]
        if len(hits) <= k:
            raise _NoSuchCall(callee)
        return hits[k]['result']

    def args(self, callee, k=0):
        hits = [c for c in self.calls if c['callee'] == callee]
        if len(hits) <= k:
            raise _NoSuchCall(callee)
        return hits[k]['args']

    def count(self, callee):
        return len([c for c in self.calls if c['callee'] == callee])


def _wants_calls(C):
    try:
        return 'calls' in inspect.signature(C.ensures).parameters
    except (TypeError, ValueError):
        return False


def list_units(C):
    if C.status == 'B':
        return ['enumerated-scope']
    S = SymFactory()
    return [label for label, _ in C.cases(S)]


_KNOWN = None


def known_match(props, cname, label, args):
    """id of the open known finding that explains this failure (contract, label prefix, optional `when` predicate
    over the concrete arguments), or None."""
    global _KNOWN
    if _KNOWN is None:
        path = os.path.join(os.path.dirname(os.path.dirname(os.path.abspath(__file__))), 'known_findings.json')
        try:
            with open(path) as f:
                _KNOWN = [e for e in json.load(f).get('findings', []) if e.get('status') == 'open']
        except FileNotFoundError:
            _KNOWN = []
    for e in _KNOWN:
        if e.get('contract') != cname or not any(label.startswith(l) for l in e.get('labels', [''])):
            continue
        if e.get('when'):
            try:
                if not eval(e['when'], {'args': args, '__builtins__': __builtins__}):
                    continue
            except Exception:
                continue
        return e['id']
    return None


def _source_of(C):
    try:
        if C.target is None:
            return {'lemma': True}
        fn = getattr(C.target, '__func__', C.target)
        _, fname, l0, l1, sha = fn_source(fn)
        return {'file': fname, 'lines': [l0, l1], 'sha256': sha}
    except Exception as exc:
        return {'error': str(exc)}


def verify_unit(cname, case_label, tier, seed):
    """Runs in a worker process.  Returns a JSON-able dict."""
    C = REGISTRY[cname]
    budget = C.budget or (10 if tier == 'quick' else 60)
    t_start = time.time()
    if C.status == 'B':
        # bounded stand-in: the contract is evaluated on the real function for every input of an enumerated scope
        n = 0
        failures = []
        n_known = n_new = 0
        for args in C.bounded(tier):
            n += 1
            bad, desc = check_concrete(C, args, {})
            if bad:
                # keep a few failures that a known finding explains and a few that none explains, so that a known
                # finding can never hide a different violation of the same contract
                k = known_match(C.props, cname, bad[0], args)
                if (k and n_known < 2) or (not k and n_new < 3):
                    failures.append({'violated': bad, 'native_outcome': desc, 'args': jsonable(args),
                                     'ghosts': jsonable({}), 'known': k})
                n_known += 1 if k else 0
                n_new += 0 if k else 1
        return {'contract': cname, 'case': case_label, 'props': C.props, 'obligations': [], 'paths': 0,
                'feasible_paths': 0, 'status': 'sampled', 'notes': [], 'vacuity': None,
                'sampled': {'evaluations': n, 'tried': n, 'failures': failures, 'exhaustive': True,
                            'scope': getattr(C, 'scope', '')},
                'source': _source_of(C), 'wall_s': round(time.time() - t_start, 3)}
    if C.status == 'S':
        # bounded stand-in only: the contract is evaluated on the real function for sampled inputs
        n = C.samples * (1 if tier == 'quick' else 10)
        sm = sample_unit(cname, case_label, seed, n=n)
        return {'contract': cname, 'case': case_label, 'props': C.props, 'obligations': [], 'paths': 0,
                'feasible_paths': 0, 'status': 'sampled', 'notes': [], 'vacuity': None, 'sampled': sm,
                'source': _source_of(C), 'wall_s': round(time.time() - t_start, 3)}
    res = {'contract': cname, 'case': case_label, 'props': C.props, 'obligations': [], 'paths': 0,
           'feasible_paths': 0, 'status': 'ok', 'notes': [], 'vacuity': None}
    try:
        if C.target is None:
            res['source'] = {'lemma': True}
        else:
            fn = getattr(C.target, '__func__', C.target)
            _, fname, l0, l1, sha = fn_source(fn)
            res['source'] = {'file': fname, 'lines': [l0, l1], 'sha256': sha}
    except Exception as exc:
        res['source'] = {'error': str(exc)}
    try:
        S = SymFactory()
        args = dict(dict(C.cases(S))[case_label])
        CTX.path = pre_path = Path()
        ghosts = C.ghost(S) if C.ghost else {}
        allargs = dict(args)
        allargs.update(ghosts)
        uses_calls = _wants_calls(C)
        pre = C.requires(**allargs) if (C.requires and not uses_calls) else True
        CTX.path = None
        pre_hyps = [_b(pre)] + pre_path.extra
        # vacuity: the precondition must be satisfiable
        v, model, dt, _ = backend.z3_check(pre_hyps, z3.BoolVal(True), min(budget, 10))
        if v == 'unsat':
            res['status'] = 'checker-error'
            res['notes'].append('vacuous: precondition unsatisfiable')
            return res
        res['precondition_sat'] = v

        def run(it):
            it.hooks = dict(C.hooks)
            if C.target is not None:
                it.force.add(getattr(C.target, '__func__', C.target))
            a = copy.copy(args)
            if C.call is not None:
                return it.call_function(C.call, [], a) if inspect.isfunction(C.call) else C.call(**a)
            return it.call(C.target, [], a)
        from . import interp as _interp
        _interp.PRUNE.update(on=bool(getattr(C, 'prune', False)), assume=list(pre_hyps), cache={},
                             budget=float(getattr(C, 'prune_budget', 3.0)))
        try:
            paths = explore(run, parent=pre_path, max_paths=C.max_paths) if C.target is not None \
                else [(Path(), ('ret', None))]
        finally:
            _interp.PRUNE['on'] = False
        res['paths'] = len(paths)
        for pi, (p, outcome) in enumerate(paths):
            if uses_calls:
                allargs['calls'] = _Calls(p.calls)
                CTX.path = pre_path = Path()
                pre_path.parent = p
                try:
                    pre_hyps = [_b(C.requires(**allargs) if C.requires else True)] + pre_path.extra
                except _NoSuchCall:
                    pre_hyps = [z3.BoolVal(True)]
                finally:
                    CTX.path = None
            hyps = pre_hyps + p.hyps()
            hyps = hyps + backend.axioms_for(hyps)
            v, _, dt, _, _ = backend.check(hyps, z3.BoolVal(True), min(budget, 5), want_model=False)
            if v == 'unsat':
                continue
            res['feasible_paths'] += 1
            kind, val = outcome
            obls = []      # (label, goal, hyps_for_it)
            for label, cond, n_pc, n_extra in p.obl:
                h = pre_hyps + p.pc[:n_pc] + p.extra[:n_extra]
                obls.append(('side:' + label, cond, h))
            if kind == 'outside':
                res['obligations'].append({'label': 'within-subset', 'verdict': 'unknown', 'backend': '-',
                                           's': 0, 'why': val, 'path': pi})
                continue
            CTX.path = spec_path = Path()
            spec_path.parent = p
            try:
                if kind == 'raise':
                    declared = False
                    for exc_t, cond in list(C.raises.items()) + list(C.may_raise.items()):
                        if isinstance(val, exc_t):
                            declared = True
                            obls.append((f'raises:{exc_t.__name__}', cond(**allargs), None))
                    if not declared:
                        obls.append((f'no-unexpected-exception:{type(val).__name__}', False, None))
                        res['notes'].append(f'path {pi} raises {type(val).__name__}: {str(val)[:120]}')
                else:
                    for exc_t, cond in C.raises.items():
                        obls.append((f'must-raise:{exc_t.__name__}', Not(cond(**allargs)), None))
                    for label, f in _goals(C.ensures(result=val, **allargs)):
                        obls.append((label, f, None))
            finally:
                CTX.path = None
            for label, cond, n_pc, n_extra in spec_path.obl:
                obls.append(('spec-side:' + label, cond, hyps + spec_path.extra[:n_extra]))
            for label, cond, n_pc, n_extra in pre_path.obl:
                obls.append(('precondition-side:' + label, cond, pre_path.extra[:n_extra]))
            full_hyps = hyps + spec_path.extra
            full_hyps = full_hyps + [a for a in backend.axioms_for(full_hyps + [
                _formula(g) for _, g, _ in obls if not isinstance(g, bool)]) if a not in full_hyps]
            # canary / vacuity on this path: hypotheses /\ all goals must be satisfiable
            if kind == 'ret' and res['vacuity'] is None:
                allg = [_formula(g) for l, g, h in obls if h is None]
                v, _, _, _, _ = backend.check(full_hyps, z3.And(*allg) if allg else z3.BoolVal(True),
                                                 min(budget, 5), want_model=False)
                res['vacuity'] = {'sat': 'non-vacuous', 'unsat': 'VACUOUS', 'unknown': 'undecided'}[v]
                if v == 'unsat':
                    # the path is feasible (checked above) but no state on it satisfies the postcondition:
                    # the obligations below cannot be discharged -- reported there, not as a checker defect
                    res['notes'].append(f'path {pi}: no state of this path satisfies the whole postcondition')
            for label, goal, h in obls:
                o = discharge(label, goal, full_hyps if h is None else h, budget, tier,
                              defs=list(p.defs) + list(spec_path.defs) + list(pre_path.defs))
                o['path'] = pi
                if os.environ.get('PYVC_VERBOSE'):
                    print(f'   path {pi} {label}: {o["verdict"]} {o.get("backend")} {o.get("s")}s', flush=True)
                if o['verdict'] == 'sat' and o.get('model') is not None:
                    model = o.pop('model')
                    o['cex'] = replay_model(C, args, ghosts, model, label)
                    if not o['cex'].get('confirmed'):
                        # look for a counter-model that floating point represents exactly (small dyadic inputs)
                        for nm in nice_models((full_hyps if h is None else h) + p.call_defs, goal, S.symbols,
                                              budget):
                            c2 = replay_model(C, args, ghosts, nm, label)
                            if c2.get('confirmed'):
                                o['cex'] = c2
                                break
                o.pop('model', None)
                res['obligations'].append(o)
        if res['feasible_paths'] == 0:
            res['status'] = 'checker-error'
            res['notes'].append('no feasible path')
    except _Timeout:
        res['status'] = 'timeout'
    except Exception as exc:
        res['status'] = 'checker-error'
        res['notes'].append('engine exception: ' + ''.join(traceback.format_exception_only(type(exc), exc)).strip())
        res['notes'].append(traceback.format_exc()[-1500:])
    finally:
        CTX.path = None
    # safety net: sampled evaluation of the same contract on the real function when something is not discharged
    if C.native and (any(o['verdict'] != 'unsat' and not (o.get('cex') or {}).get('confirmed')
                         for o in res['obligations']) or res['status'] != 'ok'):
        res['sampled'] = sample_unit(cname, case_label, seed, n=max(C.samples, 200))
    res['wall_s'] = round(time.time() - t_start, 3)
    return res


def discharge(label, goal, hyps, budget, tier, defs=None):
    t0 = time.time()
    out = {'label': label}
    if isinstance(goal, Ident):
        if goal.when is not None:
            hyps = list(hyps) + [goal.when]
            v0, _, _, _, who0 = backend.check(hyps, z3.BoolVal(True), min(budget, 5), want_model=False)
            if v0 == 'unsat':
                out.update(verdict='unsat', backend=who0 + '(guard infeasible on this path)',
                           s=round(time.time() - t0, 4))
                return out
            goal = Ident(Sym(goal.lhs), Sym(goal.rhs))
        v, info = backend.ideal_check(hyps, goal.lhs, goal.rhs, defs=defs)
        if v == 'unsat':
            out.update(verdict='unsat', backend='ideal(sympy)', s=round(time.time() - t0, 4), info=_small(info))
            return out
        out['ideal'] = _small(info)
    f = _formula(goal)
    if z3.is_true(z3.simplify(f)):
        out.update(verdict='unsat', backend='simplify', s=round(time.time() - t0, 4))
        return out
    v, model, dt, solver, who = backend.check(hyps, z3.Not(f), budget)
    if v == 'unknown':
        v2, dt2 = backend.cvc5_check(solver, budget)
        if v2 == 'unsat':
            out.update(verdict='unsat', backend='cvc5', s=round(time.time() - t0, 4))
            return out
        if v2 == 'sat':
            # counter-model needed from z3 for replay; keep trying a little with a different tactic
            out['cvc5'] = 'sat'
        else:
            # both back ends ran out of time: one more attempt with a larger budget, so that a loaded machine does not
            # turn a proof that normally takes a few seconds into "undecided"
            v3, model3, dt3, solver3, who3 = backend.check(hyps, z3.Not(f), 4 * budget)
            if v3 != 'unknown':
                v, model, solver, who = v3, model3, solver3, who3 + '(retry)'
    out.update(verdict=v, backend=who, s=round(time.time() - t0, 4))
    if v == 'sat':
        out['model'] = model
    out['smt_size'] = len(solver.to_smt2())
    return out


def nice_models(hyps, goal, symbols, budget):
    """Counter-models whose input symbols are small integers / halves / quarters (exactly representable)."""
    f = _formula(goal)
    consts = [v.t for v in symbols.values() if is_sym(v) and z3.is_real(v.t)]
    t_end = time.time() + min(3 * budget, 40)
    for denom, bound in ((1, 4), (2, 8), (4, 40), (None, None)):
        if time.time() > t_end:
            return
        extra = []
        for i, c in enumerate(consts):
            if denom is None:
                break
            k = z3.Int(f'nice!{i}')
            extra += [c * denom == z3.ToReal(k), k >= -bound, k <= bound]
        v, model, _, _ = backend.z3_check(list(hyps) + extra, z3.Not(f), min(budget, 4))
        if v == 'sat':
            yield model


def _small(info):
    return {k: (round(v, 4) if isinstance(v, float) else v) for k, v in (info or {}).items()}


def replay_model(C, args, ghosts, model, label):
    """Turn a counter-model into concrete arguments and run the real function natively."""
    try:
        if not C.native:
            return {'confirmed': False, 'why': 'contract runs only under the interpreter (callees replaced by hooks '
                    'on opaque values): no native replay'}
        if _has_opaque(args):
            return {'confirmed': False, 'why': 'arguments contain opaque sub-trees (induction hypothesis): the '
                    'counter-model is not an input; see the sampled evaluation on concrete trees'}
        cargs = concretize(args, model)
        cghosts = concretize(ghosts, model)
        allc = dict(cargs)
        allc.update(cghosts)
        if C.requires and not _wants_calls(C) and not C.requires(**allc):
            return {'confirmed': False, 'why': 'model does not satisfy the precondition in floating point',
                    'args': jsonable(cargs), 'ghosts': jsonable(cghosts)}
        bad, desc = check_concrete(C, cargs, cghosts)
        return {'confirmed': bool(bad), 'violated': bad, 'native_outcome': desc,
                'args': jsonable(cargs), 'ghosts': jsonable(cghosts)}
    except Exception as exc:
        return {'confirmed': False, 'why': f'replay error {type(exc).__name__}: {exc}'}


def _has_opaque(obj, depth=0):
    if type(obj).__name__.startswith('Opaque'):
        return True
    if depth > 6:
        return False
    if isinstance(obj, (list, tuple)):
        return any(_has_opaque(x, depth + 1) for x in obj)
    if isinstance(obj, dict):
        return any(_has_opaque(x, depth + 1) for x in obj.values())
    d = getattr(obj, '__dict__', None)
    if isinstance(d, dict) and not inspect.isroutine(obj) and not inspect.isclass(obj) and not inspect.ismodule(obj):
        return any(_has_opaque(x, depth + 1) for x in d.values())
    return False


def sample_unit(cname, case_label, seed, n=200):
    """Bounded stand-in: evaluate the contract on the real function for n sampled inputs of this case."""
    C = REGISTRY[cname]
    rng = random.Random(f'{seed}/{cname}/{case_label}')
    tried = accepted = 0
    failures = []
    while accepted < n and tried < 50 * n:
        tried += 1
        S = SampleFactory(rng)
        args = dict(dict(C.cases(S))[case_label])
        ghosts = C.ghost(S) if C.ghost else {}
        allargs = dict(args)
        allargs.update(ghosts)
        try:
            if C.requires and not _wants_calls(C) and not C.requires(**allargs):
                continue
        except Exception:
            continue
        accepted += 1
        bad, desc = check_concrete(C, args, ghosts)
        if bad:
            failures.append({'violated': bad, 'native_outcome': desc, 'args': jsonable(args),
                             'ghosts': jsonable(ghosts)})
            if len(failures) >= 3:
                break
    return {'evaluations': accepted, 'tried': tried, 'failures': failures}
