"""Frame / effect obligations decided on the AST (DESIGN §5 C18).  For every function of the converter and of MIP:

  (a) no store to module-level state: no `global` / `nonlocal` rebinding, no assignment to an attribute or an item of a
      module-level name, no call of a mutating method on a module-level name, no mutation of a default argument;
  (b) no read of a nondeterminism source (id, hash, time, random, environment, directory listings, uuid, datetime.now)
      outside the allow-list (start / end time stamps and the command-line echo, which the property exempts);
  (c) no order-sensitive consumption of a set (for / comprehension / list / tuple / join / enumerate / zip / pop / next(iter))
      unless it goes through sorted(), or is on the allow-list with its justification.

Each (function, construct) pair is one obligation.  These obligations have no input to replay."""
import ast
import os

MUTATORS = {'append', 'extend', 'insert', 'pop', 'remove', 'clear', 'update', 'setdefault', 'add', 'discard', 'sort',
            'reverse', 'popitem', '__setitem__', '__delitem__'}
NONDET_CALLS = {'id', 'hash', 'time.time', 'time.perf_counter', 'time.monotonic', 'random.random', 'random.choice',
                'random.shuffle', 'random.randint', 'os.listdir', 'os.scandir', 'os.walk', 'glob.glob', 'uuid.uuid4',
                'uuid.uuid1', 'datetime.now', 'datetime.today', 'datetime.utcnow', 'os.getpid', 'getpass.getuser',
                'socket.gethostname', 'os.urandom', 'tempfile.mkstemp', 'tempfile.mkdtemp'}
NONDET_NAMES = {'os.environ', 'sys.argv'}
ORDER_INSENSITIVE = {'sorted', 'min', 'max', 'sum', 'len', 'any', 'all', 'set', 'frozenset'}
ORDER_SENSITIVE_CALLS = {'list', 'tuple', 'enumerate', 'zip', 'iter', 'next', 'map', 'reversed', 'OrderedDict', 'dict'}


def _dotted(node):
    if isinstance(node, ast.Name):
        return node.id
    if isinstance(node, ast.Attribute):
        b = _dotted(node.value)
        return f'{b}.{node.attr}' if b else node.attr
    return None


SUMMARY = {'returns_set': set(), 'returns_dict_of_sets': set()}      # by bare function name (filled by a pre-pass)


def _is_dict_of_sets_expr(node, dosnames):
    if isinstance(node, ast.Call):
        f = _dotted(node.func)
        if f in ('defaultdict', 'collections.defaultdict') and node.args and _dotted(node.args[0]) in ('set', 'frozenset'):
            return True
        if f and f.split('.')[-1] in SUMMARY['returns_dict_of_sets']:
            return True
    if isinstance(node, ast.DictComp) and _is_set_expr(node.value, set()):
        return True
    if isinstance(node, ast.Dict) and node.values and all(_is_set_expr(v, set()) for v in node.values):
        return True
    if isinstance(node, ast.Name):
        return node.id in dosnames
    return False


_DOS = set()      # names bound to dict-of-sets in the function being analysed


def _is_set_expr(node, setnames):
    if isinstance(node, (ast.Set, ast.SetComp)):
        return True
    if isinstance(node, ast.Subscript) and _is_dict_of_sets_expr(node.value, _DOS):
        return True
    if isinstance(node, ast.Call) and isinstance(node.func, ast.Attribute) and node.func.attr in ('get', 'pop', 'setdefault') \
            and _is_dict_of_sets_expr(node.func.value, _DOS):
        return True
    if isinstance(node, ast.Call) and _dotted(node.func) and _dotted(node.func).split('.')[-1] in SUMMARY['returns_set']:
        return True
    if isinstance(node, ast.Call):
        f = _dotted(node.func)
        if f in ('set', 'frozenset'):
            return True
        if isinstance(node.func, ast.Attribute) and node.func.attr in ('union', 'intersection', 'difference',
                                                                       'symmetric_difference', 'copy'):
            return _is_set_expr(node.func.value, setnames)
        if isinstance(node.func, ast.Attribute) and node.func.attr == 'surface_ids':
            return True
        if f == 'extract_used_surfaces' or f == 'extract_tr_surf_ids':
            return True
    if isinstance(node, ast.BinOp) and isinstance(node.op, (ast.BitOr, ast.BitAnd, ast.Sub, ast.BitXor)):
        return _is_set_expr(node.left, setnames) or _is_set_expr(node.right, setnames)
    if isinstance(node, ast.Name):
        return node.id in setnames
    if isinstance(node, ast.Attribute) and node.attr in ('pluses', 'minuses'):
        return True
    return False


STATELESS_DECORATORS = {'staticmethod', 'classmethod', 'property', 'wraps', 'functools.wraps', 'abstractmethod',
                        'abc.abstractmethod', 'contextmanager', 'contextlib.contextmanager', 'total_ordering',
                        'functools.total_ordering', 'dataclass', 'dataclasses.dataclass'}
REPO_FUNCTIONS = set()


def _commutative_body(stmts):
    """Loop bodies whose iterations commute whatever the order: deletions of dictionary entries, set add / discard /
    remove / update, dict.pop(key, ...), guarded by side-effect-free tests."""
    for st in stmts:
        if isinstance(st, (ast.Pass, ast.Continue)):
            continue
        if isinstance(st, ast.Delete) and all(isinstance(t, ast.Subscript) for t in st.targets):
            continue
        if isinstance(st, ast.Expr) and isinstance(st.value, ast.Call) and isinstance(st.value.func, ast.Attribute) and \
                st.value.func.attr in ('add', 'discard', 'remove', 'update', 'pop') and \
                not any(isinstance(n, ast.Call) for a in st.value.args for n in ast.walk(a)):
            if st.value.func.attr == 'pop' and not st.value.args:
                return False
            continue
        if isinstance(st, ast.If) and not any(isinstance(n, ast.Call) and isinstance(n.func, ast.Attribute) and
                                              n.func.attr in MUTATORS for n in ast.walk(st.test)):
            if _commutative_body(st.body) and _commutative_body(st.orelse):
                continue
        return False
    return True


class Finding:
    def __init__(self, kind, where, what):
        self.kind, self.where, self.what = kind, where, what

    def key(self):
        return (self.kind, self.where.rsplit(':', 1)[0], self.what)


def analyse_file(path, rel):
    src = open(path).read()
    tree = ast.parse(src)
    module_names = set()
    for st in tree.body:
        if isinstance(st, (ast.Assign, ast.AnnAssign, ast.AugAssign)):
            for t in (st.targets if isinstance(st, ast.Assign) else [st.target]):
                for n in ast.walk(t):
                    if isinstance(n, ast.Name):
                        module_names.add(n.id)
        elif isinstance(st, (ast.Import, ast.ImportFrom)):
            for a in st.names:
                module_names.add((a.asname or a.name).split('.')[0])
    findings = []
    n_sites = 0
    # (d) decorators: a decorator is either one of the stateless standard ones, or a function defined in the analysed
    # packages (then its own body, wrapper included, is under the frame obligations); anything else -- lru_cache,
    # cache, cached_property, third-party memoisers -- may keep results (and shared mutable objects) between runs
    for node in ast.walk(tree):
        if isinstance(node, (ast.FunctionDef, ast.AsyncFunctionDef, ast.ClassDef)):
            for dec in node.decorator_list:
                d = dec.func if isinstance(dec, ast.Call) else dec
                name = _dotted(d) or ast.unparse(d)
                last = name.split('.')[-1]
                n_sites += 1
                if name in STATELESS_DECORATORS or last in ('setter', 'getter', 'deleter') or last in REPO_FUNCTIONS:
                    continue
                findings.append(Finding('module-state', f'{rel}::{node.name}:{node.lineno}',
                                        f'decorator {name} may keep state between calls'))
    # (e) class-level mutable attributes (a dict / list / set in the class body) that methods mutate through self /
    # cls / the class name without the instance ever rebinding them: one object shared by all instances and all runs
    for cls_node in [n for n in ast.walk(tree) if isinstance(n, ast.ClassDef)]:
        mutables = set()
        for st in cls_node.body:
            if isinstance(st, (ast.Assign, ast.AnnAssign)) and st.value is not None and isinstance(
                    st.value, (ast.Dict, ast.List, ast.Set, ast.DictComp, ast.ListComp, ast.SetComp)) or (
                    isinstance(st, (ast.Assign, ast.AnnAssign)) and isinstance(st.value, ast.Call) and
                    (_dotted(st.value.func) or '').split('.')[-1] in ('dict', 'list', 'set', 'OrderedDict', 'defaultdict', 'deque', 'Counter')):
                for t in (st.targets if isinstance(st, ast.Assign) else [st.target]):
                    if isinstance(t, ast.Name):
                        mutables.add(t.id)
        if not mutables:
            continue
        rebound = set()
        for n in ast.walk(cls_node):
            if isinstance(n, (ast.Assign, ast.AnnAssign, ast.AugAssign)):
                for t in (n.targets if isinstance(n, ast.Assign) else [n.target]):
                    if isinstance(t, ast.Attribute) and isinstance(t.value, ast.Name) and t.value.id == 'self':
                        rebound.add(t.attr)
        shared = mutables - rebound
        for meth in [m for m in ast.walk(cls_node) if isinstance(m, (ast.FunctionDef, ast.AsyncFunctionDef))]:
            for n in ast.walk(meth):
                tgt = None
                if isinstance(n, (ast.Assign, ast.AugAssign, ast.Delete)):
                    for t in (n.targets if isinstance(n, (ast.Assign, ast.Delete)) else [n.target]):
                        if isinstance(t, ast.Subscript):
                            tgt = t.value
                elif isinstance(n, ast.Call) and isinstance(n.func, ast.Attribute) and n.func.attr in MUTATORS:
                    tgt = n.func.value
                while isinstance(tgt, ast.Subscript):
                    tgt = tgt.value
                if isinstance(tgt, ast.Attribute) and isinstance(tgt.value, ast.Name) and tgt.attr in shared and \
                        tgt.value.id in ('self', 'cls', cls_node.name):
                    n_sites += 1
                    findings.append(Finding('module-state', f'{rel}::{meth.name}:{n.lineno}',
                                            f'mutation of the class-level attribute {cls_node.name}.{tgt.attr}'))
    # closure state: names bound in an enclosing function and mutated by a nested one persist between calls of the
    # nested function (hand-written memoisation)
    enclosing_locals = {}

    def _locals_of(f):
        loc = {a.arg for a in f.args.args + f.args.kwonlyargs + f.args.posonlyargs}
        for n in ast.walk(f):
            if isinstance(n, ast.Name) and isinstance(n.ctx, ast.Store):
                loc.add(n.id)
        return loc

    def _escapes(name, outer_fn):
        called = set()
        for n in ast.walk(outer_fn):
            if isinstance(n, ast.Call) and isinstance(n.func, ast.Name) and n.func.id == name:
                called.add(id(n.func))
        return any(isinstance(n, ast.Name) and n.id == name and isinstance(n.ctx, ast.Load) and id(n) not in called
                   for n in ast.walk(outer_fn))

    def _nest(f, outer, enclosing_fn=None):
        if isinstance(f, (ast.FunctionDef, ast.AsyncFunctionDef)):
            enclosing_fn = f
        for ch in ast.iter_child_nodes(f):
            if isinstance(ch, (ast.FunctionDef, ast.AsyncFunctionDef, ast.Lambda)):
                if not isinstance(ch, ast.Lambda):
                    # only a nested function that escapes (used other than by being called directly: returned, stored,
                    # passed on) can carry its closure from one call of the enclosing function to the next
                    enclosing_locals[ch] = set(outer) if _escapes(ch.name, enclosing_fn) else set()
                    _nest(ch, outer | _own_locals(ch), enclosing_fn)
                else:
                    _nest(ch, outer, enclosing_fn)
            else:
                _nest(ch, outer, enclosing_fn)

    def _own_locals(f):
        loc = {a.arg for a in f.args.args + f.args.kwonlyargs + f.args.posonlyargs}
        stack = list(f.body)
        while stack:
            n = stack.pop()
            if isinstance(n, (ast.FunctionDef, ast.AsyncFunctionDef, ast.ClassDef)):
                loc.add(n.name)
                continue
            if isinstance(n, ast.Name) and isinstance(n.ctx, ast.Store):
                loc.add(n.id)
            stack.extend(ast.iter_child_nodes(n))
        return loc

    for top in tree.body:
        if isinstance(top, (ast.FunctionDef, ast.AsyncFunctionDef)):
            _nest(top, _own_locals(top))
        elif isinstance(top, ast.ClassDef):
            for m in top.body:
                if isinstance(m, (ast.FunctionDef, ast.AsyncFunctionDef)):
                    _nest(m, _own_locals(m))
    for fn in [n for n in ast.walk(tree) if isinstance(n, (ast.FunctionDef, ast.AsyncFunctionDef))]:
        fname = fn.name
        closure_names = enclosing_locals.get(fn, set())
        where = lambda node: f'{rel}::{fname}:{getattr(node, "lineno", 0)}'
        local = {a.arg for a in fn.args.args + fn.args.kwonlyargs + fn.args.posonlyargs}
        if fn.args.vararg:
            local.add(fn.args.vararg.arg)
        if fn.args.kwarg:
            local.add(fn.args.kwarg.arg)
        defaults_mutable = {a.arg for a, d in zip(fn.args.args[len(fn.args.args) - len(fn.args.defaults):], fn.args.defaults)
                            if isinstance(d, (ast.List, ast.Dict, ast.Set, ast.Call))}
        setnames = set()
        _DOS.clear()
        for node in ast.walk(fn):
            if isinstance(node, (ast.Assign, ast.AnnAssign)):
                tg = node.targets if isinstance(node, ast.Assign) else [node.target]
                if node.value is not None and _is_dict_of_sets_expr(node.value, _DOS):
                    for t in tg:
                        if isinstance(t, ast.Name):
                            _DOS.add(t.id)
                for t in tg:
                    if isinstance(t, ast.Subscript) and isinstance(t.value, ast.Name) and node.value is not None \
                            and _is_set_expr(node.value, set()):
                        _DOS.add(t.value.id)
            if isinstance(node, ast.Call) and isinstance(node.func, ast.Attribute) and node.func.attr == 'setdefault' \
                    and len(node.args) == 2 and isinstance(node.func.value, ast.Name) and _is_set_expr(node.args[1], set()):
                _DOS.add(node.func.value.id)
        for node in ast.walk(fn):
            # values of a dict of sets, bound by a for loop over .values() / .items()
            if isinstance(node, (ast.For, ast.comprehension)) and isinstance(node.iter, ast.Call) \
                    and isinstance(node.iter.func, ast.Attribute) and _is_dict_of_sets_expr(node.iter.func.value, _DOS):
                if node.iter.func.attr == 'values' and isinstance(node.target, ast.Name):
                    setnames.add(node.target.id)
                if node.iter.func.attr == 'items' and isinstance(node.target, ast.Tuple) and len(node.target.elts) == 2 \
                        and isinstance(node.target.elts[1], ast.Name):
                    setnames.add(node.target.elts[1].id)
        for node in ast.walk(fn):
            if isinstance(node, (ast.Assign, ast.AnnAssign)):
                tgts = node.targets if isinstance(node, ast.Assign) else [node.target]
                for t in tgts:
                    for n in ast.walk(t):
                        if isinstance(n, ast.Name) and isinstance(n.ctx, ast.Store):
                            local.add(n.id)
                val = node.value
                if val is not None and _is_set_expr(val, setnames):
                    for t in tgts:
                        if isinstance(t, ast.Name):
                            setnames.add(t.id)
            elif isinstance(node, (ast.For, ast.comprehension)):
                for n in ast.walk(node.target):
                    if isinstance(n, ast.Name):
                        local.add(n.id)
            elif isinstance(node, ast.With):
                for it in node.items:
                    if it.optional_vars is not None:
                        for n in ast.walk(it.optional_vars):
                            if isinstance(n, ast.Name):
                                local.add(n.id)
        own_local = _own_locals(fn)
        parents = {}
        for node in ast.walk(fn):
            for ch in ast.iter_child_nodes(node):
                parents[ch] = node

        def inside_insensitive(node):
            p = parents.get(node)
            while p is not None and p is not fn:
                if isinstance(p, ast.Call) and _dotted(p.func) in ORDER_INSENSITIVE:
                    return True
                if isinstance(p, (ast.SetComp,)):
                    return True
                p = parents.get(p)
            return False
        for node in ast.walk(fn):
            # (a) module state
            if isinstance(node, (ast.Global, ast.Nonlocal)):
                n_sites += 1
                findings.append(Finding('module-state', where(node), f'{type(node).__name__.lower()} {",".join(node.names)}'))
            if isinstance(node, (ast.Assign, ast.AugAssign, ast.Delete)):
                tgts = node.targets if isinstance(node, (ast.Assign, ast.Delete)) else [node.target]
                for t in tgts:
                    base = t
                    while isinstance(base, (ast.Attribute, ast.Subscript)):
                        base = base.value
                    if isinstance(t, (ast.Attribute, ast.Subscript)) and isinstance(base, ast.Name):
                        if base.id in module_names and base.id not in local:
                            n_sites += 1
                            findings.append(Finding('module-state', where(node), f'store through module-level name {base.id}'))
                        if base.id in defaults_mutable:
                            n_sites += 1
                            findings.append(Finding('module-state', where(node), f'store through default argument {base.id}'))
                        if base.id in closure_names and base.id not in own_local:
                            n_sites += 1
                            findings.append(Finding('module-state', where(node), f'store through closure variable {base.id}'))
            if isinstance(node, ast.Call) and isinstance(node.func, ast.Attribute) and node.func.attr in MUTATORS:
                base = node.func.value
                while isinstance(base, (ast.Attribute, ast.Subscript)):
                    base = base.value
                if isinstance(base, ast.Name) and ((base.id in module_names and base.id not in local)
                                                   or base.id in defaults_mutable):
                    n_sites += 1
                    findings.append(Finding('module-state', where(node), f'{base.id}.{node.func.attr}() on module-level / default object'))
                if isinstance(base, ast.Name) and base.id in closure_names and base.id not in own_local:
                    n_sites += 1
                    findings.append(Finding('module-state', where(node), f'{base.id}.{node.func.attr}() on a closure variable'))
            # (b) nondeterminism sources
            if isinstance(node, ast.Call):
                f = _dotted(node.func)
                if f in NONDET_CALLS or (f and f.split('.')[-1] in ('now', 'today', 'utcnow') and 'date' in f.lower()):
                    n_sites += 1
                    findings.append(Finding('nondeterminism-source', where(node), f'call of {f}'))
            if isinstance(node, ast.Attribute) and _dotted(node) in NONDET_NAMES:
                n_sites += 1
                findings.append(Finding('nondeterminism-source', where(node), f'read of {_dotted(node)}'))
            # (c) order-sensitive consumption of a set
            it = None
            if isinstance(node, ast.For):
                it = node.iter
            elif isinstance(node, ast.comprehension):
                it = node.iter
            if it is not None:
                inner = it
                while isinstance(inner, ast.Call) and _dotted(inner.func) in ('enumerate', 'iter', 'reversed', 'list', 'tuple') \
                        and inner.args:
                    inner = inner.args[0]
                if _is_set_expr(inner, setnames):
                    n_sites += 1
                    owner = parents.get(node) if isinstance(node, ast.comprehension) else node
                    if isinstance(node, ast.For) and _commutative_body(node.body):
                        pass        # e.g. `for k in unused: del dic[k]`: the order of the iterations cannot matter
                    elif not (isinstance(node, ast.comprehension) and (isinstance(owner, ast.SetComp) or inside_insensitive(owner))):
                        findings.append(Finding('set-order', where(it), f'iteration over the set {ast.unparse(inner)[:60]}'))
            if isinstance(node, ast.Call):
                f = _dotted(node.func)
                consumer = f in ORDER_SENSITIVE_CALLS or (isinstance(node.func, ast.Attribute) and node.func.attr in ('join', 'extend'))
                if consumer and node.args and _is_set_expr(node.args[0], setnames) and not inside_insensitive(node):
                    p = parents.get(node)
                    if not isinstance(p, (ast.For, ast.comprehension)):
                        n_sites += 1
                        findings.append(Finding('set-order', where(node), f'{f or node.func.attr}() of the set {ast.unparse(node.args[0])[:60]}'))
                if isinstance(node.func, ast.Attribute) and node.func.attr == 'pop' and not node.args \
                        and _is_set_expr(node.func.value, setnames):
                    n_sites += 1
                    findings.append(Finding('set-order', where(node), f'pop() from the set {ast.unparse(node.func.value)[:60]}'))
    n_funcs = sum(1 for n in ast.walk(tree) if isinstance(n, (ast.FunctionDef, ast.AsyncFunctionDef)))
    return findings, n_funcs, n_sites


def _summaries(paths):
    """Which functions return a set / a dict of sets (by bare name; two rounds so that wrappers are seen)."""
    for _ in range(2):
        for path in paths:
            tree = ast.parse(open(path).read())
            for fn in [n for n in ast.walk(tree) if isinstance(n, ast.FunctionDef)]:
                setn, dosn = set(), set()
                for node in ast.walk(fn):
                    if isinstance(node, ast.Assign) and len(node.targets) == 1 and isinstance(node.targets[0], ast.Name):
                        if _is_set_expr(node.value, setn):
                            setn.add(node.targets[0].id)
                        if _is_dict_of_sets_expr(node.value, dosn):
                            dosn.add(node.targets[0].id)
                for node in ast.walk(fn):
                    if isinstance(node, ast.Return) and node.value is not None:
                        if _is_set_expr(node.value, setn):
                            SUMMARY['returns_set'].add(fn.name)
                        if _is_dict_of_sets_expr(node.value, dosn):
                            SUMMARY['returns_dict_of_sets'].add(fn.name)


def analyse(roots):
    out = []
    n_funcs = 0
    paths = []
    for root in roots:
        for dp, dn, fns in os.walk(root):
            if any(x in dp for x in ('UnitTests', 'IntegrationTests', '__pycache__', 'Debug')):
                continue
            paths += [os.path.join(dp, fn) for fn in sorted(fns)
                      if fn.endswith('.py') and not fn.startswith('test') and fn != 'conftest.py']
    SUMMARY['returns_set'].clear()
    SUMMARY['returns_dict_of_sets'].clear()
    REPO_FUNCTIONS.clear()
    for path in paths:
        for n in ast.walk(ast.parse(open(path).read())):
            if isinstance(n, (ast.FunctionDef, ast.AsyncFunctionDef)):
                REPO_FUNCTIONS.add(n.name)
    _summaries(paths)
    for root in roots:
        base = os.path.dirname(root)
        for dp, dn, fns in os.walk(root):
            if any(x in dp for x in ('UnitTests', 'IntegrationTests', '__pycache__', 'Debug')):
                continue
            for fn in sorted(fns):
                if not fn.endswith('.py') or fn.startswith('test') or fn == 'conftest.py':
                    continue
                path = os.path.join(dp, fn)
                f, nf, ns = analyse_file(path, os.path.relpath(path, base))
                out += f
                n_funcs += nf
    return out, n_funcs
