"""Implicit functions of the MCNP surface cards and of the TRIPOLI-4 surface types (DESIGN Appendix A).

A *region spec* is a list of (f, side) pairs read conjunctively for the negative sense:
    negative sense  =  AND_i  side_i * f_i < 0          positive sense = OR_i side_i * f_i > 0
For ordinary surfaces the list has one entry with side 1.  A one-sheet cone is
[(f_cone, 1), (g, -nappe)] with g = (pt - apex).axis: negative sense = inside the cone AND on the
nappe's side of the apex plane.

Negative MCNP sense <=> f < 0 (MCNP manual, "sense").  The TRIPOLI-4 conventions (sign of d in PLANE,
degrees for cone angles, QUAD coefficient order = GQ, torus radii order, x_main = M x_local + t for
TRANSFORM) are taken as the converter uses them -- calibrated, listed as assumptions in the evidence.
"""
import math
from .common import dot, sub, tan_, sqrt_, matvec, transpose
from pyvc.sym import sym_div, is_sym

PI = math.pi


def _div(a, b):
    return sym_div(a, b) if (is_sym(a) or is_sym(b)) else a / b


def quadric(c, pt):
    x, y, z = pt
    return (c[0] * x * x + c[1] * y * y + c[2] * z * z + c[3] * x * y + c[4] * y * z + c[5] * z * x
            + c[6] * x + c[7] * y + c[8] * z + c[9])


AXES = {'x': (1, 0, 0), 'y': (0, 1, 0), 'z': (0, 0, 1)}


def _rho2_h(pt, c, axis):
    d = sub(pt, c)
    h = dot(d, axis)
    return dot(d, d) - h * h, h


def torus_hd(h2, d2, A, B, C):
    """Torus function in terms of the squared axial coordinate h2 and the squared distance d2 to the centre:
    h2/B^2 + (sqrt(d2 - h2) - A)^2/C^2 - 1.  (The torus is symmetric under reversal of its axis.)"""
    rho = sqrt_(d2 - h2)
    return _div(h2, B * B) + _div((rho - A) * (rho - A), C * C) - 1


def torus_args(pt, c, axis):
    d = sub(pt, c)
    h = dot(d, axis)
    return h * h, dot(d, d)


def torus_f(pt, c, axis, A, B, C):
    """(h/B)^2 + ((rho - A)/C)^2 - 1 with h the axial and rho the radial coordinate (unit axis)."""
    h2, d2 = torus_args(pt, c, axis)
    return torus_hd(h2, d2, A, B, C)


def mcnp_region(mn, p, pt):
    """Region spec of the MCNP card `mn` with parameter list `p` at point `pt` (list of (f, side))."""
    x, y, z = pt
    mn = mn.lower()
    if mn == 'p':
        return [(p[0] * x + p[1] * y + p[2] * z - p[3], 1)]
    if mn in ('px', 'py', 'pz'):
        return [(dot(pt, AXES[mn[1]]) - p[0], 1)]
    if mn == 'so':
        return [(x * x + y * y + z * z - p[0] * p[0], 1)]
    if mn == 's':
        d = sub(pt, p[0:3])
        return [(dot(d, d) - p[3] * p[3], 1)]
    if mn in ('sx', 'sy', 'sz'):
        c = tuple(p[0] * a for a in AXES[mn[1]])
        d = sub(pt, c)
        return [(dot(d, d) - p[1] * p[1], 1)]
    if mn in ('cx', 'cy', 'cz'):
        rho2, _ = _rho2_h(pt, (0, 0, 0), AXES[mn[1]])
        return [(rho2 - p[0] * p[0], 1)]
    if mn in ('c/x', 'c/y', 'c/z'):
        c = {'x': (0, p[0], p[1]), 'y': (p[0], 0, p[1]), 'z': (p[0], p[1], 0)}[mn[2]]
        rho2, _ = _rho2_h(pt, c, AXES[mn[2]])
        return [(rho2 - p[2] * p[2], 1)]
    if mn in ('kx', 'ky', 'kz', 'k/x', 'k/y', 'k/z'):
        ax = AXES[mn[-1]]
        if '/' in mn:
            apex, t2, rest = tuple(p[0:3]), p[3], p[4:]
        else:
            apex, t2, rest = tuple(p[0] * a for a in ax), p[1], p[2:]
        rho2, h = _rho2_h(pt, apex, ax)
        out = [(rho2 - t2 * h * h, 1)]
        if rest:
            out.append((h, -rest[0]))      # rest[0] = +1 / -1 : the sheet with +/-(coordinate - apex) > 0
        return out
    if mn == 'sq':
        A, B, C, D, E, F, G, x0, y0, z0 = p
        dx, dy, dz = x - x0, y - y0, z - z0
        return [(A * dx * dx + B * dy * dy + C * dz * dz + 2 * D * dx + 2 * E * dy + 2 * F * dz + G, 1)]
    if mn == 'gq':
        return [(quadric(p, pt), 1)]
    if mn in ('tx', 'ty', 'tz'):
        A, B = p[3], p[4]
        C = p[5] if len(p) == 6 else p[4]
        return [(torus_f(pt, tuple(p[0:3]), AXES[mn[1]], A, B, C), 1)]
    raise KeyError(mn)


def mcnp_axisym_region(axis, p, pt):
    """X / Y / Z cards (surface of revolution through points (coordinate, radius)): list of (f, side), or None
    where the card is degenerate / unsupported.  Two pairs with different coordinate and different radius:
    the sheet of the cone through both points, i.e. the sheet on the side of the apex where the points lie."""
    ax = AXES[axis]
    if len(p) == 2:
        return [(dot(pt, ax) - p[0], 1)]
    c1, r1, c2, r2 = p
    raise NotImplementedError      # expressed case by case in the contract (needs the case conditions)


def mcnp_view(surf, pt):
    """Region spec of a SurfaceMCNP object (type, frame, compl_param) as the converter represents it."""
    from t4_geom_convert.Kernel.Surface.ESurfaceTypeMCNP import ESurfaceTypeMCNP as MS
    t = surf.type_surface
    if t in (MS.SQ,):
        return mcnp_region('sq', list(surf.compl_param), pt)
    if t in (MS.GQ,):
        return mcnp_region('gq', list(surf.compl_param), pt)
    p0, u = surf.param_surface
    d = sub(pt, p0)
    if t in (MS.P, MS.PX, MS.PY, MS.PZ):
        return [(dot(d, u), 1)]
    if t in (MS.SO, MS.S, MS.SX, MS.SY, MS.SZ):
        r = surf.compl_param[0]
        return [(dot(d, d) - r * r, 1)]
    if t in (MS.C_X, MS.C_Y, MS.C_Z, MS.CX, MS.CY, MS.CZ, MS.C):
        r = surf.compl_param[0]
        h = dot(d, u)
        return [(dot(d, d) * dot(u, u) - h * h - r * r * dot(u, u), 1)]
    if t in (MS.K_X, MS.K_Y, MS.K_Z, MS.KX, MS.KY, MS.KZ, MS.K):
        tn = tan_(surf.compl_param[1])
        h = dot(d, u)
        out = [(dot(d, d) * dot(u, u) - (1 + tn * tn) * h * h, 1)]
        nappe = surf.compl_param[2] if len(surf.compl_param) >= 3 else None
        if nappe is not None and not (not is_sym(nappe) and nappe == 0):
            out.append((h, -nappe))
        return out
    if t in (MS.TX, MS.TY, MS.TZ, MS.T):
        A, B, C = surf.compl_param
        return [(torus_f(pt, p0, u, A, B, C), 1)]
    raise KeyError(t)


def t4_view(surf, pt):
    """Implicit function of a SurfaceT4 at the point `pt` of the main frame."""
    from t4_geom_convert.Kernel.Surface.ESurfaceTypeT4 import ESurfaceTypeT4 as T4S
    if surf.transform is not None:
        tr, mat = surf.transform
        rows = mat.tolist() if hasattr(mat, 'tolist') else mat
        tv = list(tr.tolist() if hasattr(tr, 'tolist') else tr)
        # x_main = M x_local + t   =>   x_local = M^T (x_main - t)   (M orthonormal: precondition of users)
        pt = matvec(transpose(rows), sub(pt, tv))
    p = surf.param_surface
    t = surf.type_surface
    x, y, z = pt
    if t == T4S.PLANEX:
        return x - p[0]
    if t == T4S.PLANEY:
        return y - p[0]
    if t == T4S.PLANEZ:
        return z - p[0]
    if t == T4S.PLANE:
        return p[0] * x + p[1] * y + p[2] * z + p[3]
    if t == T4S.SPHERE:
        d = sub(pt, p[0:3])
        return dot(d, d) - p[3] * p[3]
    if t in (T4S.CYLX, T4S.CYLY, T4S.CYLZ):
        ax = AXES[t.name[-1].lower()]
        c = {'x': (0, p[0], p[1]), 'y': (p[0], 0, p[1]), 'z': (p[0], p[1], 0)}[t.name[-1].lower()]
        rho2, _ = _rho2_h(pt, c, ax)
        return rho2 - p[2] * p[2]
    if t == T4S.CYL:
        d = sub(pt, p[0:3])
        u = p[4:7]
        h = dot(d, u)
        return dot(d, d) * dot(u, u) - h * h - p[3] * p[3] * dot(u, u)
    if t in (T4S.CONEX, T4S.CONEY, T4S.CONEZ):
        ax = AXES[t.name[-1].lower()]
        tn = tan_(p[3] * PI / 180)
        rho2, h = _rho2_h(pt, tuple(p[0:3]), ax)
        return rho2 - tn * tn * h * h
    if t == T4S.CONE:
        d = sub(pt, p[0:3])
        u = p[4:7]
        tn = tan_(p[3] * PI / 180)
        h = dot(d, u)
        return dot(d, d) * dot(u, u) - (1 + tn * tn) * h * h
    if t == T4S.QUAD:
        return quadric(p, pt)
    if t in (T4S.TORUSX, T4S.TORUSY, T4S.TORUSZ):
        return torus_f(pt, tuple(p[0:3]), AXES[t.name[-1].lower()], p[3], p[4], p[5])
    raise KeyError(t)


def t4_region(coll, pt):
    """Region spec of a SurfaceCollection (or list of (SurfaceT4, side))."""
    surfs = coll.surfs if hasattr(coll, 'surfs') else coll
    return [(t4_view(s, pt), side) for s, side in surfs]


def t4_local_point(surf, pt):
    """Point of the main frame expressed in the local frame of a SurfaceT4 (identity without TRANSFORM)."""
    if surf.transform is None:
        return pt
    tr, mat = surf.transform
    rows = mat.tolist() if hasattr(mat, 'tolist') else mat
    tv = list(tr.tolist() if hasattr(tr, 'tolist') else tr)
    return matvec(transpose(rows), sub(pt, tv))
