"""Specification base (DESIGN §4, Appendix A): the oracles the contracts are written against.  Trusted."""
