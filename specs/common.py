"""Helpers usable on symbolic (pyvc.Sym) and concrete numbers alike."""
import math
from pyvc.sym import Sym, is_sym, And, Or, Not, implies, iff, ite, ident, sym_sqrt, sym_div, Ident
from pyvc.interp import UF

TOL = 1e-7


def tan_(x):
    return UF['tan'](x) if is_sym(x) else math.tan(x)


def cos_(x):
    return UF['cos'](x) if is_sym(x) else math.cos(x)


def sin_(x):
    return UF['sin'](x) if is_sym(x) else math.sin(x)


def const_angle_cos_sin(angle):
    """cos and sin of a constant angle as the same uninterpreted applications the engine produces for
    math.cos(angle) in the code (proof mode), or their values (concrete mode)."""
    from pyvc.sym import CTX
    if CTX.path is not None:
        import z3
        from pyvc.sym import lift, Sym
        a = lift(float(angle))
        return Sym(UF['cos'].uf(a)), Sym(UF['sin'].uf(a))
    return math.cos(angle), math.sin(angle)


def atan_(x):
    return UF['atan'](x) if is_sym(x) else math.atan(x)


def sqrt_(x):
    return sym_sqrt(x) if is_sym(x) else math.sqrt(x)


def dot(a, b):
    return a[0] * b[0] + a[1] * b[1] + a[2] * b[2]


def sub(a, b):
    return (a[0] - b[0], a[1] - b[1], a[2] - b[2])


def add(a, b):
    return (a[0] + b[0], a[1] + b[1], a[2] + b[2])


def scale(k, a):
    return (k * a[0], k * a[1], k * a[2])


def cross(a, b):
    return (a[1] * b[2] - a[2] * b[1], a[2] * b[0] - a[0] * b[2], a[0] * b[1] - a[1] * b[0])


def matvec(m, v):
    """m: 3 rows of 3"""
    return tuple(dot(r, v) for r in m)


def transpose(m):
    return tuple(tuple(m[j][i] for j in range(3)) for i in range(3))


def _scale_of(*vals):
    return max([1.0] + [abs(v) for v in vals])


def neg(x, scale=1.0):
    """x < 0 ; concretely None ("too close to call") inside the tolerance band."""
    if is_sym(x):
        return x < 0
    if abs(x) <= TOL * max(1.0, scale):
        return None
    return x < 0


def pos(x, scale=1.0):
    if is_sym(x):
        return x > 0
    if abs(x) <= TOL * max(1.0, scale):
        return None
    return x > 0


def all3(vals):
    """Kleene conjunction over True/False/None (None = undetermined near a surface)."""
    if any(is_sym(v) for v in vals):
        return And(*vals)
    if any(v is False for v in vals):
        return False
    if any(v is None for v in vals):
        return None
    return True


def any3(vals):
    if any(is_sym(v) for v in vals):
        return Or(*vals)
    if any(v is True for v in vals):
        return True
    if any(v is None for v in vals):
        return None
    return False


def same(a, b):
    """a <=> b, with None (undetermined in floating point) accepted."""
    if a is None or b is None:
        return True
    return iff(a, b)


def close(a, b, scale=1.0):
    if is_sym(a) or is_sym(b):
        return a == b
    return abs(a - b) <= 1e-6 * max(1.0, scale, abs(a), abs(b))


def region_neg(region):
    return all3([neg(side * f) for f, side in region])


def region_pos(region):
    return any3([pos(side * f) for f, side in region])


def same_region(r_impl, r_spec, prefix=''):
    """The two obligations of "same locus and same sense" for every probe point:
    negative regions coincide, positive regions coincide (so the zero sets coincide too)."""
    return [(prefix + 'negative-sense', same(region_neg(r_impl), region_neg(r_spec))),
            (prefix + 'positive-sense', same(region_pos(r_impl), region_pos(r_spec)))]


def scaled(prefix, f_impl, f_spec, num, den=1):
    """Identity + sign form of "same locus, same sense" (DESIGN §3.3):
         den * f_impl == num * f_spec  (polynomial identity, ideal-membership back end)   and   num, den > 0.
    Region equality then follows from lemma `lemma.scaled_same_sign` (proved once per run)."""
    if not (is_sym(f_impl) or is_sym(f_spec) or is_sym(num) or is_sym(den)):
        sc = max(1.0, abs(den * f_impl), abs(num * f_spec))
        return [(prefix + 'identity', abs(den * f_impl - num * f_spec) <= 1e-6 * sc),
                (prefix + 'factor>0', num > 0 and den > 0)]
    return [(prefix + 'identity', ident(den * f_impl, num * f_spec)),
            (prefix + 'factor>0', And(num > 0, den > 0))]
