"""MCNP macrobody facets (manual, "macrobodies"; DESIGN Appendix A): for each body the list of outward facet
functions g_k(pt) in MCNP's facet order -- g_k < 0 towards the interior, g_k > 0 outside.
The body is the intersection of the negative sides of its facets."""
import math
from .common import dot, sub, add, scale, cross, sqrt_, close, const_angle_cos_sin
from .surfaces import _div
from pyvc.sym import is_sym


def box(p, pt):
    v, a, b, c = p[0:3], p[3:6], p[6:9], p[9:12]
    d = sub(pt, v)
    return [dot(a, sub(d, a)), -dot(a, d), dot(b, sub(d, b)), -dot(b, d), dot(c, sub(d, c)), -dot(c, d)]


def box_requires(p):
    a, b, c = p[3:6], p[6:9], p[9:12]
    return [close(dot(a, b), 0), close(dot(b, c), 0), close(dot(c, a), 0), dot(a, a) > 0, dot(b, b) > 0, dot(c, c) > 0]


def rpp(p, pt):
    xmin, xmax, ymin, ymax, zmin, zmax = p
    x, y, z = pt
    return [x - xmax, xmin - x, y - ymax, ymin - y, z - zmax, zmin - z]


def sph(p, pt):
    d = sub(pt, p[0:3])
    return [dot(d, d) - p[3] * p[3]]


def rcc(p, pt):
    v, h, r = p[0:3], p[3:6], p[6]
    d = sub(pt, v)
    return [dot(d, d) * dot(h, h) - dot(d, h) * dot(d, h) - r * r * dot(h, h), dot(h, sub(d, h)), -dot(h, d)]


def rhp15(p, pt):
    v, h, r, s, t = p[0:3], p[3:6], p[6:9], p[9:12], p[12:15]
    d = sub(pt, v)
    out = []
    for w in (r, s, t):
        out += [dot(w, sub(d, w)), -dot(w, add(d, w))]
    out += [dot(h, sub(d, h)), -dot(h, d)]
    return out


def rotate_about(vec, axis_unit, cosang, sinang):
    """Rodrigues rotation (right-hand rule) of vec about the unit vector axis_unit."""
    k = axis_unit
    kv = cross(k, vec)
    kd = dot(k, vec)
    return tuple(vec[i] * cosang + kv[i] * sinang + k[i] * kd * (1 - cosang) for i in range(3))


def rec12(p, pt):
    v, h, a, b = p[0:3], p[3:6], p[6:9], p[9:12]
    d = sub(pt, v)
    a2, b2 = dot(a, a), dot(b, b)
    # ((d.a)/|a|^2)^2 + ((d.b)/|b|^2)^2 - 1, cleared of denominators
    f = dot(d, a) * dot(d, a) * b2 * b2 + dot(d, b) * dot(d, b) * a2 * a2 - a2 * a2 * b2 * b2
    return [f, dot(h, sub(d, h)), -dot(h, d)]


def trc(p, pt):
    v, h, r0, r1 = p[0:3], p[3:6], p[6], p[7]
    d = sub(pt, v)
    h2 = dot(h, h)
    s = dot(d, h)                       # axial coordinate times |h|
    # radius at axial parameter s/|h|^2 in [0,1]:  r0 + (r1 - r0) s/|h|^2 ; cone: rho^2 = radius^2
    rho2_h4 = (dot(d, d) * h2 - s * s) * h2 * h2            # rho^2 |h|^6 / |h|^2 ... cleared: rho^2 * h2^3 / h2
    rad_h2 = r0 * h2 + (r1 - r0) * s                        # radius * |h|^2
    f = (dot(d, d) * h2 - s * s) * h2 - rad_h2 * rad_h2     # (rho^2 - radius^2) |h|^4
    return [f, dot(h, sub(d, h)), -dot(h, d)]


def wed(p, pt):
    v, a, b, h = p[0:3], p[3:6], p[6:9], p[9:12]
    d = sub(pt, v)
    # slant face through v+a and v+b (contains h): outward normal n with n.a > 0, n.b > 0; n = |b|^2 a + |a|^2 b
    n = add(scale(dot(b, b), a), scale(dot(a, a), b))
    return [dot(n, sub(d, a)), -dot(a, d), -dot(b, d), dot(h, sub(d, h)), -dot(h, d)]


def wed_requires(p):
    a, b, h = p[3:6], p[6:9], p[9:12]
    # the last fact follows from the others (lemma.orthogonal_triple: mixed^2 = |a|^2 |b|^2 |h|^2); stated to help z3
    return [dot(a, cross(b, h)) != 0,
            close(dot(a, b), 0), close(dot(a, h), 0), close(dot(b, h), 0), dot(a, a) > 0, dot(b, b) > 0, dot(h, h) > 0]


def ell_axis_form(center, a, r2, pt):
    """Spheroid with centre, semi-major axis vector a and squared semi-minor axis r2 (cleared of denominators)."""
    d = sub(pt, center)
    a2 = dot(a, a)
    da = dot(d, a)
    # (d.a)^2/|a|^4 + (|d|^2 - (d.a)^2/|a|^2)/r2 - 1   times |a|^4 r2
    return da * da * r2 + (dot(d, d) * a2 - da * da) * a2 - a2 * a2 * r2


def rhp9(p, pt):
    """Regular hexagonal prism: s and t are r turned by 60 and 120 degrees about the axis (right-hand rule), which
    is the order in which MCNP numbers the facets of the 15-entry form (calibrated on the converter)."""
    v, h, r = p[0:3], p[3:6], p[6:9]
    n = sqrt_(dot(h, h))
    inv = _div(1.0, n)
    k = tuple(inv * x for x in h)
    # the doubles math.cos / math.sin return for the doubles nearest to 60 and 120 degrees, read literally (A1)
    c1, s1 = math.cos(math.pi / 3.), math.sin(math.pi / 3.)
    c2, s2 = math.cos(2. * math.pi / 3.), math.sin(2. * math.pi / 3.)
    s = rotate_about(r, k, c1, s1)
    t = rotate_about(r, k, c2, s2)
    return rhp15(list(v) + list(h) + list(r) + list(s) + list(t), pt)


def rec10(p, pt):
    v, h, a, L = p[0:3], p[3:6], p[6:9], p[9]
    d = sub(pt, v)
    n = cross(h, a)
    a2, n2 = dot(a, a), dot(n, n)
    f = dot(d, a) * dot(d, a) * n2 * L * L + dot(d, n) * dot(d, n) * a2 * a2 - a2 * a2 * n2 * L * L
    return [f, dot(h, sub(d, h)), -dot(h, d)]


def ell_neg(p, pt):
    """ELL with a negative last entry: centre, semi-major axis vector, |last| = semi-minor axis."""
    return [ell_axis_form(tuple(p[0:3]), tuple(p[3:6]), p[6] * p[6], pt)]


def ell_pos(p, pt):
    """ELL with a positive last entry L, as the converter (and, by its authors' tests, MCNP) treats it: centre =
    midpoint of the two given points, axis towards the first, semi-major axis L and squared semi-minor axis
    L^2 - (L - e)^2 with e the distance from the centre to the first point.  Calibrated on the code (see the
    comment in MacroBodies.ell): NOT the textbook focal definition."""
    f1, f2, L = p[0:3], p[3:6], p[6]
    c = scale(0.5, add(f1, f2))
    rel = sub(f1, c)
    e = sqrt_(dot(rel, rel))
    k = _div(L, e)
    a = scale(k, rel)
    r2 = L * L - (L - e) * (L - e)
    return [ell_axis_form(c, a, r2, pt)]
