"""Denotation of cell expressions (DESIGN §4 `boolean`): `den(tree, sem)` is the truth value of "the point belongs
to the region" under an assignment of senses.

Tree shapes handled (all the intermediate representations of the converter):
  Surface(s, sub)                  MIP leaf: true iff the point has the sense sign(s) w.r.t. surface |s| (facet sub)
  int                              T4 leaf after pot_expand_surfs: sign(i) side of T4 surface |i|
  Cell('n') inside ('^', Cell)     complement of cell n
  CellRef(n)                       the region of cell n
  (op, a, b, ...)                  unflagged node, op in '*', ':', '^'
  [id, op, a, b, ...]              flagged node (after pot_flag)
  Opaque                           an arbitrary subtree standing for the induction hypothesis: carries its own
                                   denotation (a fresh Boolean) and the structural facts the contracts need

`sem` supplies the assignment: sem.surface(id, sub) / sem.t4(id) / sem.cell(n) -> bool or Sym(bool).
"""
import z3
from pyvc.sym import Sym, is_sym, And, Or, Not, ite, CTX
from MIP.geom.semantics import Surface, Cell, GeomExpression
from t4_geom_convert.Kernel.Volume.CellMCNP import CellRef


class SymSem:
    """Symbolic assignment: uninterpreted sigma(surface, sub) / tau(t4 id) / kappa(cell)."""
    sigma = z3.Function('sigma', z3.IntSort(), z3.IntSort(), z3.BoolSort())
    tau = z3.Function('tau', z3.IntSort(), z3.BoolSort())
    kappa = z3.Function('kappa', z3.IntSort(), z3.BoolSort())

    def surface(self, sid, sub):
        from pyvc.sym import lift
        return Sym(self.sigma(lift(sid), lift(0 if sub is None else sub)))

    def t4(self, tid):
        from pyvc.sym import lift
        return Sym(self.tau(lift(tid)))

    def cell(self, n):
        from pyvc.sym import lift
        return Sym(self.kappa(lift(int(n) if not is_sym(n) else n)))


class DictSem:
    """Concrete assignment from dictionaries (bounded checks, replay)."""
    def __init__(self, surfaces=None, t4=None, cells=None):
        self.s, self.t, self.c = surfaces or {}, t4 or {}, cells or {}

    def surface(self, sid, sub):
        return self.s[(sid, 0 if sub is None else sub)]

    def t4(self, tid):
        return self.t[tid]

    def cell(self, n):
        return self.c[int(n)]


class Opaque:
    """An arbitrary subtree (induction hypothesis).  `den` is its denotation under the fixed assignment;
    `facts` are structural predicates (name -> bool) the contracts talk about."""
    _n = 0

    def __init__(self, den=None, **facts):
        Opaque._n += 1
        self.name = f'T{Opaque._n}'
        self.den = den if den is not None else Sym(z3.Bool(f'den!{self.name}'))
        self.facts = facts

    def __repr__(self):
        return f'<Opaque {self.name}>'

    opaque_standin = True       # Interp.equal: equality of two different stand-ins (or with a concrete tree) is unknown


class OpaqueExpr(Opaque):
    """Opaque stand-in for a GeomExpression / Surface operand of the MIP layer: it can be inverted; what comes back
    is the induction hypothesis of `inverse` (denotation negated, still complement-free, still binary).  Whether it is
    a leaf or an operator node is not known: code that asks (isinstance) leaves the proved subset."""
    unknown_kind = ('GeomExpression', 'Surface', 'list', 'tuple')

    def inverse(self):
        return OpaqueExpr(den=Not(self.den), **self.facts)


def lit(sem, s, sub=None):
    """Truth of a signed surface reference."""
    if is_sym(s):
        return ite(s > 0, sem.surface(s, sub), Not(sem.surface(-s, sub)))
    return sem.surface(s, sub) if s > 0 else Not(sem.surface(-s, sub))


def t4lit(sem, i):
    if is_sym(i):
        return ite(i > 0, sem.t4(i), Not(sem.t4(-i)))
    return sem.t4(i) if i > 0 else Not(sem.t4(-i))


def den(tree, sem, flagged=None):
    if isinstance(tree, Opaque):
        return tree.den
    if isinstance(tree, Surface):
        return lit(sem, tree.surface, tree.sub)
    if isinstance(tree, CellRef):
        return sem.cell(tree.cell)
    if isinstance(tree, Cell):
        return sem.cell(str(tree))
    if is_sym(tree) or isinstance(tree, int):
        return t4lit(sem, tree)
    if isinstance(tree, (tuple, list)):
        off = 1 if (len(tree) > 1 and tree[1] in ('*', ':', '^') and not isinstance(tree[0], str)) else 0
        op = tree[off]
        args = tree[off + 1:]
        if op == '^':
            return Not(sem.cell(str(args[0])))
        vals = [den(a, sem) for a in args]
        if op == '*':
            return And(*vals) if vals else True
        if op == ':':
            return Or(*vals) if vals else False
    raise TypeError(f'not a cell tree: {tree!r}')


def has_complement(tree):
    if isinstance(tree, Opaque):
        return tree.facts.get('has_complement', False)
    if isinstance(tree, (tuple, list)):
        off = 1 if (len(tree) > 1 and tree[1] in ('*', ':', '^') and not isinstance(tree[0], str)) else 0
        if tree[off] == '^':
            return True
        return any(has_complement(a) for a in tree[off + 1:])
    return False


def is_binary(tree):
    """Every operator node has exactly two operands (shape produced by the parser and kept until pot_flag)."""
    if isinstance(tree, Opaque):
        return tree.facts.get('binary', True)
    if isinstance(tree, (tuple, list)):
        if tree[0] == '^':
            return len(tree) == 2
        return len(tree) == 3 and all(is_binary(a) for a in tree[1:])
    return True


def mk_surface(s, sub=None):
    """Surface leaf with a possibly symbolic number (bypasses int() of the constructor, nothing else)."""
    obj = Surface.__new__(Surface)
    obj.surface = s
    obj.sub = sub
    return obj


def sample_sem(S, surfaces=(), cells=(), t4=()):
    """Assignment for concrete mode: random senses for the named ids."""
    return DictSem({k: S.bool(f'sg{k}') for k in surfaces}, {k: S.bool(f'tu{k}') for k in t4},
                   {k: S.bool(f'ka{k}') for k in cells})


def random_tree(rng, depth=2, complements=False, surfaces=(1, 2, 3, 4)):
    """Concrete random binary MIP tree (concrete-mode counterpart of an opaque sub-tree)."""
    r = rng.random()
    if depth == 0 or r < 0.3:
        if complements and rng.random() < 0.3:
            return GeomExpression(('^', Cell('7')))
        return Surface(rng.choice(surfaces) * rng.choice((1, -1)))
    return GeomExpression((rng.choice('*:'), random_tree(rng, depth - 1, complements, surfaces),
                           random_tree(rng, depth - 1, complements, surfaces)))


def subtree(S, name, complements=False):
    """An arbitrary sub-tree: opaque with the induction hypothesis in proof mode, a random concrete tree otherwise."""
    if S.mode == 'sym':
        return OpaqueExpr(den=S.bool('den_' + name), binary=True, has_complement=complements)
    return random_tree(S.rng, 2, complements)
