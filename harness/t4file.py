"""Independent reader and point-membership evaluator for the TRIPOLI-4 files the converter writes
(specification: specs/surfaces.py for the surface types; VOLU semantics of DESIGN Appendix A)."""
import math
import re


class T4FormatError(Exception):
    pass


SURF_ARITY = {'PLANEX': 1, 'PLANEY': 1, 'PLANEZ': 1, 'PLANE': 4, 'SPHERE': 4, 'CYLX': 3, 'CYLY': 3, 'CYLZ': 3,
              'CYL': 7, 'CONEX': 4, 'CONEY': 4, 'CONEZ': 4, 'CONE': 7, 'QUAD': 10, 'TORUSX': 6, 'TORUSY': 6,
              'TORUSZ': 6}


def _num(tok):
    try:
        v = float(tok)
    except ValueError:
        raise T4FormatError(f'not a number: {tok!r}')
    if v != v or v in (float('inf'), float('-inf')):
        raise T4FormatError(f'non-finite number: {tok!r}')
    return v


class T4File:
    def __init__(self, text):
        self.text = text
        self.surfaces = {}        # id -> (type, params, transform-or-None)
        self.transforms = {}
        self.volumes = {}         # id -> dict(plus, minus, op, args, fictive, comment)
        self.volume_order = []
        self.compositions = []    # list of dict(kind, name, density, entries)
        self.geomcomp = []        # (name, [volume ids])
        self.boundary = []        # (kind, surface id)
        self.errors = []
        self._parse()

    # ------------------------------------------------------------ parsing
    def _parse(self):
        lines = self.text.split('\n')
        body = [l.split('//')[0].rstrip() for l in lines]
        comments = [(l.split('//', 1)[1].strip() if '//' in l else '') for l in lines]
        section = None
        i = 0
        toks_geomcomp = []
        toks_comp = []
        toks_bc = []
        for ln, (l, c) in enumerate(zip(body, comments)):
            s = l.strip()
            if not s:
                continue
            w = s.split()
            if w[0] == 'GEOMETRY':
                section = 'geom'
                continue
            if w[0] == 'ENDG':
                section = None
                continue
            if w[0] == 'COMPOSITION':
                section = 'comp'
                toks_comp += w[1:]
                continue
            if w[0] == 'END_COMPOSITION':
                section = None
                continue
            if w[0] == 'GEOMCOMP':
                section = 'geomcomp'
                continue
            if w[0] == 'END_GEOMCOMP':
                section = None
                continue
            if w[0] == 'BOUNDARY_CONDITION':
                section = 'bc'
                toks_bc += w[1:]
                continue
            if w[0] == 'END_BOUNDARY_CONDITION':
                section = None
                continue
            if section == 'geom':
                self._geom_line(w, c, ln)
            elif section == 'comp':
                toks_comp += w
            elif section == 'geomcomp':
                toks_geomcomp.append(w)
            elif section == 'bc':
                toks_bc += w
        self._compositions(toks_comp)
        self._geomcomp(toks_geomcomp)
        self._boundary(toks_bc)

    def _geom_line(self, w, comment, ln):
        if w[0] in ('LANG', 'TITLE', 'HASH_TABLE'):
            return
        if w[0] == 'TRANSFORM':
            k = int(w[1])
            if w[2] != 'MATRIX' or len(w) != 15:
                raise T4FormatError(f'line {ln + 1}: malformed TRANSFORM')
            if k in self.transforms:
                self.errors.append(f'transform {k} defined twice')
            self.transforms[k] = [_num(x) for x in w[3:]]
            return
        if w[0] == 'SURF':
            k = int(w[1])
            rest = w[2:]
            tr = None
            if rest[0] == 'TRANSFORM':
                tr = int(rest[1])
                if tr not in self.transforms:
                    self.errors.append(f'surface {k} uses undefined transform {tr}')
                rest = rest[2:]
            typ = rest[0]
            if typ not in SURF_ARITY:
                raise T4FormatError(f'line {ln + 1}: unknown surface type {typ}')
            params = [_num(x) for x in rest[1:]]
            if len(params) != SURF_ARITY[typ]:
                self.errors.append(f'surface {k}: {typ} with {len(params)} parameters')
            if k in self.surfaces:
                self.errors.append(f'surface {k} defined twice')
            self.surfaces[k] = (typ, params, tr)
            return
        if w[0] == 'VOLU':
            k = int(w[1])
            if w[-1] != 'ENDV':
                raise T4FormatError(f'line {ln + 1}: VOLU without ENDV')
            if w[2] != 'EQUA':
                raise T4FormatError(f'line {ln + 1}: VOLU without EQUA')
            j = 3
            vol = {'plus': [], 'minus': [], 'op': None, 'args': [], 'fictive': False, 'comment': comment}
            while j < len(w) - 1:
                kw = w[j]
                if kw in ('PLUS', 'MINUS', 'UNION', 'INTE'):
                    n = int(w[j + 1])
                    ids = w[j + 2:j + 2 + n]
                    if len(ids) != n or any(not re.fullmatch(r'-?\d+', x) for x in ids):
                        self.errors.append(f'volume {k}: {kw} declares {n} items but {w[j + 2:j + 2 + n]} follow')
                        ids = [x for x in ids if re.fullmatch(r'-?\d+', x)]
                    ids = [int(x) for x in ids]
                    if kw == 'PLUS':
                        vol['plus'] += ids
                    elif kw == 'MINUS':
                        vol['minus'] += ids
                    else:
                        if vol['op'] is not None:
                            self.errors.append(f'volume {k}: two operators')
                        vol['op'] = kw
                        vol['args'] = ids
                    j += 2 + n
                elif kw == 'FICTIVE':
                    vol['fictive'] = True
                    j += 1
                else:
                    self.errors.append(f'volume {k}: unexpected token {kw!r}')
                    j += 1
            if k in self.volumes:
                self.errors.append(f'volume {k} defined twice')
            self.volumes[k] = vol
            self.volume_order.append(k)
            return
        raise T4FormatError(f'line {ln + 1}: unexpected geometry line {w[:3]}')

    def _compositions(self, toks):
        if not toks:
            return
        self.n_comp_declared = int(toks[0])
        j = 1
        while j < len(toks):
            kind = toks[j]
            if kind == 'DENSITY':
                temp, name, dens = toks[j + 1], toks[j + 2], toks[j + 3]
                k = j + 4
                flag = ''
                if toks[k] == 'NB_ATOM':
                    flag = 'NB_ATOM'
                    k += 1
                n = int(toks[k])
                ent = toks[k + 1:k + 1 + 2 * n]
                self.compositions.append({'kind': 'DENSITY', 'name': name, 'density': _num(dens), 'flag': flag,
                                          'n': n, 'entries': [(ent[2 * i], _num(ent[2 * i + 1]))
                                                              for i in range(len(ent) // 2)]})
                j = k + 1 + 2 * n
            elif kind == 'POINT_WISE':
                temp, name, n = toks[j + 1], toks[j + 2], int(toks[j + 3])
                ent = toks[j + 4:j + 4 + 2 * n]
                self.compositions.append({'kind': 'POINT_WISE', 'name': name, 'n': n,
                                          'entries': [(ent[2 * i], _num(ent[2 * i + 1]))
                                                      for i in range(len(ent) // 2)]})
                j += 4 + 2 * n
            else:
                raise T4FormatError(f'unexpected token in COMPOSITION: {kind!r}')

    def _geomcomp(self, rows):
        for w in rows:
            name, n = w[0], int(w[1])
            ids = [int(x) for x in w[2:]]
            if len(ids) != n:
                self.errors.append(f'GEOMCOMP {name}: declares {n} volumes, lists {len(ids)}')
            self.geomcomp.append((name, ids))

    def _boundary(self, toks):
        if not toks:
            return
        self.n_bc_declared = int(toks[0])
        rest = toks[1:]
        if len(rest) % 3:
            self.errors.append('BOUNDARY_CONDITION: entries are not triples')
        for i in range(0, len(rest) - 2, 3):
            self.boundary.append((rest[i + 1], int(rest[i + 2])))

    # ------------------------------------------------------------ evaluation
    def surf_value(self, k, pt):
        typ, p, tr = self.surfaces[k]
        x, y, z = pt
        if tr is not None:
            t = self.transforms[tr]
            o, m = t[0:3], t[3:12]
            d = (x - o[0], y - o[1], z - o[2])
            # x_main = M x_local + t  =>  x_local = M^T (x_main - t)
            x, y, z = (m[0] * d[0] + m[3] * d[1] + m[6] * d[2], m[1] * d[0] + m[4] * d[1] + m[7] * d[2],
                       m[2] * d[0] + m[5] * d[1] + m[8] * d[2])
        if typ == 'PLANEX':
            return x - p[0]
        if typ == 'PLANEY':
            return y - p[0]
        if typ == 'PLANEZ':
            return z - p[0]
        if typ == 'PLANE':
            return p[0] * x + p[1] * y + p[2] * z + p[3]
        if typ == 'SPHERE':
            return (x - p[0]) ** 2 + (y - p[1]) ** 2 + (z - p[2]) ** 2 - p[3] ** 2
        if typ == 'CYLX':
            return (y - p[0]) ** 2 + (z - p[1]) ** 2 - p[2] ** 2
        if typ == 'CYLY':
            return (x - p[0]) ** 2 + (z - p[1]) ** 2 - p[2] ** 2
        if typ == 'CYLZ':
            return (x - p[0]) ** 2 + (y - p[1]) ** 2 - p[2] ** 2
        if typ in ('CYL', 'CONE'):
            d = (x - p[0], y - p[1], z - p[2])
            u = p[4:7]
            uu = sum(a * a for a in u)
            h = sum(a * b for a, b in zip(d, u))
            dd = sum(a * a for a in d)
            if typ == 'CYL':
                return dd * uu - h * h - p[3] ** 2 * uu
            t = math.tan(math.radians(p[3]))
            return dd * uu - (1 + t * t) * h * h
        if typ in ('CONEX', 'CONEY', 'CONEZ'):
            d = (x - p[0], y - p[1], z - p[2])
            k_ = 'XYZ'.index(typ[-1])
            h = d[k_]
            t = math.tan(math.radians(p[3]))
            return sum(a * a for a in d) - h * h - t * t * h * h
        if typ == 'QUAD':
            return (p[0] * x * x + p[1] * y * y + p[2] * z * z + p[3] * x * y + p[4] * y * z + p[5] * z * x
                    + p[6] * x + p[7] * y + p[8] * z + p[9])
        if typ in ('TORUSX', 'TORUSY', 'TORUSZ'):
            d = (x - p[0], y - p[1], z - p[2])
            k_ = 'XYZ'.index(typ[-1])
            h = d[k_]
            rho = math.sqrt(max(0.0, sum(a * a for a in d) - h * h))
            return h * h / p[4] ** 2 + (rho - p[3]) ** 2 / p[5] ** 2 - 1
        raise T4FormatError(typ)

    def near_surface(self, pt, tol=1e-6):
        for k in self.surfaces:
            v = self.surf_value(k, pt)
            if abs(v) <= tol:
                return True
        return False

    def in_volume(self, k, pt, _depth=0):
        if _depth > 200:
            raise T4FormatError('volume operator recursion too deep (cycle?)')
        v = self.volumes[k]
        equa = all(self.surf_value(s, pt) > 0 for s in v['plus']) and all(self.surf_value(s, pt) < 0 for s in v['minus'])
        if v['op'] is None:
            return equa
        if v['op'] == 'INTE':
            return equa and all(self.in_volume(a, pt, _depth + 1) for a in v['args'])
        return equa or any(self.in_volume(a, pt, _depth + 1) for a in v['args'])

    def locate(self, pt):
        """ids of the non-virtual volumes containing the point"""
        return [k for k in self.volume_order if not self.volumes[k]['fictive'] and self.in_volume(k, pt)]

    # ------------------------------------------------------------ structural validity (C08)
    def structural_errors(self):
        errs = list(self.errors)
        for k, v in self.volumes.items():
            for s in v['plus'] + v['minus']:
                if s not in self.surfaces:
                    errs.append(f'volume {k} references undefined surface {s}')
            both = set(v['plus']) & set(v['minus'])
            if both:
                errs.append(f'volume {k} lists surface(s) {sorted(both)} on both sides')
            for a in v['args']:
                if a not in self.volumes:
                    errs.append(f'volume {k}: operator references undefined volume {a}')
        names = [c['name'] for c in self.compositions]
        if self.compositions or hasattr(self, 'n_comp_declared'):
            if getattr(self, 'n_comp_declared', None) != len(self.compositions):
                errs.append(f'COMPOSITION declares {getattr(self, "n_comp_declared", None)}, {len(self.compositions)} follow')
            if len(set(names)) != len(names):
                errs.append('composition name defined twice')
            for c in self.compositions:
                if c['n'] != len(c['entries']):
                    errs.append(f'composition {c["name"]}: declared {c["n"]} nuclides')
        assigned = {}
        for name, ids in self.geomcomp:
            if self.compositions and name not in names:
                errs.append(f'GEOMCOMP uses undefined composition {name}')
            for i in ids:
                if i not in self.volumes:
                    errs.append(f'GEOMCOMP {name} references undefined volume {i}')
                assigned.setdefault(i, []).append(name)
        if self.geomcomp:
            for k, v in self.volumes.items():
                if not v['fictive'] and len(assigned.get(k, [])) != 1:
                    errs.append(f'non-virtual volume {k} assigned to {len(assigned.get(k, []))} compositions')
        if self.boundary or hasattr(self, 'n_bc_declared'):
            if getattr(self, 'n_bc_declared', None) != len(self.boundary):
                errs.append(f'BOUNDARY_CONDITION declares {getattr(self, "n_bc_declared", None)}, {len(self.boundary)} follow')
            for kind, s in self.boundary:
                if s not in self.surfaces:
                    errs.append(f'boundary condition on undefined surface {s}')
        return errs
