"""Deck-level bounded checks: convert a generated deck with the real code and compare the written file with the
deck model's own oracle at probe points."""
import random
import re
import traceback

from . import run, t4file, decks


def comp_name(deck, cell_id):
    c = deck.cells[cell_id]
    base = c
    while base.like:
        base = deck.cells[base.like[0]]
    mat, rho = c.mat_eff if hasattr(c, 'mat_eff') else (base.mat, base.rho)
    if not mat:
        return 'm0'
    return f'm{mat}', float(rho)


def check_deck(deck, seed, flags=(), lattice=(), n_points=60, want=('C01', 'C08', 'C09', 'C12', 'C16'),
               max_inline_score=1.0, text=None, points=None):
    """Returns (list of failures, stats).  A failure is a dict(label, property, detail, deck text, point)."""
    rng = random.Random(f'fmt{seed}')
    text = text if text is not None else deck.text(rng)
    fails = []
    stats = {'points': 0, 'located': 0, 'volumes': 0}

    def fail(prop, label, detail, pt=None):
        fails.append({'property': prop, 'label': label, 'detail': detail, 'point': pt, 'deck': text,
                      'flags': list(flags), 'lattice': list(lattice)})
    t4, out, exc = run.convert(text, lattice=lattice, flags=flags, max_inline_score=max_inline_score)
    if exc is not None:
        fail('C08', 'conversion-raised', f'{type(exc).__name__}: {exc}')
        return fails, stats, None
    try:
        f = t4file.T4File(t4)
    except Exception as e:
        fail('C08', 'unreadable-file', f'{type(e).__name__}: {e}')
        return fails, stats, None
    stats['volumes'] = len(f.volumes)
    for e in f.structural_errors():
        fail('C08', 'structure', e)
    # C12: exactly the zero-importance level-0 cells are left out and listed
    zero = sorted(c.id for c in deck.cells.values() if c.universe == 0 and c.imp == 0)
    m = re.search(r'importance is equal to zero:\s*\[([^\]]*)\]', out)
    noted = sorted(int(x) for x in m.group(1).split(',') if x.strip()) if m else []
    if 'C12' in want and noted != zero:
        fail('C12', 'end-of-run-note', f'zero-importance cells {zero}, note lists {noted}')
    for c in deck.cells.values():
        if c.universe == 0 and c.fill is None and c.fill_array is None:
            if c.imp == 0 and c.id in f.volumes and 'C12' in want:
                fail('C12', 'zero-importance-cell-emitted', f'cell {c.id}')
    gc = {}
    for name, ids in f.geomcomp:
        for i in ids:
            gc.setdefault(i, []).append(name)
    pts = points if points is not None else decks.probe_points(seed, n_points)
    for pt in pts:
        stats['points'] += 1
        try:
            loc = deck.locate(pt)
        except NotImplementedError:
            continue
        if loc is None or f.near_surface(pt, 1e-6):
            continue
        if isinstance(loc, tuple):
            continue          # the generated deck is ill-defined there (not the converter's problem)
        stats['located'] += 1
        vols = f.locate(pt)
        if loc[-1] in ('outside-lattice', 'lattice-universe-0'):
            if vols and 'C06' in want:
                fail('C06', 'volume-where-the-lattice-has-none', f'{loc}: volumes {vols}', pt)
            continue
        top = deck.cells[loc[0]]
        if top.imp == 0:
            if vols and 'C01' in want:
                fail('C01', 'point-of-zero-importance-cell-in-a-volume', f'cell {loc[0]} imp=0, volumes {vols}', pt)
            continue
        if len(vols) != 1:
            if 'C01' in want or 'C06' in want:
                fail('C06' if 'C06' in want else 'C01', 'point-not-in-exactly-one-volume', f'owner path {loc}, volumes {vols}', pt)
            continue
        v = vols[0]
        if len(loc) == 1:
            if v != loc[0] and 'C01' in want:
                fail('C01', 'volume-number-is-not-the-cell-number', f'owner {loc}, volume {v}', pt)
        else:
            com = f.volumes[v]['comment']
            pairs = re.findall(r'\((\d+), (\d+)\)', com)
            # provenance: the filler (lowest-level owner) comes first, the level-0 container last; intermediate
            # containers may be copies made by the converter (lattice elements, moved cells) with new numbers
            leaf_is_lattice = bool(deck.cells[loc[-1]].lat) if loc[-1] in deck.cells else False
            ok = bool(pairs) and pairs[-1][1] == str(loc[0]) and (leaf_is_lattice or pairs[0][0] == str(loc[-1]))
            if ('C05' in want or 'C06' in want) and not ok:
                fail('C06' if 'C06' in want else 'C05', 'provenance',
                     f'owner path {loc}, volume {v} comment {com!r}', pt)
        if 'C09' in want and f.geomcomp:
            leaf = deck.cells[loc[-1]]
            base = leaf
            while base.like:
                base = deck.cells[base.like[0]]
            mat = getattr(leaf, 'mat_eff', base.mat)
            rho = getattr(leaf, 'rho_eff', base.rho)
            names = gc.get(v, [])
            if len(names) == 1:
                nm = names[0]
                if not mat:
                    ok = nm == 'm0'
                else:
                    mm = re.fullmatch(r'm(\d+)_(.+)', nm)
                    ok = bool(mm) and int(mm.group(1)) == int(mat) and _same_number(mm.group(2), rho)
                if not ok:
                    fail('C09', 'composition-of-volume', f'owner {loc} has material {mat} density {rho}; volume {v} -> {nm}', pt)
    return fails, stats, f


def _same_number(a, b):
    try:
        return abs(float(a.lower().replace('d', 'e')) - float(str(b).lower().replace('d', 'e'))) < 1e-12
    except ValueError:
        return False
