"""Deck-level bounded checks: convert a generated deck with the real code and compare the written file with the
deck model's own oracle at probe points."""
import random
import re
import traceback

from . import run, t4file, decks


def comp_name(deck, cell_id):
    c = deck.cells[cell_id]
    base = c
    while base.like:
        base = deck.cells[base.like[0]]
    mat, rho = c.mat_eff if hasattr(c, 'mat_eff') else (base.mat, base.rho)
    if not mat:
        return 'm0'
    return f'm{mat}', float(rho)


def check_deck(deck, seed, flags=(), lattice=(), n_points=60, want=('C01', 'C08', 'C09', 'C12', 'C16'),
               max_inline_score=1.0, text=None, points=None):
    """Returns (list of failures, stats).  A failure is a dict(label, property, detail, deck text, point)."""
    rng = random.Random(f'fmt{seed}')
    text = text if text is not None else deck.text(rng)
    fails = []
    stats = {'points': 0, 'located': 0, 'volumes': 0}

    def fail(prop, label, detail, pt=None):
        fails.append({'property': prop, 'label': label, 'detail': detail, 'point': pt, 'deck': text,
                      'flags': list(flags), 'lattice': list(lattice)})
    t4, out, exc = run.convert(text, lattice=lattice, flags=flags, max_inline_score=max_inline_score)
    if exc is not None:
        # a deck in which no probe point belongs to a cell of non-zero importance has nothing to convert (the
        # generator produced an ill-posed deck, e.g. a first cell covering all space): not a statement about the code
        pts0 = points if points is not None else decks.probe_points(seed, n_points)
        alive = False
        for pt in pts0:
            try:
                loc = deck.locate(pt)
            except Exception:
                loc = None
            if isinstance(loc, list) and loc and loc[0] in deck.cells and deck.cells[loc[0]].imp != 0 \
                    and loc[-1] not in ('lattice-universe-0', 'outside-lattice'):
                alive = True
                break
        if alive:
            fail('C08', 'conversion-raised', f'{type(exc).__name__}: {exc}')
        return fails, stats, None
    try:
        f = t4file.T4File(t4)
    except Exception as e:
        fail('C08', 'unreadable-file', f'{type(e).__name__}: {e}')
        return fails, stats, None
    stats['volumes'] = len(f.volumes)
    def bc_fail(label, detail):
        if 'C16' in want:
            fail('C16', label, detail)
        if label != 'entry-on-a-surface-that-is-not-flagged' and label != 'not-exactly-one-entry-of-the-right-kind':
            fail('C08', 'boundary:' + label, detail)
    for e in f.structural_errors():
        if e.startswith('boundary condition on undefined surface'):
            continue        # classified by cause below (see bc_fail)
        fail('C08', 'structure', e)
    # C12: exactly the zero-importance level-0 cells are left out and listed
    zero = sorted(c.id for c in deck.cells.values() if c.universe == 0 and c.imp == 0)
    m = re.search(r'importance is equal to zero:\s*\[([^\]]*)\]', out)
    noted = sorted(int(x) for x in m.group(1).split(',') if x.strip()) if m else []
    # the property speaks of level-0 cells only: zero-importance cells of filling universes may be listed as well
    noted = [n for n in noted if n not in deck.cells or deck.cells[n].universe == 0]
    if 'C12' in want and noted != zero:
        fail('C12', 'end-of-run-note', f'zero-importance cells {zero}, note lists {noted}')
    for c in deck.cells.values():
        if c.universe == 0 and c.fill is None and c.fill_array is None:
            if c.imp == 0 and c.id in f.volumes and 'C12' in want:
                fail('C12', 'zero-importance-cell-emitted', f'cell {c.id}')
    if True:
        flagged = {s.id: s for s in deck.surfs.values() if s.bc}
        used = set()
        for c in deck.cells.values():
            _collect_surfaces(c.expr, used)
        # a flagged surface "bounds a converted cell" when some cell with non-zero importance references it
        bounding = set()
        for c in deck.cells.values():
            # "bounds a converted cell": referenced by a cell of non-zero importance that was actually converted
            # (a cell that is empty, e.g. because another cell already covers all space, yields no volume)
            converted = c.id in f.volumes or c.fill is not None or c.fill_array is not None
            # (a cell with TRCL uses moved copies of its surfaces, not the surfaces themselves)
            if c.imp != 0 and c.universe == 0 and converted and c.trcl is None:
                u = set()
                _collect_surfaces(c.expr, u, deck, set())
                bounding |= u
        entries = {}
        for kind, sid in f.boundary:
            entries.setdefault(sid, []).append(kind)
        for sid, s in flagged.items():
            want_kind = {'*': 'REFLECTION', '+': 'COSINUS'}[s.bc]
            kinds = entries.get(sid, [])
            if kinds != [want_kind]:
                bc_fail('not-exactly-one-entry-of-the-right-kind', f'surface {s.bc}{sid}: entries {kinds}')
                continue
            if sid in f.surfaces and _same_locus(f, sid, deck, sid):
                continue
            merged = [k for k in f.surfaces if k != sid and _same_locus(f, k, deck, sid)]
            if sid in f.surfaces and sid in bounding:
                bc_fail('entry-designates-a-written-surface-with-another-locus',
                     f'surface {s.bc}{sid}: SURF {sid} of the file is not the flagged surface'
                     + (f' (surfaces {merged[:2]} are)' if merged else ''))
            elif sid not in bounding:
                # known finding F6, plain case: the flagged surface is used by no converted cell at all (that some
                # other written surface happens to have the same locus is irrelevant)
                bc_fail('entry-on-a-flagged-surface-bounding-no-converted-cell',
                     f'surface {s.bc}{sid} (used by no cell of non-zero importance): the entry designates {sid}, '
                     'which is not a SURF of the file')
            elif merged and min(merged) < sid:
                # known finding F5: the flagged card duplicates a surface with a SMALLER number, which is the one kept
                bc_fail('entry-on-a-surface-number-removed-by-deduplication',
                     f'surface {s.bc}{sid} was merged into {merged[:2]}; the entry still designates {sid}')
            elif merged:
                # not F5: the flagged surface has the smallest number among its duplicates and must have been kept
                bc_fail('flagged-surface-with-the-smallest-number-of-its-duplicates-was-removed',
                     f'surface {s.bc}{sid} was merged into the larger number(s) {merged[:2]}; the entry still designates {sid}')
            else:
                # known finding F6: no written volume uses a surface with this locus (the flagged surface is unused,
                # used only by cells that are not converted, or was simplified away, e.g. `-3 3`), yet the writer
                # emits an entry for every flagged card.  (A surface that is needed but not written would show up as a
                # structural / membership failure of C08 / C01, not here.)
                how = 'referenced by a converted cell but simplified away' if sid in bounding else 'used by no cell of non-zero importance'
                bc_fail('entry-on-a-flagged-surface-bounding-no-converted-cell',
                     f'surface {s.bc}{sid} ({how}): the entry designates {sid}, which is not a SURF of the file')
        for sid, kinds in entries.items():
            if sid in flagged:
                continue
            if sid not in deck.surfs:
                # a surface number generated by the converter (moved copy of a surface for a cell with TRCL /
                # FILL): the copy of a flagged surface carries the flag; it must at least be written
                if sid not in f.surfaces:
                    bc_fail('entry-on-a-generated-copy-of-a-flagged-surface-that-is-not-written',
                            f'generated surface {sid} (moved copy of a flagged surface, merged by de-duplication or '
                            'used by no converted cell)')
                continue
            bc_fail('entry-on-a-surface-that-is-not-flagged', f'entry {kinds} on {sid}')
    if 'C10' in want and f.compositions:
        _check_compositions(deck, f, fail)
    gc = {}
    for name, ids in f.geomcomp:
        for i in ids:
            gc.setdefault(i, []).append(name)
    pts = points if points is not None else decks.probe_points(seed, n_points)
    for pt in pts:
        stats['points'] += 1
        try:
            loc = deck.locate(pt)
        except NotImplementedError:
            continue
        if loc is None or f.near_surface(pt, 1e-6):
            continue
        if isinstance(loc, tuple):
            continue          # the generated deck is ill-defined there (not the converter's problem)
        stats['located'] += 1
        vols = f.locate(pt)
        if loc[-1] in ('outside-lattice', 'lattice-universe-0'):
            if vols and 'C06' in want:
                fail('C06', 'volume-where-the-lattice-has-none', f'{loc}: volumes {vols}', pt)
            continue
        top = deck.cells[loc[0]]
        if top.imp == 0:
            if vols and 'C01' in want:
                fail('C01', 'point-of-zero-importance-cell-in-a-volume', f'cell {loc[0]} imp=0, volumes {vols}', pt)
            if vols and 'C12' in want:
                fail('C12', 'point-of-zero-importance-cell-in-a-volume', f'cell {loc[0]} imp=0, volumes {vols}', pt)
            continue
        if not vols and 'C12' in want:
            fail('C12', 'point-of-a-level-0-cell-of-non-zero-importance-in-no-volume', f'owner path {loc}', pt)
        if len(vols) != 1:
            if 'C01' in want or 'C06' in want:
                fail('C06' if 'C06' in want else 'C01', 'point-not-in-exactly-one-volume', f'owner path {loc}, volumes {vols}', pt)
            continue
        v = vols[0]
        if len(loc) == 1:
            if v != loc[0] and 'C01' in want:
                fail('C01', 'volume-number-is-not-the-cell-number', f'owner {loc}, volume {v}', pt)
        else:
            com = f.volumes[v]['comment']
            pairs = re.findall(r'\((\d+), (\d+)\)', com)
            # provenance: the filler (lowest-level owner) comes first, the level-0 container last; intermediate
            # containers may be copies made by the converter (lattice elements, moved cells) with new numbers
            leaf_is_lattice = bool(deck.cells[loc[-1]].lat) if loc[-1] in deck.cells else False
            ok = bool(pairs) and pairs[-1][1] == str(loc[0]) and (leaf_is_lattice or pairs[0][0] == str(loc[-1]))
            if ('C05' in want or 'C06' in want) and not ok:
                fail('C06' if 'C06' in want else 'C05', 'provenance',
                     f'owner path {loc}, volume {v} comment {com!r}', pt)
        if 'C09' in want and f.geomcomp:
            leaf = deck.cells[loc[-1]]
            base = leaf
            while base.like:
                base = deck.cells[base.like[0]]
            mat = getattr(leaf, 'mat_eff', base.mat)
            rho = getattr(leaf, 'rho_eff', base.rho)
            names = gc.get(v, [])
            if len(names) == 1:
                nm = names[0]
                if not mat:
                    ok = nm == 'm0'
                else:
                    mm = re.fullmatch(r'm(\d+)_(.+)', nm)
                    ok = bool(mm) and int(mm.group(1)) == int(mat) and _same_number(mm.group(2), rho)
                if not ok:
                    fail('C09', 'composition-of-volume', f'owner {loc} has material {mat} density {rho}; volume {v} -> {nm}', pt)
    return fails, stats, f


def _fnum(x):
    t = str(x).lower().replace('d', 'e')
    m = re.fullmatch(r'([-+]?(?:\d+\.?\d*|\.\d+))([-+]\d+)', t)
    if m:
        t = m.group(1) + 'e' + m.group(2)
    return float(t)


def _same_number(a, b):
    try:
        return abs(_fnum(a) - _fnum(b)) < 1e-12
    except ValueError:
        return False


def _collect_surfaces(e, out, deck=None, seen=None):
    if e is None:
        return
    if e[0] in ('s', 'f'):
        out.add(abs(e[1]))
    elif e[0] == '#':
        if deck is not None and e[1] not in seen:
            seen.add(e[1])
            if deck.cells[e[1]].trcl is None:      # a cell with TRCL is made of moved copies of its surfaces
                _collect_surfaces(deck.cells[e[1]].expr, out, deck, seen)
    else:
        for a in e[1:]:
            _collect_surfaces(a, out, deck, seen)


def _same_locus(f, t4_id, deck, mcnp_id, n=600):
    """Does T4 surface t4_id vanish / change sign exactly where MCNP surface mcnp_id does (sampled: the senses must
    agree -- or be opposite -- at every one of n points; small bodies have few interior points, so many are drawn)?"""
    import random
    rng = random.Random(t4_id * 7919 + mcnp_id)
    agree = disagree = 0
    for _ in range(n):
        pt = (rng.uniform(-2.6, 2.6), rng.uniform(-2.6, 2.6), rng.uniform(-2.6, 2.6))
        neg = deck.sense_neg(mcnp_id, pt)
        if neg is None:
            continue
        ms = deck.surfs.get(mcnp_id)
        if ms is not None and ms.mn in ('kx', 'ky', 'kz') and len(ms.params) == 3:
            # one-sheet cone: the T4 cone has both sheets (the apex plane is a separate surface); compare on the side
            # of the apex where the MCNP sheet lives (in the frame of the card when it carries a TR number)
            ax = 'xyz'.index(ms.mn[1])
            q = deck.to_aux(('num', ms.tr), pt) if ms.tr else pt
            if (q[ax] - ms.params[0]) * ms.params[2] <= 0:
                continue
        elif ms is not None and ms.mn in ('k/x', 'k/y', 'k/z') and len(ms.params) == 5:
            ax = 'xyz'.index(ms.mn[2])
            q = deck.to_aux(('num', ms.tr), pt) if ms.tr else pt
            if (q[ax] - ms.params[ax]) * ms.params[4] <= 0:
                continue
        v = f.surf_value(t4_id, pt)
        if abs(v) < 1e-7:
            continue
        if (v < 0) == neg:
            agree += 1
        else:
            disagree += 1
    return agree + disagree >= n // 6 and (disagree == 0 or agree == 0)


_SYMBOLS = ('H HE LI BE B C N O F NE NA MG AL SI P S CL AR K CA SC TI V CR MN FE CO NI CU ZN GA GE AS SE BR KR RB SR Y '
            'ZR NB MO TC RU RH PD AG CD IN SN SB TE I XE CS BA LA CE PR ND PM SM EU GD TB DY HO ER TM YB LU HF TA W RE '
            'OS IR PT AU HG TL PB BI PO AT RN FR RA AC TH PA U NP PU AM CM BK CF ES FM MD NO LR RF DB SG BH HS MT DS RG '
            'CN NH FL MC LV TS OG').split()


def _nuclide(zaid):
    z = zaid.split('.')[0]
    a = int(z[-3:])
    return _SYMBOLS[int(z[:-3]) - 1] + (str(a) if a else '-NAT')


def _check_compositions(deck, f, fail):
    comps = {c['name']: c for c in f.compositions}
    if 'm0' not in comps:
        fail('C10', 'void-composition-missing', 'no m0 composition')
    for name, c in comps.items():
        if name == 'm0':
            continue
        m = re.fullmatch(r'm(\d+)_(.+)', name)
        if not m or int(m.group(1)) not in deck.materials:
            fail('C10', 'composition-of-an-unknown-material', name)
            continue
        card = deck.materials[int(m.group(1))]
        rho = float(m.group(2).lower().replace('d', 'e'))
        want_names = [_nuclide(z) for z, _ in card]
        got_names = [n for n, _ in c['entries']]
        if rho > 0 and card[0][1] < 0:
            continue      # mass fractions with an atom density: documented as unsupported (warning), not claimed
        if got_names != want_names:
            fail('C10', 'nuclides-differ-from-the-material-card', f'{name}: {got_names} vs card {want_names}')
            continue
        fr = [fv for _, fv in card]
        positive = fr[0] > 0
        vals = [v for _, v in c['entries']]
        if rho < 0:
            if c['kind'] != 'DENSITY' or abs(c['density'] - abs(rho)) > 1e-12:
                fail('C10', 'mass-density-not-written-as-DENSITY', f'{name}: {c["kind"]} {c.get("density")}')
            if (c.get('flag') == 'NB_ATOM') != positive:
                fail('C10', 'atom-fraction-flag', f'{name}: flag {c.get("flag")!r}, card fractions positive={positive}')
            if any(abs(v - abs(x)) > 1e-12 * max(1, abs(x)) for v, x in zip(vals, fr)):
                fail('C10', 'fractions-are-not-the-absolute-card-values', f'{name}: {vals} vs {fr}')
        else:
            if c['kind'] != 'POINT_WISE':
                fail('C10', 'atom-density-not-written-as-POINT_WISE', f'{name}: {c["kind"]}')
            elif positive:
                tot = sum(fr)
                if abs(sum(vals) - rho) > 1e-9 * rho or any(abs(v * tot - x * rho) > 1e-9 * rho * tot
                                                           for v, x in zip(vals, fr)):
                    fail('C10', 'concentrations-not-proportional-or-not-summing-to-the-density',
                         f'{name}: {vals} vs fractions {fr}, density {rho}')
