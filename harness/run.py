"""Run the real converter in-process on a deck text."""
import contextlib
import io
import os
import sys
import tempfile
import types


def convert(deck_text, lattice=(), flags=(), max_inline_score=1.0, workdir=None, keep=False, name='deck'):
    """Returns (t4_text | None, stdout_text, exception | None).  The real t4_geom_convert.main.conversion runs on a
    temporary copy of the deck with the parser stand-in installed in this process."""
    from . import shim
    from t4_geom_convert import main as M
    shim.install()
    d = tempfile.mkdtemp(prefix='t4gc_', dir=workdir or os.environ.get('TMPDIR'))
    inp = os.path.join(d, name + '.imcnp')
    out = os.path.join(d, name + '.t4')
    with open(inp, 'w') as f:
        f.write(deck_text)
    argv = [inp, '-o', out]
    for l in lattice:
        argv += ['--lattice', l]
    argv += list(flags)
    if max_inline_score != 1.0:
        argv += ['--max-inline-score', str(max_inline_score)]
    buf = io.StringIO()
    exc = None
    text = None
    try:
        with contextlib.redirect_stdout(buf), contextlib.redirect_stderr(io.StringIO()):
            import warnings
            with warnings.catch_warnings():
                warnings.simplefilter('ignore')
                args = M.parse_args(argv)
                M.conversion(args)
        with open(out) as f:
            text = f.read()
    except BaseException as e:      # SystemExit from argparse included
        exc = e
        if os.path.exists(out):
            with open(out) as f:
                text = f.read()
    finally:
        with open(inp) as f:
            after = f.read()
        if not keep:
            for fn in os.listdir(d):
                os.unlink(os.path.join(d, fn))
            os.rmdir(d)
    if after != deck_text:
        exc = exc or AssertionError('input file was modified by the conversion')
    return text, buf.getvalue(), exc
