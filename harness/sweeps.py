"""Parallel sweeps of generated decks (bounded stand-ins, one entry per property)."""
import os
import re
import time

from pyvc.runner import run_units

FAMILIES = {}


def family(name):
    def deco(fn):
        FAMILIES[name] = fn
        return fn
    return deco


@family('level0')
def _level0(seed):
    from . import decks
    return decks.level0_deck(seed, n_cells=3 + seed % 3, n_surfs=3 + seed % 4), {}


@family('fill')
def _fill(seed):
    from . import decks
    return decks.fill_deck(seed), {}


@family('lattice')
def _lattice(seed):
    from . import decks
    d = decks.lattice_deck(seed)
    return d, {'lattice': d.lattice_opts}


@family('directed')
def _directed(seed):
    from . import decks
    return decks.directed_deck(seed), {}


@family('hexlattice')
def _hexlattice(seed):
    from . import decks
    d = decks.hex_deck(seed)
    return d, {'lattice': d.lattice_opts}


def _pick(fails, per_label=3, total=80):
    """At most `per_label` failures of each distinct label (so that frequent known findings cannot crowd out a new
    kind of failure), `total` at most."""
    seen = {}
    out = []
    for f in fails:
        k = (f.get('property'), f.get('label'))
        seen[k] = seen.get(k, 0) + 1
        if seen[k] <= per_label:
            out.append(f)
    return out[:total]


def _norm_label(f):
    lab = f['label']
    if lab in ('structure', 'conversion-raised', 'unreadable-file'):
        lab += ':' + re.sub(r'[-+]?\d+(\.\d+)?', 'N', f['detail'])[:70].strip().replace(' ', '-')
    return lab


def _one(fam, seed, props, kw):
    import sys
    from . import checks
    deck, opts = FAMILIES[fam](seed)
    opts = dict(opts)
    opts.update(kw)
    retag = opts.pop('retag', None)
    remap = opts.pop('remap', None)           # e.g. {'C06': 'C07'}: the lattice checks stand for the hexagonal property
    want = tuple(props) + ('C08',)
    if remap:
        want = tuple(remap) + ('C08',)
    if retag:
        want = tuple(retag) + ('C08',)
    fails, stats, _ = checks.check_deck(deck, seed, want=want, **opts)
    if retag and not any(c.like for c in deck.cells.values()):
        return {'fails': [], 'stats': stats, 'nontrivial': False}      # only decks with LIKE cells count here
    out = []
    for f in fails:
        f = dict(f)
        if retag and f['property'] in retag:
            f['property'] = props[0]
        if remap and f['property'] in remap:
            f['property'] = remap[f['property']]
        f['label'] = _norm_label(f)
        f['family'], f['seed'] = fam, seed
        out.append(f)
    nontrivial = stats['located'] > 0 and stats['volumes'] > 1
    return {'fails': out, 'stats': stats, 'nontrivial': nontrivial}


def deck_sweep(prop, tier, seed, families=('level0',), n_quick=48, n_thorough=600, kw=None, name=None):
    n = n_quick if tier == 'quick' else n_thorough
    units = []
    for fam in families:
        for i in range(n):
            s = seed * 100003 + i
            units.append(((fam, s), (fam, s, [prop], kw or {})))
    if 'level0' in families or 'fill' in families:
        # the hand-made decks (input shapes random generation meets too rarely) go with every flat / filled sweep
        from .decks import N_DIRECTED
        for i in range(N_DIRECTED):
            units.append((('directed', i), ('directed', i, [prop], kw or {})))
    t0 = time.time()
    res = run_units(units, _one, unit_timeout=300)
    fails, evals, pts, nontriv, errors = [], 0, 0, 0, []
    for key, (kind, r) in res.items():
        if kind != 'ok':
            errors.append({'label': 'harness-error', 'case': f'{key[0]}/{key[1]}', 'detail': (r or kind)[-600:],
                           'property': prop, 'family': key[0], 'seed': key[1], 'harness_error': True})
            continue
        evals += 1
        pts += r['stats']['located']
        nontriv += 1 if r['nontrivial'] else 0
        for f in r['fails']:
            if f['property'] == prop:
                f['case'] = f'{key[0]}/{key[1]}'
                fails.append(f)
    return {'name': name or f'deck-sweep[{"+".join(families)}]', 'kind': 'bounded (generated decks, real conversion, '
            'independent T4 reader and MCNP oracle)', 'evaluations': evals, 'distinct_nontrivial': nontriv,
            'probe_points_located': pts, 'exhaustive': False,
            'rule': f'{n} seeded decks per family {list(families)} (seed base {seed}); a deck is non-trivial when at '
                    'least one probe point was located by the oracle and more than one volume was written',
            'failures': _pick(fails), 'harness_errors': errors[:3], 'wall_s': round(time.time() - t0, 1)}


FLAG_SETS = [(), ('--skip-deduplication',), ('--always-inline-filling',), ('--always-inline-filled',),
             ('--skip-deduplication', '--always-inline-filling'), ('--skip-deduplication', '--always-inline-filled'),
             ('--always-inline-filling', '--always-inline-filled'),
             ('--skip-deduplication', '--always-inline-filling', '--always-inline-filled')]


def _identity_map(deck, f, pts):
    """point -> (provenance of the owning volume, composition) as read from one written file"""
    gc = {}
    for name, ids in f.geomcomp:
        for i in ids:
            gc[i] = name
    out = []
    for pt in pts:
        if f.near_surface(pt, 1e-6):
            out.append(None)
            continue
        vols = f.locate(pt)
        out.append(tuple(sorted((f.volumes[v]['comment'] if f.volumes[v]['comment'] else str(v), gc.get(v))
                                for v in vols)))
    return out


def _flags_one(fam, seed, tier):
    from . import checks, decks, run, t4file
    import random
    deck, opts = FAMILIES[fam](seed)
    text = deck.text(random.Random(f'fmt{seed}'))
    pts = decks.probe_points(seed, 50)
    base = None
    fails = []
    combos = [(fl, 1.0) for fl in FLAG_SETS] + [((), 0.0), ((), 0.5), ((), 1e9), (('--skip-deduplication',), 1e9)]
    if tier == 'quick':
        combos = combos[:4] + combos[6:7] + combos[8:]
    n = 0
    for flags, score in combos:
        t4, out, exc = run.convert(text, lattice=opts.get('lattice', ()), flags=flags, max_inline_score=score)
        if exc is not None and base is None and not flags and score == 1.0:
            # the default run itself fails: not a statement about options (reported by the other properties)
            return {'fails': [], 'stats': {'located': 0, 'volumes': 0, 'runs': 0}, 'nontrivial': False}
        if exc is not None:
            fails.append({'property': 'C13', 'label': 'conversion-raised-under-options',
                          'detail': f'{flags} score={score}: {type(exc).__name__}: {exc}', 'deck': text,
                          'flags': list(flags), 'family': fam, 'seed': seed, 'point': None})
            continue
        f = t4file.T4File(t4)
        m = _identity_map(deck, f, pts)
        n += 1
        if base is None:
            base = m
            continue
        for pt, a, b in zip(pts, base, m):
            if a is not None and b is not None and a != b:
                fails.append({'property': 'C13', 'label': 'options-change-the-owner-of-a-point',
                              'detail': f'{flags} score={score}: default run {a}, this run {b}', 'deck': text,
                              'flags': list(flags), 'family': fam, 'seed': seed, 'point': pt})
                break
    return {'fails': fails, 'stats': {'located': len(pts), 'volumes': 2, 'runs': n}, 'nontrivial': n > 1}


def flag_sweep(prop, tier, seed, families=('fill', 'lattice', 'level0'), n_quick=10, n_thorough=150):
    n = n_quick if tier == 'quick' else n_thorough
    units = [((fam, seed * 100003 + i), (fam, seed * 100003 + i, tier)) for fam in families for i in range(n)]
    from .decks import N_DIRECTED
    units += [(('directed', i), ('directed', i, tier)) for i in range(N_DIRECTED)]
    t0 = time.time()
    res = run_units(units, _flags_one, unit_timeout=600)
    fails, evals, nontriv, runs = [], 0, 0, 0
    for key, (kind, r) in res.items():
        if kind != 'ok':
            fails.append({'label': 'harness-error', 'case': f'{key[0]}/{key[1]}', 'detail': (r or kind)[-600:],
                          'property': prop})
            continue
        evals += 1
        runs += r['stats']['runs']
        nontriv += 1 if r['nontrivial'] else 0
        for f in r['fails']:
            f['case'] = f'{key[0]}/{key[1]}'
            fails.append(f)
    return {'name': f'flag-sweep[{"+".join(families)}]', 'kind': 'bounded (same deck converted under every option '
            'combination; owner and composition of every probe point compared with the default run)',
            'evaluations': evals, 'distinct_nontrivial': nontriv, 'conversions': runs, 'exhaustive': False,
            'rule': f'{n} seeded decks per family {list(families)}; non-trivial when at least two option combinations '
                    'converted', 'failures': _pick(fails), 'wall_s': round(time.time() - t0, 1)}
