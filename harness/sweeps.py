"""Parallel sweeps of generated decks (bounded stand-ins, one entry per property)."""
import os
import re
import time

from pyvc.runner import run_units

FAMILIES = {}


def family(name):
    def deco(fn):
        FAMILIES[name] = fn
        return fn
    return deco


@family('level0')
def _level0(seed):
    from . import decks
    return decks.level0_deck(seed, n_cells=3 + seed % 3, n_surfs=3 + seed % 4), {}


@family('fill')
def _fill(seed):
    from . import decks
    return decks.fill_deck(seed), {}


@family('lattice')
def _lattice(seed):
    from . import decks
    d = decks.lattice_deck(seed)
    return d, {'lattice': d.lattice_opts}


@family('directed')
def _directed(seed):
    from . import decks
    return decks.directed_deck(seed), {}


@family('hexlattice')
def _hexlattice(seed):
    from . import decks
    d = decks.hex_deck(seed)
    return d, {'lattice': d.lattice_opts}


def _pick(fails, per_label=3, total=80):
    """At most `per_label` failures of each distinct label (so that frequent known findings cannot crowd out a new
    kind of failure), `total` at most."""
    seen = {}
    out = []
    for f in fails:
        k = (f.get('property'), f.get('label'))
        seen[k] = seen.get(k, 0) + 1
        if seen[k] <= per_label:
            out.append(f)
    return out[:total]


def _norm_label(f):
    lab = f['label']
    if lab in ('structure', 'conversion-raised', 'unreadable-file'):
        lab += ':' + re.sub(r'[-+]?\d+(\.\d+)?', 'N', f['detail'])[:70].strip().replace(' ', '-')
    return lab


def _one(fam, seed, props, kw):
    import sys
    from . import checks
    deck, opts = FAMILIES[fam](seed)
    opts = dict(opts)
    opts.update(kw)
    retag = opts.pop('retag', None)
    remap = opts.pop('remap', None)           # e.g. {'C06': 'C07'}: the lattice checks stand for the hexagonal property
    want = tuple(props) + ('C08',)
    if remap:
        want = tuple(remap) + ('C08',)
    if retag:
        want = tuple(retag) + ('C08',)
    # a different deck of the same family (same cell / surface / universe numbers, other geometry) is converted first in
    # this process: whatever a conversion leaves behind (caches keyed by number, shared defaults) then shows in the
    # deck under test
    try:
        from . import run
        seed0 = seed + 7919
        if fam == 'directed':
            from .decks import N_DIRECTED
            seed0 = (seed + 1) % N_DIRECTED
        deck0, opts0 = FAMILIES[fam](seed0)
        run.convert(deck0.text(), lattice=dict(opts0).get('lattice', ()))
    except Exception:       # noqa: the warm-up deck is checked under its own seed, not here
        pass
    fails, stats, _ = checks.check_deck(deck, seed, want=want, **opts)
    if retag and not any(c.like for c in deck.cells.values()):
        return {'fails': [], 'stats': stats, 'nontrivial': False}      # only decks with LIKE cells count here
    out = []
    for f in fails:
        f = dict(f)
        if retag and f['property'] in retag:
            f['property'] = props[0]
        if remap and f['property'] in remap:
            f['property'] = remap[f['property']]
        f['label'] = _norm_label(f)
        f['family'], f['seed'] = fam, seed
        out.append(f)
    nontrivial = stats['located'] > 0 and stats['volumes'] > 1
    return {'fails': out, 'stats': stats, 'nontrivial': nontrivial}


def deck_sweep(prop, tier, seed, families=('level0',), n_quick=48, n_thorough=600, kw=None, name=None):
    n = n_quick if tier == 'quick' else n_thorough
    units = []
    for fam in families:
        for i in range(n):
            s = seed * 100003 + i
            units.append(((fam, s), (fam, s, [prop], kw or {})))
    if 'level0' in families or 'fill' in families:
        # the hand-made decks (input shapes random generation meets too rarely) go with every flat / filled sweep
        from .decks import N_DIRECTED
        for i in range(N_DIRECTED):
            units.append((('directed', i), ('directed', i, [prop], kw or {})))
    t0 = time.time()
    res = run_units(units, _one, unit_timeout=150)
    fails, evals, pts, nontriv, errors = [], 0, 0, 0, []
    for key, (kind, r) in res.items():
        if kind != 'ok':
            errors.append({'label': 'harness-error', 'case': f'{key[0]}/{key[1]}', 'detail': (r or kind)[-600:],
                           'property': prop, 'family': key[0], 'seed': key[1], 'harness_error': True})
            continue
        evals += 1
        pts += r['stats']['located']
        nontriv += 1 if r['nontrivial'] else 0
        for f in r['fails']:
            if f['property'] == prop:
                f['case'] = f'{key[0]}/{key[1]}'
                fails.append(f)
    return {'name': name or f'deck-sweep[{"+".join(families)}]', 'kind': 'bounded (generated decks, real conversion, '
            'independent T4 reader and MCNP oracle)', 'evaluations': evals, 'distinct_nontrivial': nontriv,
            'probe_points_located': pts, 'exhaustive': False,
            'rule': f'{n} seeded decks per family {list(families)} (seed base {seed}); a deck is non-trivial when at '
                    'least one probe point was located by the oracle and more than one volume was written',
            'failures': _pick(fails), 'harness_errors': errors[:3], 'wall_s': round(time.time() - t0, 1)}


FLAG_SETS = [(), ('--skip-deduplication',), ('--always-inline-filling',), ('--always-inline-filled',),
             ('--skip-deduplication', '--always-inline-filling'), ('--skip-deduplication', '--always-inline-filled'),
             ('--always-inline-filling', '--always-inline-filled'),
             ('--skip-deduplication', '--always-inline-filling', '--always-inline-filled')]


def _identity_map(deck, f, pts):
    """point -> (provenance of the owning volume, composition) as read from one written file"""
    gc = {}
    for name, ids in f.geomcomp:
        for i in ids:
            gc[i] = name
    out = []
    for pt in pts:
        if f.near_surface(pt, 1e-6):
            out.append(None)
            continue
        vols = f.locate(pt)
        out.append(tuple(sorted((f.volumes[v]['comment'] if f.volumes[v]['comment'] else str(v), gc.get(v))
                                for v in vols)))
    return out


def _flags_one(fam, seed, tier):
    from . import checks, decks, run, t4file
    import random
    deck, opts = FAMILIES[fam](seed)
    text = deck.text(random.Random(f'fmt{seed}'))
    pts = decks.probe_points(seed, 50)
    base = None
    fails = []
    combos = [(fl, 1.0) for fl in FLAG_SETS] + [((), 0.0), ((), 0.5), ((), 1e9), (('--skip-deduplication',), 1e9)]
    if tier == 'quick':
        combos = combos[:4] + combos[6:7] + combos[8:]
    n = 0
    for flags, score in combos:
        t4, out, exc = run.convert(text, lattice=opts.get('lattice', ()), flags=flags, max_inline_score=score)
        if exc is not None and base is None and not flags and score == 1.0:
            # the default run itself fails: not a statement about options (reported by the other properties)
            return {'fails': [], 'stats': {'located': 0, 'volumes': 0, 'runs': 0}, 'nontrivial': False}
        if exc is not None:
            fails.append({'property': 'C13', 'label': 'conversion-raised-under-options',
                          'detail': f'{flags} score={score}: {type(exc).__name__}: {exc}', 'deck': text,
                          'flags': list(flags), 'family': fam, 'seed': seed, 'point': None})
            continue
        f = t4file.T4File(t4)
        m = _identity_map(deck, f, pts)
        n += 1
        if base is None:
            base = m
            continue
        for pt, a, b in zip(pts, base, m):
            if a is not None and b is not None and a != b:
                fails.append({'property': 'C13', 'label': 'options-change-the-owner-of-a-point',
                              'detail': f'{flags} score={score}: default run {a}, this run {b}', 'deck': text,
                              'flags': list(flags), 'family': fam, 'seed': seed, 'point': pt})
                break
    return {'fails': fails, 'stats': {'located': len(pts), 'volumes': 2, 'runs': n}, 'nontrivial': n > 1}


def flag_sweep(prop, tier, seed, families=('fill', 'lattice', 'level0'), n_quick=10, n_thorough=150):
    n = n_quick if tier == 'quick' else n_thorough
    units = [((fam, seed * 100003 + i), (fam, seed * 100003 + i, tier)) for fam in families for i in range(n)]
    from .decks import N_DIRECTED
    units += [(('directed', i), ('directed', i, tier)) for i in range(N_DIRECTED)]
    t0 = time.time()
    res = run_units(units, _flags_one, unit_timeout=600)
    fails, evals, nontriv, runs = [], 0, 0, 0
    for key, (kind, r) in res.items():
        if kind != 'ok':
            fails.append({'label': 'harness-error', 'case': f'{key[0]}/{key[1]}', 'detail': (r or kind)[-600:],
                          'property': prop})
            continue
        evals += 1
        runs += r['stats']['runs']
        nontriv += 1 if r['nontrivial'] else 0
        for f in r['fails']:
            f['case'] = f'{key[0]}/{key[1]}'
            fails.append(f)
    return {'name': f'flag-sweep[{"+".join(families)}]', 'kind': 'bounded (same deck converted under every option '
            'combination; owner and composition of every probe point compared with the default run)',
            'evaluations': evals, 'distinct_nontrivial': nontriv, 'conversions': runs, 'exhaustive': False,
            'rule': f'{n} seeded decks per family {list(families)}; non-trivial when at least two option combinations '
                    'converted', 'failures': _pick(fails), 'wall_s': round(time.time() - t0, 1)}


# ------------------------------------------------------------------ C14: MCNP-insignificant respellings of a deck

def _tokens(t4):
    """The written file as a list of tokens, comments and the command-line echo removed."""
    out = []
    for line in t4.split('\n'):
        line = line.split('//')[0]
        if 't4_geom_convert' in line:
            continue
        out += line.split()
    return out


def same_output(a, b):
    """The two written files describe the same thing: same surfaces (numbers, types, parameters by value), same
    volumes, same boundary entries, structurally valid alike, and every volume attached to a composition with the same
    content (kind, density, nuclides and amounts by value).  Composition *names* are labels: they embed the spelling
    of the density and are compared only through what they designate."""
    from .t4file import T4File
    fa, fb = T4File(a), T4File(b)
    if fa.structural_errors() != fb.structural_errors():
        return False, f'structural errors differ: {fa.structural_errors()[:2]} vs {fb.structural_errors()[:2]}'

    def surf_view(f):
        return {k: (v[0], [float(x) for x in v[1]], None if v[2] is None else repr(v[2])) for k, v in f.surfaces.items()}
    if surf_view(fa) != surf_view(fb):
        ka, kb = surf_view(fa), surf_view(fb)
        bad = [k for k in set(ka) | set(kb) if ka.get(k) != kb.get(k)][:3]
        return False, f'surfaces differ: {[(k, ka.get(k), kb.get(k)) for k in bad]}'

    def vol_view(f):
        return {k: (sorted(v['plus']), sorted(v['minus']), v['op'], list(v['args']), v['fictive']) for k, v in f.volumes.items()}
    if vol_view(fa) != vol_view(fb):
        return False, 'volumes differ'
    if sorted(fa.boundary) != sorted(fb.boundary):
        return False, f'boundary conditions differ: {fa.boundary} vs {fb.boundary}'

    def comp_of(f):
        comps = {c['name']: (c['kind'], c.get('density'), c.get('flag'), [(n, float(x)) for n, x in c['entries']])
                 for c in f.compositions}
        out = {}
        for name, ids in f.geomcomp:
            for i in ids:
                out[i] = comps.get(name, ('undefined composition', name))
        return out
    ca, cb = comp_of(fa), comp_of(fb)
    if ca != cb:
        bad = [k for k in set(ca) | set(cb) if ca.get(k) != cb.get(k)][:2]
        return False, f'composition of volume(s) differ: {[(k, ca.get(k), cb.get(k)) for k in bad]}'
    return True, ''


def _respell_one(fam, seed, tier):
    import random
    from . import run, respell
    deck, opts = FAMILIES[fam](seed)
    text = deck.text(random.Random(f'fmt{seed}'))
    lattice = opts.get('lattice', ())
    t0, so0, e0 = run.convert(text, lattice=lattice)
    fails = []
    n = 0
    kinds_list = [(k,) for k in respell.KINDS] + [respell.KINDS] * (2 if tier == 'quick' else 6)
    for j, kinds in enumerate(kinds_list):
        rng = random.Random(f'{fam}/{seed}/{j}')
        text2 = respell.respell(text, rng, kinds)
        t1, so1, e1 = run.convert(text2, lattice=lattice)
        n += 1
        tag = kinds[0] if len(kinds) == 1 else 'all-kinds'
        if (e0 is None) != (e1 is None) or (e0 is not None and type(e0) is not type(e1)):
            fails.append({'property': 'C14', 'label': f'respelling-changes-the-outcome:{tag}',
                          'detail': f'original: {e0!r:.150}; respelled: {e1!r:.150}', 'deck': text2, 'original_deck': text,
                          'lattice': list(lattice), 'family': fam, 'seed': seed})
            continue
        if t0 is None or t1 is None:
            continue
        ok, why = same_output(t0, t1)
        if not ok:
            fails.append({'property': 'C14', 'label': f'respelling-changes-the-output:{tag}', 'detail': why, 'deck': text2,
                          'original_deck': text, 'lattice': list(lattice), 'family': fam, 'seed': seed})
    return {'fails': fails, 'stats': {'runs': n, 'converted': t0 is not None}, 'nontrivial': t0 is not None}


def respell_sweep(prop, tier, seed, families=('level0', 'fill', 'lattice', 'hexlattice'), n_quick=10, n_thorough=120):
    n = n_quick if tier == 'quick' else n_thorough
    units = [((fam, seed * 100003 + i), (fam, seed * 100003 + i, tier)) for fam in families for i in range(n)]
    from .decks import N_DIRECTED
    units += [(('directed', i), ('directed', i, tier)) for i in range(N_DIRECTED)]
    t0 = time.time()
    res = run_units(units, _respell_one, unit_timeout=600)
    fails, errors, evals, nontriv, runs = [], [], 0, 0, 0
    for key, (kind, r) in res.items():
        if kind != 'ok':
            errors.append({'label': 'harness-error', 'case': f'{key[0]}/{key[1]}', 'detail': (r or kind)[-600:]})
            continue
        evals += 1
        runs += r['stats']['runs']
        nontriv += 1 if r['nontrivial'] else 0
        for f in r['fails']:
            f['case'] = f'{key[0]}/{key[1]}'
            fails.append(f)
    return {'name': f'respelling-sweep[{"+".join(families)}+directed]', 'kind': 'bounded (each generated deck converted '
            'as written and in MCNP-equivalent respellings; written files compared token by token, numbers by value)',
            'evaluations': evals, 'distinct_nontrivial': nontriv, 'conversions': runs, 'exhaustive': False,
            'rule': f'{n} seeded decks per family {list(families)} + the directed decks; one respelling per kind '
                    '(case, blanks, tabs, continuation, comments, message block, Fortran numbers, nR shorthand) and '
                    'several with all kinds together; non-trivial when the original deck converts',
            'failures': _pick(fails), 'harness_errors': errors[:3], 'wall_s': round(time.time() - t0, 1)}
