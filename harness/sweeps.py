"""Parallel sweeps of generated decks (bounded stand-ins, one entry per property)."""
import os
import re
import time

from pyvc.runner import run_units

FAMILIES = {}


def family(name):
    def deco(fn):
        FAMILIES[name] = fn
        return fn
    return deco


@family('level0')
def _level0(seed):
    from . import decks
    return decks.level0_deck(seed, n_cells=3 + seed % 3, n_surfs=3 + seed % 4), {}


@family('fill')
def _fill(seed):
    from . import decks
    return decks.fill_deck(seed), {}


@family('lattice')
def _lattice(seed):
    from . import decks
    d = decks.lattice_deck(seed)
    return d, {'lattice': d.lattice_opts}


def _norm_label(f):
    lab = f['label']
    if lab in ('structure', 'conversion-raised'):
        lab += ':' + re.sub(r'[-+]?\d+(\.\d+)?', 'N', f['detail'])[:70].strip().replace(' ', '-')
    return lab


def _one(fam, seed, props, kw):
    import sys
    from . import checks
    deck, opts = FAMILIES[fam](seed)
    opts = dict(opts)
    opts.update(kw)
    fails, stats, _ = checks.check_deck(deck, seed, want=tuple(props) + ('C08',), **opts)
    out = []
    for f in fails:
        f = dict(f)
        f['label'] = _norm_label(f)
        f['family'], f['seed'] = fam, seed
        out.append(f)
    nontrivial = stats['located'] > 0 and stats['volumes'] > 1
    return {'fails': out, 'stats': stats, 'nontrivial': nontrivial}


def deck_sweep(prop, tier, seed, families=('level0',), n_quick=48, n_thorough=600, kw=None, name=None):
    n = n_quick if tier == 'quick' else n_thorough
    units = []
    for fam in families:
        for i in range(n):
            s = seed * 100003 + i
            units.append(((fam, s), (fam, s, [prop], kw or {})))
    t0 = time.time()
    res = run_units(units, _one, unit_timeout=300)
    fails, evals, pts, nontriv, errors = [], 0, 0, 0, []
    for key, (kind, r) in res.items():
        if kind != 'ok':
            errors.append({'label': 'harness-error', 'case': f'{key[0]}/{key[1]}', 'detail': (r or kind)[-600:],
                           'property': prop, 'family': key[0], 'seed': key[1], 'harness_error': True})
            continue
        evals += 1
        pts += r['stats']['located']
        nontriv += 1 if r['nontrivial'] else 0
        for f in r['fails']:
            if f['property'] == prop:
                f['case'] = f'{key[0]}/{key[1]}'
                fails.append(f)
    return {'name': name or f'deck-sweep[{"+".join(families)}]', 'kind': 'bounded (generated decks, real conversion, '
            'independent T4 reader and MCNP oracle)', 'evaluations': evals, 'distinct_nontrivial': nontriv,
            'probe_points_located': pts, 'exhaustive': False,
            'rule': f'{n} seeded decks per family {list(families)} (seed base {seed}); a deck is non-trivial when at '
                    'least one probe point was located by the oracle and more than one volume was written',
            'failures': fails[:10], 'harness_errors': errors[:3], 'wall_s': round(time.time() - t0, 1)}
