"""Deck-level bounded harness: the real converter (main.conversion) run in-process on generated small decks, with
a stand-in for the TatSu parser (shim.py, DESIGN §3.10), an independent reader/evaluator of the written TRIPOLI-4
file (t4file.py) and an abstract deck model with its own point-location oracle (decks.py).
Everything here is a *bounded stand-in*: nothing it reports is counted as proved."""
