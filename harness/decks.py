"""Abstract model of small MCNP decks: text rendering + an independent point-location oracle written from the
property statements (MCNP semantics), not from the converter.

Expression trees:  ('s', n)  signed surface reference (n may be negative; ('f', n, k) facet k of macrobody n)
                   ('*', a, b) intersection, (':', a, b) union, ('~', a) complement of an expression  #( ... )
                   ('#', c)  complement of cell c
"""
import math
import random

from specs.surfaces import mcnp_region


class Surf:
    def __init__(self, sid, mn, params, tr=None, bc=''):
        self.id, self.mn, self.params, self.tr, self.bc = sid, mn, list(params), tr, bc

    def card(self):
        tr = f' {self.tr}' if self.tr else ''
        return f'{self.bc}{self.id}{tr} {self.mn.upper()} ' + ' '.join(_fmt(p) for p in self.params)


class Cell:
    def __init__(self, cid, mat, rho, expr, imp=1, universe=0, fill=None, filltr=None, trcl=None, lat=None,
                 fill_array=None, imp_on_card=True, opts_extra=''):
        self.id, self.mat, self.rho, self.expr, self.imp = cid, mat, rho, expr, imp
        self.universe, self.fill, self.filltr, self.trcl, self.lat = universe, fill, filltr, trcl, lat
        self.fill_array = fill_array      # (ranges [(lo,hi)...], [universes first index fastest])
        self.imp_on_card = imp_on_card
        self.opts_extra = opts_extra
        self.like = None                  # (base id, but-options text)


def _fmt(x):
    if isinstance(x, float) and x == int(x) and abs(x) < 1e6:
        return f'{x:.1f}'
    return repr(x)


def expr_text(e, rng=None, top=True):
    """Render with MCNP syntax: blank = intersection, ':' = union (lower precedence), # complements."""
    k = e[0]
    if k == 's':
        return str(e[1])
    if k == 'f':
        return f'{e[1]}.{e[2]}'
    if k == '#':
        sp = '' if rng is None else rng.choice(['', ' '])
        return f'#{sp}{e[1]}'
    if k == '~':
        sp = '' if rng is None else rng.choice(['', ' '])
        return f'#{sp}({expr_text(e[1], rng)})'
    if k == '*':
        parts = []
        for a in e[1:]:
            t = expr_text(a, rng, False)
            if a[0] == ':':
                t = '(' + t + ')'
            parts.append(t)
        sep = ' ' if rng is None else rng.choice([' ', '  '])
        return sep.join(parts)
    if k == ':':
        parts = [expr_text(a, rng, False) for a in e[1:]]
        sep = ':' if rng is None else rng.choice([':', ' : ', ': ', ' :'])
        return sep.join(parts)
    raise ValueError(e)


class Deck:
    def __init__(self, title='generated deck'):
        self.title = title
        self.surfs = {}
        self.cells = {}
        self.trs = {}            # id -> (starred, 12 numbers: o + matrix entries b1..b9 as written on the card)
        self.materials = {}      # id -> [(zaid, fraction)]
        self.imp_card = None     # list of importances by cell position (when not on the cell cards)

    def add_surf(self, s):
        self.surfs[s.id] = s
        return s

    def add_cell(self, c):
        self.cells[c.id] = c
        return c

    # ------------------------------------------------------------ text
    def text(self, rng=None):
        L = [self.title]
        for c in self.cells.values():
            if c.like:
                L.append(f'{c.id} LIKE {c.like[0]} BUT {c.like[1]}')
                continue
            m = f'{c.mat} {c.rho}' if c.mat else '0'
            opts = []
            if c.imp_on_card:
                opts.append(f'IMP:N={_fmt(float(c.imp))}')
            if c.universe:
                opts.append(f'U={c.universe}')
            if c.lat:
                opts.append(f'LAT={c.lat}')
            if c.fill_array is not None and getattr(c, 'homogeneous', False):
                opts.append(_tr_opt('FILL', c.homogeneous, c.filltr) if c.filltr is not None
                            else f'FILL={c.homogeneous}')
            elif c.fill_array is not None:
                ranges, univs = c.fill_array
                opts.append('FILL=' + ' '.join(f'{lo}:{hi}' for lo, hi in ranges) + ' ' + ' '.join(str(u) for u in univs))
            elif c.fill is not None:
                f = f'FILL={c.fill}'
                if c.filltr is not None:
                    f = _tr_opt('FILL', c.fill, c.filltr)
                opts.append(f)
            if c.trcl is not None:
                opts.append(_tr_opt('TRCL', None, c.trcl))
            if c.opts_extra:
                opts.append(c.opts_extra)
            L.append(f'{c.id} {m} {expr_text(c.expr, rng)} ' + ' '.join(opts))
        L.append('')
        for s in self.surfs.values():
            L.append(s.card())
        L.append('')
        for k, (star, nums) in self.trs.items():
            L.append(('*' if star else '') + f'TR{k} ' + ' '.join(_fmt(x) for x in nums))
        for k, comp in self.materials.items():
            L.append(f'm{k} ' + ' '.join(f'{z} {_fmt(f)}' for z, f in comp))
        if self.imp_card is not None:
            L.append('imp:n ' + ' '.join(_fmt(float(x)) for x in self.imp_card))
        L.append('mode n')
        L.append('nps 10')
        return '\n'.join(L) + '\n'

    # ------------------------------------------------------------ oracle
    def tr_matrix(self, spec):
        """spec: ('num', k) | ('inline', star, numbers).  Returns (o, B) with r_main = o + B r_aux."""
        if spec[0] == 'num':
            star, nums = self.trs[spec[1]]
        else:
            _, star, nums = spec
        nums = list(nums)
        o = nums[0:3]
        if len(nums) == 3:
            b = [1, 0, 0, 0, 1, 0, 0, 0, 1]
        else:
            b = nums[3:12]
            if star:
                b = [math.cos(math.radians(x)) for x in b]
        B = [[b[0], b[3], b[6]], [b[1], b[4], b[7]], [b[2], b[5], b[8]]]
        return o, B

    def to_aux(self, spec, pt):
        o, B = self.tr_matrix(spec)
        d = [pt[i] - o[i] for i in range(3)]
        return tuple(sum(B[j][i] * d[j] for j in range(3)) for i in range(3))      # B^T d

    def surf_regions(self, sid, pt):
        if sid not in self.surfs and sid >= 1000:
            # implicit surface 1000*cell + surface: surface `sid % 1000` moved by the TRCL of cell `sid // 1000`
            cell = self.cells[sid // 1000]
            return self.surf_regions(sid % 1000, self.to_aux(cell.trcl, pt))
        s = self.surfs[sid]
        if s.tr:
            pt = self.to_aux(('num', s.tr), pt)
        if s.mn in ('rpp', 'sph', 'rcc', 'box'):
            from specs import macrobodies as SM
            return [(g, 1) for g in getattr(SM, s.mn)(s.params, pt)], True
        return mcnp_region(s.mn, s.params, pt), False

    def sense_neg(self, ref, pt, facet=None):
        """True iff the point has negative sense w.r.t. surface |ref| (None when too close to call)."""
        region, macro = self.surf_regions(abs(ref), pt)
        if facet is not None:
            g, _ = region[facet - 1]
            if abs(g) < 1e-7:
                return None
            return g < 0
        vals = [side * f for f, side in region]
        if any(abs(v) < 1e-7 for v in vals):
            return None
        return all(v < 0 for v in vals)

    def holds(self, e, q, stack=(), pt0=None):
        """q: the point in the frame moved by the cell's TRCL (used for the cell's own surfaces, including those
        inside #( ... )); pt0: the point in the frame of the cell's universe, used for `#n`: the complement of another
        cell is NOT moved by this cell's TRCL (convention of the converter, validated upstream by the
        trcl_complement* oracle decks -- calibrated, listed as an assumption)."""
        if pt0 is None:
            pt0 = q
        k = e[0]
        if k == 's':
            n = self.sense_neg(e[1], q)
            if n is None:
                return None
            return n if e[1] < 0 else not n
        if k == 'f':
            n = self.sense_neg(e[1], q, e[2])
            if n is None:
                return None
            return n if e[1] < 0 else not n
        if k == '#':
            if e[1] in stack:
                raise ValueError('cyclic complement')
            c = self.cells[e[1]]
            v = self.cell_holds(c, pt0, stack + (e[1],))
            return None if v is None else not v
        if k == '~':
            v = self.holds(e[1], q, stack, pt0)
            return None if v is None else not v
        vals = [self.holds(a, q, stack, pt0) for a in e[1:]]
        if k == '*':
            if any(v is False for v in vals):
                return False
            return None if any(v is None for v in vals) else True
        if any(v is True for v in vals):
            return True
        return None if any(v is None for v in vals) else False

    def cell_holds(self, c, pt, stack=()):
        """Is pt (in the frame the cell lives in) inside the cell's own geometry (TRCL applied)?"""
        base = c
        while base.like:
            base = self.cells[base.like[0]]
        q = pt
        trcl = c.trcl
        if trcl is not None:
            q = self.to_aux(trcl, pt)
        return self.holds(base.expr, q, stack, pt)

    def locate(self, pt, universe=0, depth=0):
        """Returns None (too close to a surface), or a list of (cell id, ...) from level 0 down to the leaf."""
        if depth > 6:
            raise ValueError('universe nesting too deep')
        found = []
        lat = [c for c in self.cells.values() if c.universe == universe and c.lat]
        if lat:
            q = pt
            if lat[0].trcl is not None:
                # TRCL on a lattice cell moves the whole lattice (every element) together with what fills it
                q = self.to_aux(lat[0].trcl, pt)
            return self.locate_lattice(lat[0], q, depth)
        for c in self.cells.values():
            if c.universe != universe:
                continue
            v = self.cell_holds(c, pt)
            if v is None:
                return None
            if v:
                found.append(c)
        if len(found) != 1:
            return ('ill-defined', [c.id for c in found])
        c = found[0]
        if c.fill is None and c.fill_array is None:
            return [c.id]
        # frame of the filling universe: container frame moved by the fill transformation, else by TRCL
        q = pt
        if c.filltr is not None:
            q = self.to_aux(c.filltr, pt)
        elif c.trcl is not None:
            q = self.to_aux(c.trcl, pt)
        if c.lat:
            return self.locate_lattice(c, q, depth)
        sub = self.locate(q, c.fill, depth + 1)
        if sub is None or (isinstance(sub, tuple) and sub[0] == 'ill-defined'):
            return sub
        return [c.id] + sub

    def lattice_base(self, c):
        """(origin coordinates, base vectors) of a LAT=1 cell bounded by pairs of axis planes, from the listing order:
        a_k carries the second-listed plane of pair k onto the first-listed one."""
        refs = []
        def flat(e):
            if e[0] == 's':
                refs.append(e[1])
            else:
                for a in e[1:]:
                    flat(a)
        flat(c.expr)
        vecs, origins = [], []
        for k in range(0, len(refs), 2):
            s1, s2 = self.surfs[abs(refs[k])], self.surfs[abs(refs[k + 1])]
            ax = 'xyz'.index(s1.mn[1])
            a = [0.0, 0.0, 0.0]
            a[ax] = s1.params[0] - s2.params[0]
            vecs.append((ax, a, s2.params[0]))
        return vecs

    def locate_hex(self, c, q, depth):
        """LAT=2: element (i, j) = base prism + i a1 + j a2 (a1 across the first-listed plane, a2 across the third)."""
        a1, a2 = c.hex_vectors
        ranges, univs = c.fill_array
        hit = None
        for i in range(-4, 5):
            for j in range(-4, 5):
                p = (q[0] - i * a1[0] - j * a2[0], q[1] - i * a1[1] - j * a2[1], q[2])
                v = self.holds(c.expr, p)
                if v is None:
                    return None
                if v:
                    hit = (i, j)
        if hit is None:
            return ['outside-lattice']
        full = list(hit) + [0] * (len(ranges) - 2)
        pos, mult = 0, 1
        for d_, (lo, hi) in enumerate(ranges):
            if not lo <= full[d_] <= hi:
                return ['outside-lattice']
            pos += (full[d_] - lo) * mult
            mult *= hi - lo + 1
        u = univs[pos]
        if u == 0:
            return ['lattice-universe-0']
        if u == c.universe:
            return [c.id]
        q2 = (q[0] - hit[0] * a1[0] - hit[1] * a2[0], q[1] - hit[0] * a1[1] - hit[1] * a2[1], q[2])
        sub = self.locate(q2, u, depth + 1)
        if sub is None or isinstance(sub, tuple):
            return sub
        return [c.id] + sub

    def locate_lattice(self, c, q, depth):
        if c.lat == 2:
            return self.locate_hex(c, q, depth)
        vecs = self.lattice_base(c)
        ranges, univs = c.fill_array
        idx = []
        shift = [0.0, 0.0, 0.0]
        for (ax, a, c2) in vecs:
            t = (q[ax] - c2) / a[ax]
            if abs(t - round(t)) < 1e-6:
                return None
            i = math.floor(t)
            idx.append(i)
            shift[ax] += i * a[ax]
        full = list(idx) + [0] * (len(ranges) - len(idx))
        pos, mult = 0, 1
        for d_, (lo, hi) in enumerate(ranges):
            if not lo <= full[d_] <= hi:
                return ['outside-lattice']
            pos += (full[d_] - lo) * mult
            mult *= hi - lo + 1
        u = univs[pos]
        if u == 0:
            return ['lattice-universe-0']
        if u == c.universe:
            return [c.id]
        q2 = tuple(q[i] - shift[i] for i in range(3))
        if c.filltr is not None:
            q2 = self.to_aux(c.filltr, q2)
        sub = self.locate(q2, u, depth + 1)
        if sub is None or isinstance(sub, tuple):
            return sub
        return [c.id] + sub


def _tr_opt(kw, univ, spec):
    head = f'{kw}={univ} ' if univ is not None else f'{kw}='
    if spec[0] == 'num':
        return ('*' if False else '') + head + (f'({spec[1]})' if univ is not None else f'{spec[1]}')
    _, star, nums = spec
    return ('*' if star else '') + head + '(' + ' '.join(_fmt(x) for x in nums) + ')'


# ------------------------------------------------------------------ generators

def random_expr(rng, surf_ids, depth, macro_ids=()):
    r = rng.random()
    if depth == 0 or r < 0.35:
        if macro_ids and rng.random() < 0.25:
            m = rng.choice(list(macro_ids))
            if rng.random() < 0.4:
                return ('f', m[0] * rng.choice((1, -1)), rng.randint(1, m[1]))
            return ('s', m[0] * rng.choice((1, -1)))
        return ('s', rng.choice(surf_ids) * rng.choice((1, -1)))
    if r < 0.45:
        return ('~', random_expr(rng, surf_ids, depth - 1, macro_ids))
    op = '*' if r < 0.75 else ':'
    return (op, random_expr(rng, surf_ids, depth - 1, macro_ids), random_expr(rng, surf_ids, depth - 1, macro_ids))


SURF_POOL = [
    ('px', [0.0]), ('px', [1.5]), ('px', [1.0]), ('px', [-1.0]), ('py', [-0.5]), ('py', [1.0]), ('pz', [0.25]), ('pz', [-1.25]),
    ('so', [2.0]), ('s', [0.5, 0.5, 0.0, 1.25]), ('cz', [1.0]), ('c/z', [0.5, -0.5, 0.75]), ('cx', [1.5]),
    ('p', [1.0, 1.0, 0.0, 0.5]), ('p', [1.0, -1.0, 1.0, -0.25]), ('kz', [0.5, 1.0, 1.0]), ('k/x', [-0.5, 0.0, 0.0, 0.5]),
    ('sq', [1.0, 2.0, 1.0, 0.0, 0.0, 0.0, -2.0, 0.25, 0.0, 0.0]), ('gq', [1.0, 1.0, 0.0, 0.0, 0.0, 0.0, 0.0, 0.0, -1.0, -0.5]),
    ('tz', [0.0, 0.0, 0.0, 1.5, 0.5, 0.25]),
]
ROTS = [  # (starred?, 12 numbers)  exact rotations / offsets
    (False, [0.5, 0.0, -0.25]),
    (False, [0.0, 0.0, 0.0, 0.0, 1.0, 0.0, -1.0, 0.0, 0.0, 0.0, 0.0, 1.0]),
    (False, [1.0, -0.5, 0.0, 0.6, 0.8, 0.0, -0.8, 0.6, 0.0, 0.0, 0.0, 1.0]),
    (True, [0.0, 0.5, 0.0, 90.0, 0.0, 90.0, 180.0, 90.0, 90.0, 90.0, 90.0, 0.0]),
    (False, [0.0, 0.0, 0.5, 1.0, 0.0, 0.0, 0.0, -1.0, 0.0, 0.0, 0.0, -1.0]),
]
MATS = {1: [('13027', 1.0)], 2: [('1001', 2.0), ('8016', 1.0)], 3: [('26056', -0.9), ('6000', -0.1)],
        4: [('92235.70c', 0.05), ('92238.70c', 0.95)]}
RHOS = ['-1.0', '-2.50', '0.05', '-1.', '1.0e-1', '-7.8', '-0.9982071', '-0.9982074', '-0.99820710']   # incl. densities equal to 6 digits only


def level0_deck(seed, n_cells=4, n_surfs=5, with_tr=True, with_macro=True, with_bc=True):
    """Flat deck whose cells partition space by construction:
        cell_1 = E1 ; cell_i = (E_i) #1 ... #(i-1) ; last = #1 ... #(n-1)  (all of them in universe 0)."""
    rng = random.Random(seed)
    d = Deck(f'level0 deck seed {seed}')
    pool = rng.sample(SURF_POOL, n_surfs)
    sid = 0
    for mn, params in pool:
        sid += rng.choice((1, 2, 3))
        tr = None
        if with_tr and rng.random() < 0.3:
            k = rng.randint(1, 3)
            if k not in d.trs:
                d.trs[k] = rng.choice(ROTS)
            tr = k
        bc = ''
        if with_bc and rng.random() < (0.15 if mn not in ('kz', 'k/x') else 0.3):
            bc = rng.choice(['*', '+'])
        d.add_surf(Surf(sid, mn, params, tr, bc))
    if with_bc and rng.random() < 0.25:
        # a second, flagged card for a surface that is already there (what de-duplication merges)
        src = rng.choice(list(d.surfs.values()))
        if src.mn not in ('kz', 'k/x') and not src.bc:
            sid += 1
            d.add_surf(Surf(sid, src.mn, list(src.params), src.tr, rng.choice(['*', '+'])))
    elif with_bc and rng.random() < 0.25:
        # the other way round: an unflagged card with a larger number, declared BEFORE the flagged surface it
        # duplicates (de-duplication keeps the smaller number whatever the order of the cards)
        cands = [x for x in d.surfs.values() if x.mn not in ('kz', 'k/x')]
        src = rng.choice(cands)
        if not src.bc:
            src.bc = rng.choice(['*', '+'])
        sid += 1
        dup = Surf(sid, src.mn, list(src.params), src.tr, '')
        d.surfs = dict([(sid, dup)] + list(d.surfs.items()))
    macro = []
    if with_macro and rng.random() < 0.5:
        sid += 2
        if rng.random() < 0.5:
            d.add_surf(Surf(sid, 'rpp', [-0.75, 0.5, -1.0, 0.25, -0.5, 0.5]))
            macro.append((sid, 6))
            if with_bc and rng.random() < 0.3:
                # a flagged plane that coincides with a facet of the macrobody, declared after it
                d.add_surf(Surf(sid - 1, 'py', [0.25], None, rng.choice(['*', '+'])))
        else:
            d.add_surf(Surf(sid, 'rcc', [0.0, -0.5, 0.0, 0.0, 1.5, 0.0, 0.75]))
            macro.append((sid, 3))
    ids = [s for s in d.surfs if d.surfs[s].mn not in ('rpp', 'rcc')]
    cid = 0
    prev = []
    use_imp_card = rng.random() < 0.3
    imps = []
    implicit = []
    for i in range(n_cells):
        cid += rng.choice((1, 1, 2, 5))
        if i < n_cells - 1:
            e = random_expr(rng, ids + implicit, 2, macro)
            for p in prev:
                e = ('*', e, ('#', p) if rng.random() < 0.8 else ('~', d.cells[p].expr) if _no_hash(d.cells[p].expr) else ('#', p))
        else:
            e = None
            for p in prev:
                e = ('#', p) if e is None else ('*', e, ('#', p))
        mat = rng.choice([0, 1, 2, 3, 4, 1])
        rho = rng.choice(RHOS)
        if mat == 3 and rng.random() < 0.8:
            # (mass fractions with an atom density are converted with a warning and an empty composition: kept in a
            #  fifth of the decks because the written file must still be well-formed)
            rho = '-' + rho.lstrip('-')
        imp = rng.choice([1, 1, 1, 0, 2])
        c = Cell(cid, mat, rho if mat else None, e, imp=imp, imp_on_card=not use_imp_card)
        if with_tr and i < n_cells - 1 and rng.random() < 0.3:
            # a cell with TRCL: its surfaces s are also available to later cells as 1000*cell + s
            c.trcl = rng.choice(INLINE_TRS[:3] + [INLINE_TRS[4]] + [('num', k) for k in d.trs])
            own = set()
            _own_surfaces(e, own)
            own = [s_ for s_ in own if s_ in ids]
            if own:
                implicit.append(1000 * cid + rng.choice(own))
        d.add_cell(c)
        imps.append(imp)
        prev.append(cid)
        if mat:
            d.materials[mat] = MATS[mat]
    if use_imp_card:
        d.imp_card = imps
        if rng.random() < 0.5:
            # MCNP does not require increasing cell numbers: the cards may come in any order, and the entries of an IMP
            # data card go with the cards by position in the cell block, not by cell number
            order = list(d.cells)
            rng.shuffle(order)
            by_id = dict(zip(d.cells, imps))
            d.cells = {k: d.cells[k] for k in order}
            d.imp_card = [by_id[k] for k in order]
    return d


def _own_surfaces(e, out):
    if e[0] == 's':
        out.add(abs(e[1]))
    elif e[0] in ('*', ':', '~'):
        for a in e[1:]:
            _own_surfaces(a, out)


def _no_hash(e):
    if e[0] == '#':
        return False
    if e[0] in ('s', 'f'):
        return True
    return all(_no_hash(a) for a in e[1:])


def probe_points(seed, n=60, span=3.0):
    rng = random.Random(f'pts{seed}')
    pts = []
    for _ in range(n):
        pts.append((round(rng.uniform(-span, span), 3) + 0.00013, round(rng.uniform(-span, span), 3) - 0.00029,
                    round(rng.uniform(-span, span), 3) + 0.00041))
    return pts


# ------------------------------------------------------------------ universes / FILL / TRCL

INLINE_TRS = [
    ('inline', False, [0.5, 0.25, 0.0]),
    ('inline', False, [0.25, 0.0, 0.0, 0.0, 1.0, 0.0, -1.0, 0.0, 0.0, 0.0, 0.0, 1.0]),
    ('inline', True, [0.0, 0.5, 0.0, 90.0, 0.0, 90.0, 180.0, 90.0, 90.0, 90.0, 90.0, 0.0]),
    ('inline', False, [0.0, 0.0, 0.0]),
    ('inline', False, [-0.5, 0.0, 0.25, 0.6, 0.8, 0.0, -0.8, 0.6, 0.0, 0.0, 0.0, 1.0]),
]


def _partition(d, rng, universe, first_id, n_cells, surf_ids, mats, depth=1, fillers=()):
    """Cells first_id.. of `universe` partitioning all space; some of them filled with one of `fillers`."""
    prev = []
    cid = first_id
    out = []
    for i in range(n_cells):
        if i < n_cells - 1:
            e = random_expr(rng, surf_ids, depth)
            for p in prev:
                e = ('*', e, ('#', p))
        else:
            e = None
            for p in prev:
                e = ('#', p) if e is None else ('*', e, ('#', p))
            if e is None:
                e = (':', ('s', surf_ids[0]), ('s', -surf_ids[0]))
        mat = rng.choice(mats)
        rho = rng.choice(RHOS)
        if mat == 3:
            rho = '-' + rho.lstrip('-')      # mass fractions with an atom density are not supported by the converter
        c = Cell(cid, mat, rho if mat else None, e, imp=1, universe=universe)
        if mat:
            d.materials[mat] = MATS[mat]
        if fillers and rng.random() < 0.6:
            c.fill = rng.choice(fillers)
            c.mat, c.rho = 0, None
            r = rng.random()
            if r < 0.45:
                c.filltr = rng.choice(INLINE_TRS)
            elif r < 0.6 and d.trs:
                c.filltr = ('num', rng.choice(list(d.trs)))
            if rng.random() < 0.35:
                c.trcl = rng.choice(INLINE_TRS[:3] + [('num', k) for k in d.trs])
        d.add_cell(c)
        out.append(cid)
        prev.append(cid)
        cid += 1
    return out


def fill_deck(seed):
    """Universe tree of depth <= 3 (one universe may be used by two containers), FILL with / without transformation
    (number, inline, starred), TRCL on containers."""
    rng = random.Random(f'fill{seed}')
    d = Deck(f'fill deck seed {seed}')
    pool = rng.sample(SURF_POOL[:15], 6)
    for i, (mn, params) in enumerate(pool, start=1):
        d.add_surf(Surf(i, mn, params))
    for k in (1, 2):
        if rng.random() < 0.7:
            d.trs[k] = rng.choice(ROTS)
    ids = list(d.surfs)
    depth = rng.choice([1, 2, 2, 3])
    fillers = ()
    first = 100 * depth
    for level in range(depth, 0, -1):          # deepest universe first so that cell numbers stay unique
        _partition(d, rng, level, 100 * level, rng.choice([2, 3]), ids, [1, 2, 3, 4, 0], 1, fillers)
        fillers = (level,)
    # LIKE n BUT: a filler universe re-used under another number through LIKE copies of all its cells (a valid
    # partition again: `#n` inside a copied geometry still refers to the original cell), with some parameters overridden
    if fillers and rng.random() < 0.45:
        src_u = fillers[0]
        new_u = src_u + 10
        for c in [c for c in d.cells.values() if c.universe == src_u]:
            opts = [f'U={new_u}']
            lk = Cell(c.id + 50, c.mat, c.rho, None, imp=1, universe=new_u, fill=c.fill, filltr=c.filltr, trcl=c.trcl)
            lk.like = (c.id, None)
            lk.mat_eff, lk.rho_eff = c.mat, c.rho
            if c.fill is not None and rng.random() < 0.6:
                # BUT FILL=m without a transformation: the fill transformation of cell n must NOT be inherited
                lk.fill, lk.filltr = c.fill, None
                if rng.random() < 0.5:
                    opts.append(f'FILL={c.fill}')
                else:
                    # ... or with its own transformation, in any spelling (a starred keyword may come first)
                    lk.filltr = rng.choice(INLINE_TRS)
                    opts.append(_tr_opt('FILL', c.fill, lk.filltr))
            elif c.mat and rng.random() < 0.5:
                m2 = rng.choice([1, 2, 4])
                r2 = rng.choice(['-2.70', '-1.0', '0.05', '-2.70-1'])
                lk.mat_eff, lk.rho_eff = m2, r2
                d.materials[m2] = MATS[m2]
                opts += [f'MAT={m2}', f'RHO={r2}']
            rng.shuffle(opts)
            lk.like = (c.id, ' '.join(opts))
            d.add_cell(lk)
        fillers = (rng.choice([src_u, new_u]),) if rng.random() < 0.3 else (new_u,)
    top = _partition(d, rng, 0, 1, rng.choice([2, 3, 4]), ids, [1, 2, 0], 1, fillers)
    # importances: level-0 only matter
    for c in d.cells.values():
        # whether a point is converted is decided by the level-0 cell alone (C12): the importances written on the
        # cells of the filling universes are arbitrary and must not matter
        c.imp = 1 if c.universe == 0 else rng.choice([1, 1, 0, 2])
    if rng.random() < 0.4:
        d.cells[rng.choice(top)].imp = 0
    # re-order: MCNP allows any order; put level 0 first
    d.cells = dict(sorted(d.cells.items()))
    return d


# ------------------------------------------------------------------ rectangular lattices

def lattice_deck(seed):
    """LAT=1 cell (1, 2 or 3 pairs of axis planes, any listing order and sense), FILL array or FILL=n with --lattice,
    universes 0 / own / two filler universes, container sphere."""
    rng = random.Random(f'lat{seed}')
    d = Deck(f'lattice deck seed {seed}')
    ndim = rng.choice([1, 2, 2, 3])
    sid = 0
    pairs = []
    pitch = []
    for k in range(ndim):
        lo = rng.choice([-0.5, 0.0, -0.25])
        w = rng.choice([0.5, 0.75, 1.0])
        sid += 1
        d.add_surf(Surf(sid, 'p' + 'xyz'[k], [lo]))
        sid += 1
        d.add_surf(Surf(sid, 'p' + 'xyz'[k], [lo + w]))
        pairs.append((sid - 1, sid, lo, w))
    # filler universes: a small sphere (centred in the base element) and its outside
    cx = [p[2] + p[3] / 2 for p in pairs] + [0.0] * (3 - ndim)
    d.add_surf(Surf(20, 's', cx + [0.2]))
    d.add_surf(Surf(21, 's', cx + [0.15]))
    d.add_surf(Surf(30, 'so', [rng.choice([1.6, 2.2])]))
    for u, s_, (m1, m2) in ((2, 20, (1, 2)), (3, 21, (3, 4))):
        d.add_cell(Cell(10 * u, m1, rng.choice(RHOS if m1 != 3 else ['-7.8', '-1.0']), ('s', -s_), universe=u))
        d.add_cell(Cell(10 * u + 1, m2, rng.choice(RHOS), ('s', s_), universe=u))
        d.materials[m1] = MATS[m1]
        d.materials[m2] = MATS[m2]
    d.cells[30].rho = '-7.8'
    # lattice cell
    def listing():
        refs = []
        order = list(pairs)
        if rng.random() < 0.5:
            rng.shuffle(order)                        # the index directions follow the listing, not the axes
        for (a, b, lo, w) in order:
            lo_ref, hi_ref = ('s', a), ('s', -b)          # x > lo , x < lo + w
            pr = [lo_ref, hi_ref]
            rng.shuffle(pr)
            refs.extend(pr)
        e = refs[0]
        for r in refs[1:]:
            e = ('*', e, r)
        return e
    e = listing()
    ranges = []
    for k in range(ndim):
        lo = rng.choice([-2, -1, 0])
        ranges.append((lo, lo + rng.choice([1, 1, 2])))
    while len(ranges) < 3 and rng.random() < 0.5:
        ranges.append((0, 0))
    n = 1
    for lo, hi in ranges:
        n *= hi - lo + 1
    univs = [rng.choice([2, 3, 2, 3, 0, 9]) for _ in range(n)]
    L = Cell(50, 4, '-1.0', e, universe=9, lat=1)
    d.materials[4] = MATS[4]
    L.fill_array = (ranges, univs)
    L.homogeneous = False
    if rng.random() < 0.35:
        u = rng.choice([2, 3])
        L.fill_array = (ranges, [u] * n)
        L.homogeneous = u
    if L.homogeneous and rng.random() < 0.6:
        L.filltr = rng.choice([INLINE_TRS[1], INLINE_TRS[4], INLINE_TRS[2], ('inline', False, [0.1, 0.0, 0.0])])
    elif rng.random() < 0.3:
        # the lattice cell itself carries a TRCL (translation, or a rotation that is not symmetric)
        L.trcl = rng.choice([INLINE_TRS[0], INLINE_TRS[1], INLINE_TRS[4], INLINE_TRS[2]])
    d.add_cell(L)
    if rng.random() < 0.4:
        # a second lattice bounded by the same planes in another listing (other index directions / senses)
        L2 = Cell(51, 1, '-2.0', listing(), universe=8, lat=1)
        L2.fill_array = (ranges, [rng.choice([2, 3, 2, 3, 0, 8]) for _ in range(n)])
        L2.homogeneous = False
        d.add_cell(L2)
        d.add_surf(Surf(31, 'p', [0.3, 0.2, 1.0, 0.1]))
        d.add_cell(Cell(1, 0, None, ('*', ('s', -30), ('s', 31)), fill=9))
        d.add_cell(Cell(3, 0, None, ('*', ('s', -30), ('s', -31)), fill=8))
    else:
        d.add_cell(Cell(1, 0, None, ('s', -30), fill=9))
    d.add_cell(Cell(2, 0, None, ('s', 30), imp=rng.choice([0, 1])))
    d.cells = dict(sorted(d.cells.items()))
    d.lattice_opts = ['50,' + ','.join(f'{lo}:{hi}' for lo, hi in ranges)] if L.homogeneous else []
    return d


# ------------------------------------------------------------------ hexagonal lattices

def hex_deck(seed):
    """LAT=2 cell bounded by six planes parallel to z (regular or irregular centrally symmetric hexagon, any
    orientation in the xy plane), planes listed in MCNP order (across-i, opposite, across-j, opposite, the rest),
    FILL array over i, j; filler universes are small spheres centred in the base prism."""
    rng = random.Random(f'hex{seed}')
    d = Deck(f'hex lattice deck seed {seed}')
    if rng.random() < 0.5:
        r = rng.choice([0.5, 0.75])
        a0 = rng.uniform(0, 2 * math.pi)
        P = [(r * math.cos(a0 + k * math.pi / 3), r * math.sin(a0 + k * math.pi / 3)) for k in range(3)]
    else:
        while True:
            P = [(rng.uniform(-0.9, 0.9), rng.uniform(-0.9, 0.9)) for _ in range(3)]
            V = P + [(-x, -y) for x, y in P]
            if all((V[(k + 1) % 6][0] - V[k][0]) * (V[(k + 2) % 6][1] - V[(k + 1) % 6][1])
                   - (V[(k + 1) % 6][1] - V[k][1]) * (V[(k + 2) % 6][0] - V[(k + 1) % 6][0]) > 0.15 for k in range(6)):
                break
    V = P + [(-x, -y) for x, y in P]
    cx, cy = rng.choice([(0.0, 0.0), (0.25, -0.5)])
    sides = []
    for k in range(6):
        a, b = V[k], V[(k + 1) % 6]
        n = (b[1] - a[1], -(b[0] - a[0]))
        if rng.random() < 0.5:
            n = (-n[0], -n[1])
        D = n[0] * (a[0] + cx) + n[1] * (a[1] + cy)
        inside_neg = n[0] * cx + n[1] * cy - D < 0
        mid = ((a[0] + b[0]) / 2, (a[1] + b[1]) / 2)
        sides.append((n, D, inside_neg, (2 * mid[0], 2 * mid[1])))
    first = rng.randrange(6)
    third = rng.choice([k for k in range(6) if k % 3 != first % 3])
    rest = [k for k in range(6) if k % 3 not in (first % 3, third % 3)]
    rng.shuffle(rest)
    order = [first, (first + 3) % 6, third, (third + 3) % 6] + rest
    refs = []
    for sid, k in enumerate(order, start=1):
        n, D, inside_neg, _ = sides[k]
        d.add_surf(Surf(sid, 'p', [n[0], n[1], 0.0, D]))
        refs.append(('s', -sid if inside_neg else sid))
    e = refs[0]
    for r_ in refs[1:]:
        e = ('*', e, r_)
    d.add_surf(Surf(20, 's', [cx, cy, 0.0, 0.2]))
    d.add_surf(Surf(21, 's', [cx, cy, 0.0, 0.12]))
    d.add_surf(Surf(30, 'so', [2.4]))
    for u, s_, (m1, m2) in ((2, 20, (1, 2)), (3, 21, (4, 2))):
        d.add_cell(Cell(10 * u, m1, rng.choice(RHOS), ('s', -s_), universe=u))
        d.add_cell(Cell(10 * u + 1, m2, rng.choice(RHOS), ('s', s_), universe=u))
        d.materials[m1] = MATS[m1]
        d.materials[m2] = MATS[m2]
    ranges = [(rng.choice([-2, -1]), rng.choice([1, 2])), (rng.choice([-1, 0]), rng.choice([1, 2]))]
    if rng.random() < 0.4:
        ranges.append((0, 0))
    n = 1
    for lo, hi in ranges:
        n *= hi - lo + 1
    L = Cell(50, 1, '-1.0', e, universe=9, lat=2)
    L.fill_array = (ranges, [rng.choice([2, 3, 2, 3, 0, 9]) for _ in range(n)])
    L.homogeneous = False
    L.hex_vectors = (sides[first][3], sides[third][3])
    d.add_cell(L)
    if rng.random() < 0.5:
        # a second lattice on the same six planes, listed in another admissible order (other i / j directions),
        # filling the lower half of the container
        first2 = rng.randrange(6)
        third2 = rng.choice([k for k in range(6) if k % 3 != first2 % 3])
        rest2 = [k for k in range(6) if k % 3 not in (first2 % 3, third2 % 3)]
        rng.shuffle(rest2)
        order2 = [first2, (first2 + 3) % 6, third2, (third2 + 3) % 6] + rest2
        refs2 = [refs[order.index(k)] for k in order2]
        e2 = refs2[0]
        for r_ in refs2[1:]:
            e2 = ('*', e2, r_)
        L2 = Cell(51, 4, '-2.0', e2, universe=8, lat=2)
        L2.fill_array = (ranges, [rng.choice([2, 3, 2, 3, 0, 8]) for _ in range(n)])
        L2.homogeneous = False
        L2.hex_vectors = (sides[first2][3], sides[third2][3])
        d.materials[4] = MATS[4]
        d.add_cell(L2)
        d.add_surf(Surf(31, 'pz', [0.0]))
        d.add_cell(Cell(1, 0, None, ('*', ('s', -30), ('s', 31)), fill=9))
        d.add_cell(Cell(3, 0, None, ('*', ('s', -30), ('s', -31)), fill=8))
    else:
        d.add_cell(Cell(1, 0, None, ('s', -30), fill=9))
    d.add_cell(Cell(2, 0, None, ('s', 30), imp=0))
    d.cells = dict(sorted(d.cells.items()))
    d.lattice_opts = []
    return d


# ------------------------------------------------------------------ directed decks

N_DIRECTED = 10


def directed_deck(k):
    """Small hand-made decks for input shapes that random generation meets too rarely to rely on (each was needed by
    at least one seeded change): k is taken modulo N_DIRECTED."""
    k %= N_DIRECTED
    d = Deck(f'directed deck {k}')
    d.add_surf(Surf(1, 'so', [1.0]))
    d.add_surf(Surf(2, 'so', [2.0]))
    d.add_surf(Surf(3, 'px', [0.25]))
    mats = [1, 2, 4]
    rhos = ['-2.70', '-1.0', '0.05']
    plane_hi, plane_lo = ('s', 3), ('s', -3)
    if k == 0:      # mass fractions with an atom density: warned, empty composition, file still well-formed
        mats, rhos = [3, 2, 4], ['0.05', '-1.0', '0.05']
    elif k == 1:    # same material, densities that agree to six significant digits only
        mats, rhos = [1, 2, 2], ['-2.70', '-0.9982071', '-0.9982074']
    elif k == 2:    # same material, one density in two spellings: one composition
        mats, rhos = [1, 2, 2], ['-2.70', '-1.0', '-1.00']
    elif k == 3:    # unflagged duplicate with a larger number declared before the flagged surface it duplicates
        d.surfs[3].bc = '*'
        d.surfs = dict([(7, Surf(7, 'px', [0.25]))] + list(d.surfs.items()))
        plane_hi = ('s', 7)
    elif k == 4:    # the same, white boundary, duplicate used with the other sense
        d.surfs[3].bc = '+'
        d.surfs = dict([(9, Surf(9, 'px', [0.25]))] + list(d.surfs.items()))
        plane_lo = ('s', -9)
    elif k == 5:    # flagged plane that coincides with a facet of a macrobody declared before it
        d.surfs.pop(1)
        d.add_surf(Surf(1, 'rpp', [-0.75, 0.5, -1.0, 0.25, -0.5, 0.5]))
        d.surfs[3] = Surf(3, 'py', [0.25], None, '*')
        d.surfs = dict(sorted(d.surfs.items(), key=lambda kv: (kv[0] == 3, kv[0])))
    if k == 6:      # importances inside a filling universe differ from the container's (zero / non-zero both ways)
        d.add_surf(Surf(4, 'pz', [0.0]))
        d.add_cell(Cell(1, 0, None, ('s', -1), imp=1, fill=5))
        d.add_cell(Cell(2, 0, None, ('*', ('s', 1), ('*', ('s', -2), plane_lo)), imp=0, fill=5))
        d.add_cell(Cell(3, 1, '-2.70', ('*', ('s', 1), ('*', ('s', -2), plane_hi)), imp=1))
        d.add_cell(Cell(4, 0, None, ('s', 2), imp=0))
        d.add_cell(Cell(50, 2, '-1.0', ('s', -4), imp=0, universe=5))
        d.add_cell(Cell(51, 4, '0.05', ('s', 4), imp=2, universe=5))
        d.materials.update({1: MATS[1], 2: MATS[2], 4: MATS[4]})
        return d
    if k == 9:      # cell cards not in increasing order, importances on an IMP data card (assigned by position)
        d.add_cell(Cell(10, 1, '-2.70', ('s', -1), imp=1, imp_on_card=False))
        d.add_cell(Cell(30, 0, None, ('s', 2), imp=0, imp_on_card=False))
        d.add_cell(Cell(20, 2, '-1.0', ('*', ('s', 1), ('s', -2)), imp=2, imp_on_card=False))
        d.imp_card = [1, 0, 2]
        d.materials.update({1: MATS[1], 2: MATS[2]})
        return d
    if k == 8:      # the zero-importance outside world has the highest cell number, with a gap that the numbers
        # generated for auxiliary volumes (unions, complements) fall into
        d.add_surf(Surf(4, 'py', [0.0]))
        d.add_surf(Surf(5, 'pz', [0.0]))
        d.add_cell(Cell(1, 1, '-2.70', ('*', (':', (':', ('s', -1), ('s', -3)), ('s', -4)), ('s', -2))))
        d.add_cell(Cell(2, 2, '-1.0', ('*', ('*', ('~', (':', (':', ('s', -1), ('s', -3)), ('s', -4))), ('s', -2)), (':', ('s', 5), ('s', -5)))))
        d.add_cell(Cell(9, 0, None, ('s', 2), imp=0))
        d.materials.update({1: MATS[1], 2: MATS[2]})
        return d
    if k == 7:      # a flagged one-sheet cone (cone + apex plane in TRIPOLI-4) bounding converted cells
        d.add_surf(Surf(5, 'kz', [0.5, 1.0, 1.0], None, '*'))
        d.add_cell(Cell(1, 1, '-2.70', ('*', ('s', -5), ('s', -2))))
        d.add_cell(Cell(2, 2, '-1.0', ('*', ('s', 5), ('s', -2))))
        d.add_cell(Cell(4, 0, None, ('s', 2), imp=0))
        d.materials.update({1: MATS[1], 2: MATS[2]})
        return d
    d.add_cell(Cell(1, mats[0], rhos[0], ('s', -1)))
    d.add_cell(Cell(2, mats[1], rhos[1], ('*', ('s', 1), ('*', ('s', -2), plane_lo))))
    d.add_cell(Cell(3, mats[2], rhos[2], ('*', ('s', 1), ('*', ('s', -2), plane_hi))))
    d.add_cell(Cell(4, 0, None, ('s', 2), imp=0))
    for m in mats:
        d.materials[m] = MATS[m]
    return d
