"""MCNP-insignificant respellings of a generated deck (property C14).

A deck produced by harness.decks.Deck.text() has one card per line: title, cell cards, blank line, surface cards,
blank line, data cards.  `respell(text, rng, kinds)` returns a text that MCNP reads as the same deck:

  case          letter case of keywords, mnemonics and exponents flipped
  blanks        runs of blanks widened, up to four leading blanks before a card
  tabs          a blank replaced by a tab (tab stops every 8 columns; never in the first five columns)
  continuation  a card split over several lines (five leading blanks, or a trailing ampersand on the line before)
  comments      `$` comments at line ends (also after a trailing ampersand; with further `$` and `&` inside the comment),
                full `c` comment lines between cards and inside continued cards
  message       a message block (and its blank-line terminator) before the title
  numbers       Fortran spellings of real numbers (1.5 -> 1.5e0, 15.0-1, .15+1, 1.5D0) in surface parameters, TR entries,
                material fractions and densities
  ending        the file ends right after the last card (no final newline), or with the blank-line terminator
  shorthand     nR / nI / nM shorthand in IMP data cards, nR in TR cards and in the universes of FILL arrays
"""
import re

KINDS = ('case', 'blanks', 'tabs', 'continuation', 'comments', 'message', 'numbers', 'shorthand', 'ending')

_NUM = re.compile(r'^[-+]?(\d+\.\d*|\.\d+|\d+)([eE][-+]?\d+)?$')


def _real_spellings(tok, rng):
    """Another spelling of the same real number (tok must look like a decimal number with a point)."""
    if not _NUM.match(tok) or '.' not in tok or 'e' in tok.lower():
        return tok
    sign = ''
    body = tok
    if body[0] in '+-':
        sign, body = body[0], body[1:]
    if sign == '+':
        sign = ''
    ip, fp = body.split('.')
    digits = (ip + fp).lstrip('0') or '0'
    choice = rng.randrange(5)
    if choice == 0:
        return f'{sign}{body}e0'
    if choice == 1:
        return f'{sign}{body}E+00'
    if choice == 2:
        return f'{sign}{body}d0' if rng.random() < 0.5 else f'{sign}{body}D0'
    if choice == 3:
        # move the point one place to the right, exponent -1 without the letter: 1.5 -> 15.-1
        if fp:
            return f'{sign}{ip}{fp[0]}.{fp[1:]}-1'
        return f'{sign}{ip}0.-1'
    # move the point one place to the left, exponent +1 without the letter: 1.5 -> .15+1
    ip2 = ip if ip else '0'
    return f'{sign}{ip2[:-1]}.{ip2[-1]}{fp}+1' if ip2 else tok


def _respell_numbers(line, kind, rng):
    toks = line.split(' ')
    out = []
    if kind == 'surface':
        # [flag]number [tr] mnemonic params...
        seen_mn = False
        for t in toks:
            if not seen_mn:
                out.append(t)
                if re.match(r'^[A-Za-z/]+$', t):
                    seen_mn = True
            else:
                out.append(_real_spellings(t, rng) if rng.random() < 0.6 else t)
        return ' '.join(out)
    if kind == 'tr':
        return ' '.join([toks[0]] + [(_real_spellings(t, rng) if rng.random() < 0.5 else t) for t in toks[1:]])
    if kind == 'material':
        out = [toks[0]]
        for i, t in enumerate(toks[1:]):
            out.append(_real_spellings(t, rng) if (i % 2 == 1 and rng.random() < 0.6) else t)
        return ' '.join(out)
    if kind == 'cell':
        # number material density ...: the density token (third) of a non-void, non-LIKE cell
        if len(toks) > 2 and toks[1] != '0' and toks[1].lower() != 'like' and rng.random() < 0.6:
            toks[2] = _real_spellings(toks[2], rng)
        line = ' '.join(toks)
        # the entries of inline transformations  TRCL=( ... )  /  FILL=n ( ... )  and the value of IMP:x=
        def inside(m):
            return '(' + ' '.join(_real_spellings(t, rng) if rng.random() < 0.5 else t for t in m.group(1).split(' ')) + ')'
        m = re.search(r'(?i)(trcl|fill)=', line)
        if m:
            head, tail = line[:m.start()], line[m.start():]
            tail = re.sub(r'\(([-+0-9. eE]+)\)', inside, tail)
            line = head + tail
        line = re.sub(r'(?i)(imp:[a-z,]+=)(\d+\.\d*)', lambda mm: mm.group(1) + _real_spellings(mm.group(2), rng), line)
        return line
    return line


def _flip_case(line, rng):
    mode = rng.randrange(3)
    if mode == 0:
        return line.lower()
    if mode == 1:
        return line.upper()
    return ''.join(ch.upper() if rng.random() < 0.5 else ch.lower() for ch in line)


def _widen(line, rng):
    out = re.sub(r' ', lambda m: ' ' * rng.choice((1, 1, 2, 3)), line)
    return ' ' * rng.choice((0, 0, 1, 4)) + out


def _tabs(line, rng):
    # replace one blank beyond column 8 by a tab (a tab there is at least one blank)
    pos = [i for i, ch in enumerate(line) if ch == ' ' and i >= 8 and line[i - 1] != ' ']
    if not pos:
        return line
    i = rng.choice(pos)
    return line[:i] + '\t' + line[i + 1:]


def _split(line, rng):
    """Split one card over several lines at blanks that are not inside a number / keyword=value pair."""
    cands = [m.start() for m in re.finditer(r' ', line) if 10 < m.start() < len(line) - 3
             and line[m.start() - 1] not in '=( ' and line[m.start() + 1] not in '=) '
             and line[m.start() + 1:].strip() and line[:m.start()].strip()]
    if not cands:
        return [line]
    n = rng.choice((1, 1, 2))
    cuts = sorted(rng.sample(cands, min(n, len(cands))))
    parts, prev = [], 0
    for c in cuts:
        parts.append(line[prev:c])
        prev = c + 1
    parts.append(line[prev:])
    parts = [p for p in parts if p.strip()]
    out = [parts[0]]
    for p in parts[1:]:
        if rng.random() < 0.5:
            out[-1] = out[-1] + ' &'
            out.append(' ' * rng.choice((0, 2, 6)) + p)
        else:
            out.append(' ' * rng.choice((5, 6, 9)) + p)
    return out


def _repeat(toks, rng):
    """runs of equal tokens -> `x nR`"""
    out = []
    i = 0
    while i < len(toks):
        j = i
        while j + 1 < len(toks) and toks[j + 1] == toks[i]:
            j += 1
        n = j - i
        if n >= 1 and rng.random() < 0.8:
            out += [toks[i], f'{n}r' if rng.random() < 0.5 else f'{n}R']
        else:
            out += toks[i:j + 1]
        i = j + 1
    return out


def _interpolate_multiply(toks, rng):
    """a a+d a+2d (integers spelled as reals) -> `a 1i a+2d`;  x 2x -> `x 2m`  (only exact cases)"""
    vals = []
    for t in toks:
        try:
            vals.append(float(t))
        except ValueError:
            return toks
    out, i = [], 0
    while i < len(toks):
        if i + 2 < len(toks) and vals[i + 1] - vals[i] == vals[i + 2] - vals[i + 1] != 0 and rng.random() < 0.6 \
                and all(v == int(v) for v in vals[i:i + 3]):
            out += [toks[i], '1i' if rng.random() < 0.5 else '1I', toks[i + 2]]
            i += 3
        elif i + 1 < len(toks) and vals[i] != 0 and vals[i + 1] == 2 * vals[i] and rng.random() < 0.6:
            out += [toks[i], '2m' if rng.random() < 0.5 else '2M']
            i += 2
        else:
            out.append(toks[i])
            i += 1
    return out


def _shorthand(line, rng):
    toks = line.split()
    if not toks:
        return line
    head = toks[0].lower()
    if head.startswith('imp:'):
        body = _interpolate_multiply(toks[1:], rng) if rng.random() < 0.5 else toks[1:]
        return ' '.join([toks[0]] + _repeat(body, rng))
    if head.lstrip('*').startswith('tr') and rng.random() < 0.5:
        return ' '.join([toks[0]] + _repeat(toks[1:], rng))
    return line


def _shorthand_fill_array(line, rng):
    """FILL=lo:hi ... u u u  ->  u 2r  (the universes of a FILL array are read like a data card)"""
    m = re.search(r'(?i)(fill=(?:-?\d+:-?\d+ ?)+)((?:\d+ ?)+)', line)
    if not m or rng.random() < 0.4:
        return line
    univs = m.group(2).split()
    return line[:m.start(2)] + ' '.join(_repeat(univs, rng)) + (' ' if m.group(2).endswith(' ') else '') + line[m.end(2):]


def respell(text, rng, kinds=KINDS):
    lines = text.rstrip('\n').split('\n')
    title, rest = lines[0], lines[1:]
    blocks, cur = [], []
    for l in rest:
        if l.strip() == '':
            blocks.append(cur)
            cur = []
        else:
            cur.append(l)
    blocks.append(cur)
    while len(blocks) < 3:
        blocks.append([])
    out_blocks = []
    for bi, block in enumerate(blocks[:3]):
        new = []
        for line in block:
            kind = ('cell', 'surface', 'data')[bi]
            if kind == 'data':
                head = line.split()[0].lower()
                kind = 'tr' if head.lstrip('*').startswith('tr') else ('material' if re.match(r'^m\d+$', head) else 'data')
            l2 = line
            if 'numbers' in kinds:
                l2 = _respell_numbers(l2, kind, rng)
            if 'shorthand' in kinds and kind in ('data', 'tr'):
                l2 = _shorthand(l2, rng)
            if 'shorthand' in kinds and kind == 'cell':
                l2 = _shorthand_fill_array(l2, rng)
            if 'case' in kinds:
                l2 = _flip_case(l2, rng)
            if 'blanks' in kinds:
                l2 = _widen(l2, rng)
            parts = _split(l2, rng) if 'continuation' in kinds and rng.random() < 0.5 else [l2]
            if 'tabs' in kinds:
                parts = [_tabs(p, rng) if rng.random() < 0.4 else p for p in parts]
            if 'comments' in kinds:
                with_c = []
                for k, p in enumerate(parts):
                    if k and rng.random() < 0.3:
                        with_c.append(rng.choice(('c a comment inside a card', 'C', '  c    another one', 'c\ttab after the c',
                                                  'C\t\ttabs')))
                    if rng.random() < 0.3:
                        # everything after the first `$` is comment: a second `$`, an ampersand (also as the last
                        # character of the line) mean nothing there; `& $ comment` still continues the card
                        p = p + ' $ ' + rng.choice(('comment', 'imp:n=0 u=99 (ignored)', '1 2 3', 'cost 3 $/l',
                                                    'was: imp:n=1 & $ old continuation', 'a & b', 'ends with &',
                                                    '$$ &'))
                    with_c.append(p)
                parts = with_c
                if rng.random() < 0.3:
                    new.append(rng.choice(('c comment between cards', 'C ----', ' c  x', 'c\ttabbed comment between cards')))
            new += parts
        out_blocks.append(new)
    head = []
    if 'message' in kinds and rng.random() < 0.5:
        head = ['message: outp=respelled.o', '']
    body = [title] + out_blocks[0] + [''] + out_blocks[1] + [''] + out_blocks[2]
    text2 = '\n'.join(head + body) + '\n'
    if 'ending' in kinds:
        # how the file ends after its last card: no final newline at all, or the blank-line terminator of the data block
        choice = rng.randrange(3)
        if choice == 0:
            text2 = text2.rstrip('\n')
        elif choice == 1:
            text2 = text2 + '\n'
    return text2
