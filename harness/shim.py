"""Stand-in for `MIP.geom.parsegeom.parser` (TatSu 5.24 cannot compile the left-recursive geom.ebnf here).

A recursive-descent parser for exactly the grammar of MIP/geom/grammars/geom.ebnf
    union   = union ':' isect | isect          (left associative)
    isect   = isect '*' operand | operand      (left associative)
    operand = cell | surface | '_(' union ')' | '(' union ')' | '^(' complcell ')'
    surface = /[-+]{0,1}\\d+(?:\\.\\d)?/     cell = /_\\d+/     complcell = /\\d+/
driving the *real* GeomSemantics actions with objects exposing .l / .o / .r like TatSu's AST nodes.
The real normalize() and GeomSemantics run unchanged.  Installed only in the checking process."""
import re

_SURF = re.compile(r'[-+]{0,1}\d+(?:\.\d)?')
_CELL = re.compile(r'_\d+')
_NUM = re.compile(r'\d+')


class _A(dict):
    __getattr__ = dict.get


class ShimParseError(Exception):
    pass


class Parser:
    def parse(self, text, semantics=None, **_):
        self.t, self.i, self.s = text, 0, semantics
        r = self.union()
        if self.i != len(self.t):
            raise ShimParseError(f'trailing input at {self.i}: {self.t!r}')
        return r

    def union(self):
        left = self.s.union(_A(o=self.isect()))
        while self.t.startswith(':', self.i):
            self.i += 1
            left = self.s.union(_A(l=left, o=':', r=self.isect()))
        return left

    def isect(self):
        left = self.s.isect(_A(o=self.operand()))
        while self.t.startswith('*', self.i):
            self.i += 1
            left = self.s.isect(_A(l=left, o='*', r=self.operand()))
        return left

    def operand(self):
        t = self.t
        m = _CELL.match(t, self.i)
        if m:
            self.i = m.end()
            return self.s.operand(_A(o=self.s.cell(m.group())))
        m = _SURF.match(t, self.i)
        if m:
            self.i = m.end()
            return self.s.operand(_A(o=self.s.surface(m.group())))
        for lit in ('_(', '(', '^('):
            if t.startswith(lit, self.i):
                self.i += len(lit)
                if lit == '^(':
                    m = _NUM.match(t, self.i)
                    if not m:
                        raise ShimParseError(f'cell number expected at {self.i}: {t!r}')
                    self.i = m.end()
                    o = self.s.complcell(m.group())
                else:
                    o = self.union()
                if not t.startswith(')', self.i):
                    raise ShimParseError(f'")" expected at {self.i}: {t!r}')
                self.i += 1
                return self.s.operand(_A(l=lit, o=o, r=')'))
        raise ShimParseError(f'operand expected at {self.i}: {t!r}')


def install():
    from MIP.geom import parsegeom
    if not isinstance(parsegeom.parser, Parser):
        parsegeom.parser = Parser()
    # ParseMCNPCell catches tatsu.exceptions.ParseException; make the shim's error an instance of it
    try:
        import tatsu.exceptions as te
        global ShimParseError
        if not issubclass(ShimParseError, te.ParseException):
            ShimParseError = type('ShimParseError', (te.ParseException,), {})
            Parser.__module__ = __name__
            globals()['ShimParseError'] = ShimParseError
    except Exception:
        pass
